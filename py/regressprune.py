#!/usr/bin/python3
"""Replays every saved regression case against the current (repaired) tree: keeps the ones that are taken by their
test (JSON replay) and pass; removes the ones whose test has no JSON replay; reports the ones that fail."""
import os, subprocess, sys, tempfile
VERIF = os.path.dirname(os.path.dirname(os.path.abspath(__file__)))
scratch = tempfile.mkdtemp(prefix="regressprune-")
env = dict(os.environ, VERIF_EVIDENCE_OUT=os.path.join(scratch, "evidence"), VERIF_REPLAYS_OUT=os.path.join(scratch, "replays"))
bad = 0
for prop in sorted(os.listdir(os.path.join(VERIF, "regress"))):
    d = os.path.join(VERIF, "regress", prop)
    if not os.path.isdir(d):
        continue
    for fn in sorted(os.listdir(d)):
        r = subprocess.run([os.path.join(VERIF, "check"), prop, "quick", "--replay", os.path.join(d, fn)], cwd=VERIF, env=env, capture_output=True, text=True)
        if r.returncode == 0:
            print("keep   %s/%s" % (prop, fn))
        elif r.returncode == 2 and "no JSON replay" in r.stdout + r.stderr:
            os.unlink(os.path.join(d, fn)); print("remove %s/%s (test has no JSON replay)" % (prop, fn))
        else:
            bad += 1; print("FAILS  %s/%s exit %d\n%s" % (prop, fn, r.returncode, (r.stdout + r.stderr)[-600:]))
sys.exit(1 if bad else 0)
