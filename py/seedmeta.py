#!/usr/bin/python3
"""py/seedmeta.py <name> <needs_to_manifest> <caught_by;...> [history]  - completes seeded/<name>/meta.json"""
import json, sys
name, needs, caught = sys.argv[1:4]
hist = sys.argv[4] if len(sys.argv) > 4 else ""
p = "/verif/seeded/%s/meta.json" % name
m = json.load(open(p))
m["needs_to_manifest"] = needs
m["caught_by"] = [c.strip() for c in caught.split(";") if c.strip()]
if hist:
    m["history"] = hist
m["what_i_ran"] = [
    "py/seedconfirm.py (scratch worktree: demo passes on the unchanged tree, fails with the change; the complete existing suite passes with the change)",
    "py/seedtest.py seeded/%s (git -C /repo apply patch.diff; ./check <ID> quick; git apply -R; git checkout -- .)" % name]
m["source"] = "independent sub-agent (third wave: told which ideas were already used and asked for other files/triggers, nothing from /verif)"
json.dump(m, open(p, "w"), indent=1)
print("ok", p)
