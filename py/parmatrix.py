#!/usr/bin/python3
"""Re-runs the whole seeded-change matrix in parallel on scratch copies (an internal regression run of the harness;
the registered checks and the per-seed procedure of seedtest.py always use /repo itself).

  py/parmatrix.py [-j N] [NAME-PREFIX ...]

Each worker owns a scratch git worktree of /repo (at HEAD) and a scratch copy of /verif whose harness module is pointed
at that worktree. For every seeded change: apply patch.diff to the worker's worktree, run the quick tier of the checks
named in meta.json (caught_by), restore the worktree. Prints one line per seeded change and a summary; everything
under /tmp/parmatrix-* is removed at the end."""
import json, os, re, shutil, subprocess, sys, tempfile, threading, queue

VERIF = os.path.dirname(os.path.dirname(os.path.abspath(__file__)))

def sh(cmd, **k):
    return subprocess.run(cmd, shell=True, capture_output=True, text=True, **k)

def main():
    args = sys.argv[1:]
    jobs = 6
    if "-j" in args:
        i = args.index("-j"); jobs = int(args[i + 1]); del args[i:i + 2]
    seeds = sorted(d for d in os.listdir(os.path.join(VERIF, "seeded")) if os.path.isdir(os.path.join(VERIF, "seeded", d)))
    if args:
        seeds = [s for s in seeds if any(s.startswith(a) for a in args)]
    root = tempfile.mkdtemp(prefix="parmatrix-")
    q = queue.Queue()
    for s in seeds:
        q.put(s)
    results, lock = {}, threading.Lock()

    def worker(k):
        repo = os.path.join(root, "repo%d" % k)
        ver = os.path.join(root, "verif%d" % k)
        r = sh("git -C /repo worktree add --detach %s HEAD" % repo)
        if r.returncode != 0:
            print("worker %d: cannot create worktree: %s" % (k, r.stderr)); return
        sh("rsync -a --exclude .build --exclude replays --exclude .git %s/ %s/" % (VERIF, ver))
        gm = os.path.join(ver, "harness", "go.mod")
        txt = open(gm).read().replace("=> /repo", "=> " + repo)
        open(gm, "w").write(txt)
        chk = os.path.join(ver, "check")
        txt = open(chk).read().replace('"VERIF_REPO": "/repo"', '"VERIF_REPO": "%s"' % repo)
        open(chk, "w").write(txt)
        env = dict(os.environ, VERIF_EVIDENCE_OUT=os.path.join(root, "ev%d" % k), VERIF_REPLAYS_OUT=os.path.join(root, "rp%d" % k))
        while True:
            try:
                s = q.get_nowait()
            except queue.Empty:
                break
            sd = os.path.join(VERIF, "seeded", s)
            m = json.load(open(os.path.join(sd, "meta.json")))
            props = []
            for c in m.get("caught_by", []):
                p = c.split()[0]
                if re.match(r"^C\d\d$", p) and p not in props:
                    props.append(p)
            props = props or [m["property"]]
            a = sh("git -C %s apply %s" % (repo, os.path.join(sd, "patch.diff")))
            res = {}
            if a.returncode != 0:
                res = {"apply": "patch does not apply: " + a.stderr.strip()[:200]}
            else:
                for p in props:
                    r = subprocess.run([chk, p, "quick"], cwd=ver, env=env, capture_output=True, text=True)
                    res[p] = r.returncode
            sh("git -C %s checkout -- . && git -C %s clean -fdq" % (repo, repo))
            with lock:
                results[s] = res
                caught = sum(1 for v in res.values() if v == 1)
                print("%s: caught by %d of %d checks %s" % (s, caught, len(res), res), flush=True)
        sh("git -C /repo worktree remove --force %s" % repo)

    ts = [threading.Thread(target=worker, args=(k,)) for k in range(jobs)]
    for t in ts:
        t.start()
    for t in ts:
        t.join()
    shutil.rmtree(root, ignore_errors=True)
    sh("git -C /repo worktree prune")
    missed = [s for s, r in results.items() if not any(v == 1 for v in r.values())]
    partial = [s for s, r in results.items() if any(v == 1 for v in r.values()) and any(v != 1 for v in r.values())]
    print("\n%d seeded changes, %d caught by at least one named check, %d not caught: %s" % (len(results), len(results) - len(missed), len(missed), missed))
    if partial:
        print("caught by some but not all of the named checks: %s" % partial)
    return 0

if __name__ == "__main__":
    sys.exit(main())
