#!/usr/bin/python3
"""Applies a seeded change to /repo, runs checks against it, restores /repo.

  py/seedtest.py <seed_dir> [--tier quick|thorough] [PROP ...]     (default: the property named in meta.json or the dir name)

Evidence and replays of these runs go to a scratch directory (not /verif/evidence)."""
import json, os, subprocess, sys, tempfile, shutil

VERIF = os.path.dirname(os.path.dirname(os.path.abspath(__file__)))

def main():
    args = sys.argv[1:]
    tier = "quick"
    if "--tier" in args:
        i = args.index("--tier"); tier = args[i+1]; del args[i:i+2]
    seed = os.path.abspath(args[0])
    props = args[1:]
    if not props:
        meta = os.path.join(seed, "meta.json")
        if os.path.exists(meta):
            props = [json.load(open(meta))["property"]]
        else:
            props = [os.path.basename(seed.rstrip("/")).split("-")[-1].split("_")[0]]
    patch = os.path.join(seed, "patch.diff")
    if subprocess.run(["git", "-C", "/repo", "status", "--porcelain"], capture_output=True, text=True).stdout.strip():
        print("refusing: /repo working tree is not clean"); return 2
    r = subprocess.run(["git", "-C", "/repo", "apply", patch], capture_output=True, text=True)
    if r.returncode != 0:
        print("patch does not apply:", r.stderr); return 2
    scratch = tempfile.mkdtemp(prefix="seedtest-")
    env = dict(os.environ, VERIF_EVIDENCE_OUT=os.path.join(scratch, "evidence"), VERIF_REPLAYS_OUT=os.path.join(scratch, "replays"))
    results = {}
    try:
        for p in props:
            pr = subprocess.run([os.path.join(VERIF, "check"), p, tier], cwd=VERIF, env=env, capture_output=True, text=True)
            out = pr.stdout + pr.stderr
            viol = [l for l in out.splitlines() if l.startswith("VIOLATION") or l.startswith("FAILURE")]
            results[p] = (pr.returncode, viol)
            print("== %s %s: exit %d" % (p, tier, pr.returncode))
            for l in viol[:4]:
                print("   ", l[:400])
            if pr.returncode not in (0, 1):
                print(out[-1500:])
    finally:
        subprocess.run(["git", "-C", "/repo", "apply", "-R", patch])
        subprocess.run(["git", "-C", "/repo", "checkout", "--", "."])
        left = subprocess.run(["git", "-C", "/repo", "status", "--porcelain"], capture_output=True, text=True).stdout.strip()
        if left:
            print("WARNING: /repo not clean after restore:\n" + left)
        shutil.rmtree(scratch, ignore_errors=True)
    return 0

if __name__ == "__main__":
    sys.exit(main())
