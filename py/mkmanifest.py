#!/usr/bin/python3
"""Regenerates /verif/MANIFEST.json from py/checks.py (single source of truth)."""
import json, os, sys
sys.path.insert(0, os.path.dirname(os.path.abspath(__file__)))
from checks import CHECKS, NOT_APPLICABLE, HOOK_COMMITS

VERIF = os.path.dirname(os.path.dirname(os.path.abspath(__file__)))
props = [json.loads(l)["id"] for l in open(os.path.join(VERIF, "properties.jsonl")) if l.strip()]
checks = []
for pid in props:
    if pid not in CHECKS:
        continue
    c = CHECKS[pid]
    checks.append({
        "property_id": pid,
        "quick_cmd": "./check %s quick" % pid,
        "thorough_cmd": "./check %s thorough" % pid,
        "evidence_file": "/verif/evidence/%s.json" % pid,
        "replay_cmd_template": "./check %s quick --replay {path}" % pid,
        "engine": "harness",
        "level_claimed": {"category": c.get("level", "exploration"), "text": c["level_text"], "design_ref": "DESIGN.md section 4, " + pid},
        "level_note": c["level_note"],
        "technique": c["technique"],
    })
na = [{"property_id": p, "reason": NOT_APPLICABLE[p]} for p in props if p not in CHECKS]
m = {
    "version": 1,
    "setup_cmd": "./check --setup",
    "hooks": {
        "guard": "verif",
        "enable": "go test -tags verif (the harness module /verif/harness replaces github.com/ovh/kmip-go with /repo and is always built with -tags verif)",
        "baseline_off_cmd": "cd /repo && GOFLAGS=-mod=mod GOPROXY=off GOTOOLCHAIN=auto go test -json -vet=off -count=1 -timeout 25m ./...",
        "source_commits": HOOK_COMMITS,
        "add_only": True,
    },
    "engines": [{
        "name": "harness", "path": "/verif/harness",
        "serves_properties": [c["property_id"] for c in checks],
        "kind_free_text": "Go module (go 1.26.8, pgregory.net/rapid v1.3.0, native go fuzzing, testing/synctest) driven by /verif/check (python3); "
                          "independent TTLV codec harness/ttlvref as reference; evidence fragments merged by the driver",
    }],
    "checks": checks,
    "not_applicable": na,
    "notes": "Every check is property-based testing / fuzzing: generated cases against an explicit oracle; see DESIGN.md. "
             "KNOWN_FINDINGS.txt lists open and fixed findings.",
}
with open(os.path.join(VERIF, "MANIFEST.json"), "w") as f:
    json.dump(m, f, indent=1)
    f.write("\n")
print("wrote MANIFEST.json: %d checks, %d not applicable" % (len(checks), len(na)))
