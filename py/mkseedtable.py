#!/usr/bin/python3
"""Regenerates the seeded-change table of DESIGN.md (section 8.5) from seeded/*/meta.json."""
import json, glob, os, re
root = os.path.dirname(os.path.dirname(os.path.abspath(__file__)))
rows = []
for mp in sorted(glob.glob(os.path.join(root, "seeded", "*", "meta.json"))):
    m = json.load(open(mp))
    esc = lambda s: s.replace("|", "\\|").replace("\n", " ")
    rows.append("| %s | %s | %s | %s | %s |" % (m["name"], m["property"], esc(m.get("needs_to_manifest", "")),
                                              esc("; ".join(m.get("caught_by", []))), esc(m.get("history") or "caught at once")))
p = os.path.join(root, "DESIGN.md")
lines = open(p).read().split("\n")
start = next(i for i, l in enumerate(lines) if l.startswith("| seeded change |"))
end = start + 2
while end < len(lines) and lines[end].startswith("|"):
    end += 1
lines[start + 2:end] = rows
text = "\n".join(lines)
text = re.sub(r"at the time of writing all \d+ changes", "at the time of writing all %d changes" % len(rows), text)
open(p, "w").write(text)
print("table:", len(rows), "rows")
