#!/bin/bash
# runs every check's quick (or $2) tier at VERIF_SEED=$1 and prints a summary line per property
seed=${1:-1}; tier=${2:-quick}
cd "$(dirname "$0")/.."
for p in $(./check --list); do
  s=$(date +%s)
  out=$(VERIF_SEED=$seed ./check $p $tier 2>&1); rc=$?
  e=$(date +%s)
  echo "$p seed=$seed tier=$tier exit=$rc $((e-s))s $(echo "$out" | grep -E '^(VIOLATION|INCONCLUSIVE|NOTE)' | head -3 | tr '\n' ' ' | cut -c1-300)"
done
