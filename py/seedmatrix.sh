#!/bin/bash
# runs every confirmed seeded change against the check(s) named in its meta.json (caught_by) and prints one line each
cd "$(dirname "$0")/.."
for d in seeded/*/; do
  n=$(basename $d)
  props=$(/usr/bin/python3 -c "
import json,re,sys
m=json.load(open('$d/meta.json'))
ps=[]
for c in m.get('caught_by',[]):
    p=c.split()[0]
    if not re.match(r'^C[0-9][0-9]$', p): continue
    if p not in ps: ps.append(p)
print(' '.join(ps) or m['property'])")
  out=$(py/seedtest.py $d $props 2>&1)
  caught=$(echo "$out" | grep -c "exit 1")
  total=$(echo "$out" | grep -c "^== ")
  echo "$n: caught by $caught of $total checks ($props) $(echo "$out" | grep -E 'exit (2|0)' | tr '\n' ' ')"
done
