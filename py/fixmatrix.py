#!/usr/bin/python3
"""For every `fixed:` line of KNOWN_FINDINGS.txt: takes the repair out of /repo's working tree again
(reverse-applies the fix commit, nothing is committed), runs the quick check of that property, expects
exit 1, keeps the JSON replay it produced under /verif/regress/<ID>/ and restores /repo.

  py/fixmatrix.py [--keep-existing] [COMMIT ...]

A fixed entry suppresses nothing: this shows that each check reports the defect again if it returns, and
the saved replays become the seconds-long regression tier the driver runs first."""
import json, os, re, shutil, subprocess, sys, tempfile, hashlib

VERIF = os.path.dirname(os.path.dirname(os.path.abspath(__file__)))
REPO = "/repo"

def sh(*a, **k):
    return subprocess.run(a, capture_output=True, text=True, **k)

def main():
    only = [a for a in sys.argv[1:] if not a.startswith("--")]
    fixes = []
    for l in open(os.path.join(VERIF, "KNOWN_FINDINGS.txt")):
        m = re.match(r"fixed: property=(\S+) ([0-9a-f]{7,40}) (.*)", l)
        if m and (not only or m.group(2) in only):
            fixes.append(m.groups())
    if sh("git", "-C", REPO, "status", "--porcelain").stdout.strip():
        print("refusing: /repo working tree is not clean"); return 2
    rows = []
    for prop, commit, what in fixes:
        diff = sh("git", "-C", REPO, "show", "--format=", commit).stdout
        pf = tempfile.NamedTemporaryFile("w", suffix=".diff", delete=False); pf.write(diff); pf.close()
        r = sh("git", "-C", REPO, "apply", "-R", "--3way", pf.name)
        if r.returncode != 0 or "with conflicts" in r.stderr:
            sh("git", "-C", REPO, "checkout", "--", "."); sh("git", "-C", REPO, "reset", "-q")
            print("%s %s: repair cannot be taken out mechanically (later commits touch the same lines) - skipped" % (prop, commit))
            rows.append((prop, commit, "skipped", "")); os.unlink(pf.name); continue
        sh("git", "-C", REPO, "reset", "-q")  # --3way stages; keep it a pure working-tree change
        b = sh("bash", "-c", "cd /repo && GOFLAGS=-mod=mod GOPROXY=off GOTOOLCHAIN=auto go build ./... 2>&1 | tail -3")
        scratch = tempfile.mkdtemp(prefix="fixmatrix-")
        env = dict(os.environ, VERIF_EVIDENCE_OUT=os.path.join(scratch, "evidence"), VERIF_REPLAYS_OUT=os.path.join(scratch, "replays"))
        try:
            pr = subprocess.run([os.path.join(VERIF, "check"), prop, "quick"], cwd=VERIF, env=env, capture_output=True, text=True)
            out = pr.stdout + pr.stderr
            sigs = re.findall(r"FAILURE in (\S+) sig=(\S+?):", out)
            kept = []
            rdir = os.path.join(scratch, "replays")
            if pr.returncode == 1 and os.path.isdir(rdir):
                dst = os.path.join(VERIF, "regress", prop)
                os.makedirs(dst, exist_ok=True)
                for f in sorted(os.listdir(rdir)):
                    if f.endswith(".json"):
                        d = json.load(open(os.path.join(rdir, f)))
                        if "test" in d and "case" in d:
                            d["regression_for"] = "fix %s: %s" % (commit, what[:200])
                            name = "%s-%s" % (commit[:7], f)
                            json.dump(d, open(os.path.join(dst, name), "w"), indent=1)
                            kept.append(name)
            # a saved case is only worth keeping if replaying it (repair still taken out) fails again
            for name in list(kept):
                rr = subprocess.run([os.path.join(VERIF, "check"), prop, "quick", "--replay", os.path.join(VERIF, "regress", prop, name)], cwd=VERIF, env=env, capture_output=True, text=True)
                if rr.returncode != 1:
                    os.unlink(os.path.join(VERIF, "regress", prop, name))
                    kept.remove(name)
                    print("   dropped %s: replaying it gives exit %d (%s)" % (name, rr.returncode, "no JSON replay for this test" if rr.returncode == 2 else "does not reproduce"))
            print("%s %s: exit %d %s kept=%s%s" % (prop, commit, pr.returncode, sigs[:3], kept, "" if b.stdout.strip() == "" else " BUILD: " + b.stdout.strip()[:200]))
            if pr.returncode not in (0, 1):
                print(out[-1200:])
            rows.append((prop, commit, "exit %d" % pr.returncode, ",".join(s for _, s in sigs[:3])))
        finally:
            sh("git", "-C", REPO, "checkout", "--", ".")
            left = sh("git", "-C", REPO, "status", "--porcelain").stdout.strip()
            if left:
                print("WARNING: /repo not clean after restore:\n" + left)
            shutil.rmtree(scratch, ignore_errors=True); os.unlink(pf.name)
    print("\n| property | fix | check with the repair taken out | signatures |\n|---|---|---|---|")
    for r in rows:
        print("| %s | %s | %s | %s |" % r)
    return 0

if __name__ == "__main__":
    sys.exit(main())
