"""Table of checks: property id -> jobs run by /verif/check.

job keys: pkg (harness package), test (Go test function), kind (rapid|plain|fuzz),
checks {quick,thorough} (rapid case counts per process), shards (thorough processes),
race (True: thorough tier under -race; "always": both tiers), timeout_s, tier (only in that tier).
"""

def rapid(pkg, test, q, th, shards=14, **kw):
    d = {"pkg": pkg, "test": test, "kind": "rapid", "checks": {"quick": q, "thorough": th}, "shards": shards}
    d.update(kw)
    return d

def plain(pkg, test, **kw):
    d = {"pkg": pkg, "test": test, "kind": "plain"}
    d.update(kw)
    return d

CHECKS = {
    "C03": {
        "level": "exploration",
        "technique": "property-based testing (rapid): differential against an independent TTLV codec, both directions",
        "level_text": "Generated-input exploration: random generic TTLV trees are encoded by the library and parsed by an independent strict KMIP 9.1 parser (and the reverse: independent writer -> library decoder -> re-encode); any deviation in header, width, padding, length or value is a shrunk counterexample. Right level because the statement quantifies over all trees and the oracle is an independent implementation.",
        "level_note": "Trusts harness/ttlvref as a correct reading of KMIP 1.4 section 9.1; bounded depth 5, fan-out 6, strings <= 70 bytes, big integers <= 560 bits.",
        "jobs": [rapid("codec", "TestC03Trees", 10000, 50000)],
        "assumptions": [
            "the independent codec harness/ttlvref (written from KMIP 1.4 section 9.1, imports nothing from the library) is the reference",
            "tag 0 is outside the input domain (the library documents 0 as its end-of-data marker)",
        ],
    },
}

HOOK_COMMITS = []

_PENDING = "check not built yet in this session (planned in DESIGN.md); not claimed until its machinery exists"
NOT_APPLICABLE = {("C%02d" % i): _PENDING for i in range(1, 21)}
