"""Table of checks: property id -> jobs run by /verif/check.

job keys: pkg (harness package), test (Go test function), kind (rapid|plain|fuzz),
checks {quick,thorough} (rapid case counts per process), shards (thorough processes),
race (True: thorough tier under -race; "always": both tiers), timeout_s, tier (only in that tier).
"""

def rapid(pkg, test, q, th, shards=14, **kw):
    d = {"pkg": pkg, "test": test, "kind": "rapid", "checks": {"quick": q, "thorough": th}, "shards": shards}
    d.update(kw)
    return d

def fuzz(pkg, test, seconds=120, workers=5):
    return {"pkg": pkg, "test": test, "kind": "fuzz", "tier": "thorough", "fuzztime": {"thorough": "%ds" % seconds}, "fuzzworkers": workers,
            "timeout_s": {"thorough": seconds + 600}}

def plain(pkg, test, **kw):
    d = {"pkg": pkg, "test": test, "kind": "plain"}
    d.update(kw)
    return d

CHECKS = {
    "C01": {
        "level": "exploration",
        "technique": "property-based testing (rapid): reflective message generator, reference-encoder differential + round trip + re-encode identity",
        "level_text": "Generated-input exploration over the message space the public types can express: each generated request/response is (1) encoded and parsed by the independent TTLV parser and compared node for node with the tree a reference encoder (refwalk: pinned tags, pinned version table, hand rules for custom-encoded types) says must be emitted, (2) decoded and compared by content with the original, (3) re-encoded and compared byte for byte. Shrunk counterexamples. Right level: the statement quantifies over all messages x versions, far beyond enumerable.",
        "level_note": "Trusts harness/ttlvref, the pinned tag/version tables and the struct definitions' field order (witnessed by the OASIS vectors in C04); batches <= 3 items, strings <= 40 runes, byte strings <= 70 bytes, big integers <= 560 bits.",
        "jobs": [rapid("codec", "TestC01Messages", 4000, 15000)],
        "assumptions": [
            "well-formed = consistent choice types (one key material variant matching the key format, one credential variant matching the credential type, object type field equal to the object, Import carries an Object Type attribute), non-zero tags, payload only together with an operation, elements later than the header version cleared",
            "Result Reason is expected iff it is non-zero or the status is Operation Failed (KMIP 1.4 section 6.10)",
        ],
    },
    "C04": {
        "level": "exploration",
        "technique": "property-based testing (rapid) with round-trip + differential oracles: documents read by independent XML/JSON parsers and compared with the reference tree, binary identity after the text round trip; the OASIS vectors and rapid variations of them compared as trees before/after re-encoding",
        "level_text": "Generated-input exploration (part A): messages and single items over the alphabets each format can carry are encoded to XML/JSON; the document must be well-formed for the Go standard library parsers, an independent KMIP-XML/JSON reader (pinned names) must read exactly the tree the reference encoder expects, and decoding must give a message with the byte-identical binary encoding. Part B: all 5310 request/response messages of the 410 OASIS vector files (exhaustive) and rapid value/optional-element variations of them are decoded, re-encoded and compared as trees (order, names, types, normalised values).",
        "level_note": "Independent readers are built on encoding/xml and encoding/json plus the pinned registry; normalisation: hex case, instants, numeric enumerations/masks/big integers, boolean case. Vectors of unimplemented operations are skipped and counted.",
        "jobs": [rapid("codec", "TestC04Generated", 3000, 10000), rapid("codec", "TestC04Scalars", 6000, 40000, shards=6), rapid("codec", "TestC04SubSecond", 20000, 200000, shards=4),
                 plain("codec", "TestC04Vectors"), rapid("codec", "TestC04Variations", 3000, 20000)],
        "assumptions": ["variations keep discriminating elements (Operation, ObjectType, KeyFormatType, CredentialType, AttributeName, protocol version) unchanged, since changing them does not yield a conformant variation",
                        "a variation the library rejects with an error is only counted"],
    },
    "C05": {
        "level": "exploration",
        "technique": "property-based testing (rapid): directed generation per (gated field, version), reference encoder with a pinned version table as oracle, both directions",
        "level_text": "Generated-input exploration, exhaustive over rows x versions by coverage accounting (305 of 305 combinations are required to occur populated): each message is forced to contain the structure owning a version-dependent field, with random surroundings; the library's encoding at version V must equal the tree the reference encoder derives from the pinned (specification-transcribed) version table - field absent iff later than V, everything else present - and bytes carrying all later elements under a header of version V must decode to the full message.",
        "level_note": "Trusts the pinned version table (61 rows reviewed against KMIP 1.1-1.4), harness/ttlvref and refwalk; surroundings bounded as in C01.",
        "jobs": [rapid("codec", "TestC05Gating", 6000, 30000)],
        "assumptions": ["versions 1.0..1.4 only", "first-version table pins/data/versions.json is a correct transcription of the specifications"],
    },
    "C06": {
        "level": "exploration",
        "technique": "property-based testing (rapid): generated batch items rendered by independent binary/XML/JSON writers, dispatch compared with pinned operation/object/attribute tables, byte-identity of re-encoding",
        "level_text": "Generated-input exploration over operation codes (27 implemented, 16 named-only, arbitrary 32-bit) x direction x three encodings: the decoded payload's Go type must be the pinned one and report the same operation, objects and standard attributes must have their pinned types, unknown operations/attributes must survive as opaque TTLV whose re-encoding equals the reference bytes, unknown object types must be rejected.",
        "level_note": "Trusts pins/data/{ops,objects,attributes}.json and the independent writers in harness/ttlvref; inputs bounded as in C01.",
        "jobs": [rapid("codec", "TestC06Dispatch", 6000, 40000), rapid("codec", "TestC06UnknownObjectType", 2000, 20000, shards=4),
                 rapid("codec", "TestC06RuntimeRegistration", 1500, 10000, shards=4)],
        "assumptions": ["a response item with operation 0 has no payload (outside the domain)", "tag 0 excluded from opaque payloads"],
    },
    "C08": {
        "level": "exploration",
        "technique": "stateful property-based testing (rapid) of client/handler fault scripts against a real server inside testing/synctest bubbles (fake clock, quiescence), generator-owned schedule through a yield-point hook, goroutine census invariant, crash isolation by journalled cases; plus HTTP transport cases and a real-time stress run",
        "level_text": "Generated-history exploration: scripts over several client connections (whole/partial/garbage/undecodable messages, pipelines, half close, close during a handler or a blocked response write, stalled readers, and a close placed exactly between loading the outgoing channel and handing over the response) run against kmipserver.Server on an in-memory listener inside a synctest bubble, so that 'nothing is in progress' is a detectable state and time is free. After every step the responses must match the model one-to-one and in order, the census of accept/handleConn/readloop/writeloop goroutines must equal 1 + 3 per live connection, and a probe connection must be served; at the end nothing may remain (a blocked goroutine makes the bubble fail). A panic in a library goroutine kills the worker: the journalled case is confirmed in fresh processes and reported. HTTP bodies and a real-time multi-connection stress (-race in thorough) complete it.",
        "level_note": "Interleavings are explored at the granularity of quiescence points plus the hooked window, not all schedules; after garbage only crash-freedom, census and cleanup are checked; a half-closed connection is not required to receive outstanding responses.",
        "jobs": [rapid("server", "TestC08Availability", 1500, 8000, timeout_s={"quick": 600, "thorough": 1700}),
                 rapid("server", "TestC08HTTP", 2000, 20000, shards=4),
                 rapid("server", "TestC08TLS", 300, 3000, shards=4),
                 dict(rapid("server", "TestC08Stress", 60, 300, shards=4), race=True)],
        "assumptions": ["handlers that ignore their context keep their connection's goroutine until they return (fake time is advanced past them before the census)"],
    },
    "C09": {
        "level": "exploration",
        "technique": "exhaustive enumeration of batches up to length 3 by the same generator + property-based testing (rapid) for longer batches, against an executable reference model of KMIP batch semantics",
        "level_text": "All batches of length 0..3 over six item outcomes x four continuation options x four version modes x three batch-count offsets x three id modes are executed against a fresh BatchExecutor (exhaustive: true for that space) and longer random batches by rapid; a model written from the statement predicts item count, order, echoed operation and id, header count and version, status class per item, and the exact ordered set of handler invocations (each at most once, none after a stop, none for a rejected request).",
        "level_note": "HandleRequest is called directly (no transport); result messages and reasons are not compared.",
        "jobs": [plain("server", "TestC09Exhaustive"), rapid("server", "TestC09Random", 5000, 50000)],
        "assumptions": ["a rejected request must yield exactly one failed item and run no handler; which reason it carries is not constrained"],
    },
    "C10": {
        "level": "exploration",
        "technique": "property-based testing (rapid) over caller histories with generator-owned cancellation instants (yield-point hook between send and recv) against a scripted in-memory server; oracle: own identifier or error",
        "level_text": "Generated-schedule exploration in real time, event driven: up to four goroutines share one client and issue calls with unique identifiers; each call has a cancellation plan (none, before the call, between send and receive once the server has read the request or has written the reply, short deadline) and a server plan (reply, reply late after the call was abandoned, never reply, close). The window between send and recv is opened by the yield-point hook, which runs on the caller's goroutine and knows which request was sent. Every call must return within 30 s with an error or the response echoing its own identifier; undisturbed calls on a healthy server must succeed. One case in three, and a job of its own built with the race detector in both tiers, hands the callers a Clone() nobody has used yet and releases them together.",
        "level_note": "Interleavings of lock acquisition are left to the scheduler; the 30 s watchdog is a hang verdict only (the driver maps budget time-outs to inconclusive).",
        "jobs": [dict(rapid("client", "TestC10OwnResponse", 1200, 6000, timeout_s={"quick": 900, "thorough": 1700}), race=True),
                 dict(rapid("client", "TestC10FreshClone", 150, 3000), race="always")],
        "assumptions": [],
    },
    "C11": {
        "level": "fault_enumeration",
        "technique": "exhaustive fault-point enumeration (every Read/Write index of the exchange x fault kind x follow-up x reachability) inside testing/synctest bubbles, plus rapid-drawn faults on later connections; hang verdict from quiescence, goroutine census",
        "level_text": "Fault enumeration: for every I/O operation index of connect-time negotiation and two exchanges (7 reads, 3 writes), every failure kind (EOF, closed, reset, short write), the server closing right after each reply and the server vanishing exactly when a request is handed to the write loop (hook), crossed with negotiation on/off, reachability afterwards and five follow-ups, one deterministic execution runs in a synctest bubble: 'the call does not return and nothing can make progress' is a detectable state, so hangs are decided without wall-clock. Oracle: complete own response or error, never two consecutive failed calls on a reachable server, at most 4 transmissions per request, closed means closed, census 0. A rapid job moves the fault to later connections and larger indices.",
        "level_note": "One caller inside the bubbles (a goroutine waiting for the client's sync.Mutex is not durably blocked, so a second caller gets real scheduling there - fault 'second caller during a re-dial' - and Close with callers queued behind a call in flight is a real-time job of its own, TestC11CloseQueued); concurrent callers are otherwise covered by C10's real-time harness; I/O indices are those of the client end of the in-memory connection.",
        "jobs": [plain("client", "TestC11Faults", timeout_s={"quick": 600, "thorough": 900}), rapid("client", "TestC11Random", 1500, 10000), rapid("client", "TestC11DefaultDialer", 150, 1500, shards=4), rapid("client", "TestC11CloseQueued", 40, 400)],
        "assumptions": ["an io.Reader/io.Writer fault is sticky: once a connection has failed every later call on it fails too"],
    },
    "C12": {
        "level": "exploration",
        "technique": "property-based testing (rapid): generated well-formed response messages served by a scripted in-memory server to every fluent call; oracle on the call's result type and on the error text",
        "level_text": "Generated-input exploration over the response space for each of the 26 fluent builders, Request, Batch/Unwrap, the discovery exchange inside Dial and the crypto.Signer construction: header and item counts, per-item operation, status, reason, message and payload (absent / requested / foreign / generic) are drawn independently; the call must return (panics on the caller's goroutine are captured) with an error or with the payload type of the requested operation, and a decodable failed item must surface as an error whose text carries the status, the reason (name or hex) and the message.",
        "level_note": "Responses are rendered by the reference writer (raw bytes), so operation code and payload shape can disagree; the status/reason/message obligation is checked only for responses the codec can decode.",
        "jobs": [rapid("client", "TestC12Responses", 5000, 30000), rapid("client", "TestC12Signer", 3000, 30000, shards=4)],
        "assumptions": ["the library has no typed error: the error text is the only carrier of status, reason and message"],
    },
    "C13": {
        "level": "exploration",
        "technique": "exhaustive enumeration of configurations (client sets x server sets x server behaviours x enforcement) over an in-memory transport with a scripted server; oracle = pure function of the configuration",
        "level_text": "The configuration space is finite and enumerated completely (exhaustive: true): for each of 31 x 32 x 6 unenforced and 31 x 32 x 5 enforced configurations the client dials a scripted in-memory server, the adopted version is compared with the highest common version (or the 1.0 fallback, or the required failure), and the header version of two follow-up requests and of a clone is read at the server.",
        "level_note": "For the library's own executor as server, a failure to connect is tolerated when the executor rejects the discovery message itself (1.1 not in its set); a wrong adoption never is.",
        "jobs": [plain("client", "TestC13Negotiation", timeout_s={"quick": 600, "thorough": 900})],
        "assumptions": ["an executor cannot be restricted to the empty set (it falls back to its default): that sub-case is skipped for the library-executor behaviour"],
    },
    "C19": {
        "level": "exploration",
        "technique": "property-based testing (rapid) over generated stage programs, trace equality against a recursive reference interpreter, concurrent requests sharing the chain",
        "level_text": "Generated-program exploration: every stage of a chain is a small program over its continuation (0..3 calls, substituted message, derived context, last/first/substituted/error result); the same programs are run through the real client chain (scripted in-memory server as transport), the server message chain and the server batch-item chain, and through a 30-line recursive interpreter of the compositional semantics; event traces and the caller's result must be equal for every concurrent request. TestC19Hedged adds invocations of a continuation that OVERLAP in time (the next attempt starts while the one before it is still inside the chain, sequenced by channels) on all three chains: every invocation enters exactly the remaining stages, once, and executes the core once.",
        "level_note": "For the client chain the context reaching the transport is not observable; core executions are counted at the scripted server. Batch-item stages return their error with an item of their own or with a nil item (the usual Go form).",
        "jobs": [dict(rapid("server", "TestC19Chains", 4000, 30000), race=True), dict(rapid("server", "TestC19Hedged", 2000, 20000), race=True)],
        "assumptions": [],
    },
    "C14": {
        "level": "exploration",
        "technique": "property-based testing (rapid): keys constructed from generated primes/scalars, round trip through the client's register builders, message transport in three encodings and the extraction accessors, oracle key.Equal; accessor totality on generated and degraded decodable objects",
        "level_text": "Generated-input exploration: RSA keys from two generated primes and ECDSA scalars on the four curves (boundary scalars included) are registered in every format the builders accept, carried through a request and a Get response at every version in binary, XML and JSON, and extracted with each accessor; the extracted key must be mathematically equal to the original (Equal), PEM accessors must re-parse to an equal key. Second half: every accessor on every decodable Get response payload (generated objects with 0..3 sub-elements removed or re-typed) must return a value or an error, never panic.",
        "level_note": "RSA moduli 1024..2064 bits (Go's crypto/rsa refuses smaller keys), public exponents {3,17,257,65537}; prime search is deterministic from the drawn bytes; trusts crypto/* for Equal and parsing.",
        "jobs": [rapid("codec", "TestC14Keys", 250, 2000), rapid("codec", "TestC14Symmetric", 2000, 20000, shards=4), rapid("codec", "TestC14Accessors", 8000, 50000), rapid("codec", "TestC14AccessorPairs", 300, 3000, shards=4), rapid("codec", "TestC14ReusedVariable", 120, 1200, shards=4)],
        "assumptions": ["the private-key pipeline is observed at the library's accessors, as the property states"],
    },
    "C15": {
        "level": "exploration",
        "technique": "property-based testing (rapid) over placeholder action scripts with generator-forced overlap (rendezvous inside handlers), real server in a synctest bubble and direct concurrent HandleRequest calls; oracle = per-request placeholder model with request-unique values",
        "level_text": "Generated-history exploration: batches of set/read/read-or-id/clear/fail/set-then-fail actions on several connections (real Server over an in-memory listener inside a synctest bubble) or from several goroutines calling HandleRequest directly; rendezvous items make requests overlap at chosen items, sequences of requests on one connection test carry-over; every handler echoes what it observed and the value must be one the per-request model allows - any foreign value (values are unique per request) is a cross-request leak.",
        "level_note": "After an intervening failed item the model accepts both the empty placeholder (library behaviour) and the previous value, since the statement does not say; overlap is forced at rendezvous points, not at every instruction.",
        "jobs": [dict(rapid("server", "TestC15Placeholder", 3000, 20000), race=True)],
        "assumptions": [],
    },
    "C16": {
        "level": "exploration",
        "technique": "property-based testing (rapid) over connection phases and client actions around Shutdown, executed in testing/synctest bubbles (exact 3 s grace period, quiescence detection); invariants on handler log, cancellation times, hook log and goroutine census",
        "level_text": "Generated-history exploration: up to 6 connections are driven into drawn phases (idle, partial message, handler of 0..10 s honouring or ignoring its context, response blocked on a non-reading client, connecting during shutdown, closed, failing connect hook), Shutdown is called and clients may act during it. When Shutdown returns (after letting already-released goroutines finish, no time passing) the listener must be closed, Serve must have returned ErrShutdown, no handler may run or start later, the census must be 0, every in-flight request must have been answered or cancelled no earlier than 3 s of fake time, and the connect/terminate hook log must be paired.",
        "level_note": "Shutdown and Serve are not synchronised with each other, so the accept loop's return is observed after quiescence rather than at the very instruction Shutdown returns.",
        "jobs": [rapid("server", "TestC16Shutdown", 1500, 15000, timeout_s={"quick": 600, "thorough": 1700})],
        "assumptions": ["a single Shutdown call, as documented"],
    },
    "C17": {
        "level": "exploration",
        "technique": "exhaustive enumeration by the same generator (all 2^24 tags, all registered enumeration values and mask flags) plus rapid-drawn unregistered probes, against pinned tables and inverse-map/round-trip oracles",
        "level_text": "The registry is finite, so it is enumerated completely (exhaustive: true): live tables == pinned tables in both directions, name->number and number->name mutually inverse within each scope, every entry written by name in XML/JSON/text and read back as the same number, typed MarshalText/UnmarshalText for every enumeration Go type reachable from the message types; unregistered numbers are written in hex and read back (rapid).",
        "level_note": "Trusts the pinned snapshot pins/data/{tags,enums,masks}.json (292 tags 0x420001..0x420124 dense, 47 named enumerations with 601 values, 2 masks with 22 flags; cross-checked against the OASIS vector corpus in C04).",
        "jobs": [plain("codec", "TestC17Registry"), rapid("codec", "TestC17Unregistered", 5000, 200000, shards=4), rapid("codec", "TestC17RuntimeRegistration", 3000, 30000, shards=4), rapid("codec", "TestC17HeldTexts", 3000, 60000, shards=4)],
        "assumptions": ["pinned tables were reviewed against the KMIP 1.4 specification tables at pin time"],
    },
    "C02": {
        "level": "exploration",
        "technique": "property-based testing (rapid) with structure-aware mutation + native coverage-guided fuzzing (thorough); oracles inside the target: no panic/hang, input unmodified, determinism, extent by construction / differential with an independent parser / canary backing array",
        "level_text": "Generated-input exploration of malformed input: valid encodings of generic trees, requests, responses and all 54 payload types are mutated so that exactly the fields the statement names (length, type, nesting) disagree with what follows; XML/JSON documents are mutated at document level (wrong kinds at every position, unknown types, hostile scalars). Every decode runs under panic capture and a watchdog; the input is compared with a pristine copy; a second decode must agree; for binary, over-reads are detected three ways (mutants built to overrun their parent must be rejected; acceptance implies acceptance by the independent extent-mode parser and equal trees; results must not depend on bytes beyond len(input) within cap). Thorough adds native fuzzing of the same oracle for all three decoders.",
        "level_note": "Bounded input sizes (<= ~320 KiB, mostly < 2 KiB); hang verdict = no return within 60 s; trusts harness/ttlvref in extent mode (deliberately lenient about everything C02 does not state).",
        "jobs": [rapid("codec", "TestC02Binary", 20000, 50000), rapid("codec", "TestC02Text", 20000, 60000), rapid("codec", "TestC02Nesting", 4000, 30000, shards=4), rapid("codec", "TestC02Stream", 6000, 30000, shards=6),
                 fuzz("codec", "FuzzC02Binary"), fuzz("codec", "FuzzC02XML"), fuzz("codec", "FuzzC02JSON")],
        "assumptions": ["tag 000000 is the library's documented end-of-data marker: a generic structure stops there, which is not an over-read",
                        "UnmarshalTTLV decodes the first item and ignores trailing bytes (documented behaviour of the item reader)"],
    },
    "C07": {
        "level": "exploration",
        "technique": "property-based testing (rapid): generated message sequences x read-chunk plans x truncation x announced lengths through an instrumented reader; oracle = exact messages, exact bytes consumed, bounded read requests",
        "level_text": "Generated-input exploration of the stream receiver over an instrumented io.Reader that owns the segmentation (1-byte reads, chunks spanning message boundaries, full coalescing, final bytes returned together with io.EOF) and records what was requested and consumed: Recv must return exactly the sent trees in order, consume exactly each message's bytes, turn truncation into an error, and reject announced sizes above the limit without requesting more than the limit.",
        "level_note": "Deterministic (no memory measurement: read requests are observed); messages <= 320 KiB, limits 64/4096/1 MiB.",
        "jobs": [rapid("codec", "TestC07Framing", 4000, 20000), rapid("codec", "TestC07KmipTarget", 1500, 8000, shards=4), rapid("codec", "TestC07Streams", 3000, 30000, shards=4)],
        "assumptions": ["an io.Reader may return n>0 together with io.EOF (io.Reader contract)"],
    },
    "C18": {
        "level": "exploration",
        "technique": "property-based testing (rapid): non-canonical-but-accepted inputs from independent writers and from the C02 mutators, fixed-point oracle in the same and through the other encodings; native fuzzing with the same oracle (thorough)",
        "level_text": "Generated-input exploration over accepted inputs no encoder of the library emits (non-zero padding, over-long big integers, odd booleans, unknown/reordered/dropped/duplicated fields, alternative XML/JSON lexical forms, accepted mutants): Dec_A(x) ok implies Enc_A does not panic, Dec_A(Enc_A(v)) ok and a second re-encoding is byte-identical; the same through each other encoding whenever the decoded strings are representable there and dates are in years 1..9999 (predicate evaluated on the decoded value; unrepresentable cases counted as skipped).",
        "level_note": "Targets ttlv.Value, RequestMessage, ResponseMessage; sizes as C01.",
        "jobs": [rapid("codec", "TestC18FixedPoint", 6000, 40000), rapid("codec", "TestC18Mutants", 6000, 40000),
                 fuzz("codec", "FuzzC18Binary"), fuzz("codec", "FuzzC18XML"), fuzz("codec", "FuzzC18JSON")],
        "assumptions": ["rejected inputs create no obligation"],
    },
    "C20": {
        "level": "exploration",
        "technique": "property-based testing (rapid) over work lists and schedules, differential between fresh child processes (sequential reference vs concurrent cold start vs reused encoders), race detector on the concurrent child",
        "level_text": "Generated-history exploration: each case is a work list of encode/decode jobs of mixed versions, types and encodings plus a schedule (goroutine count, start permutation, history prefix); three fresh processes execute it - sequentially, concurrently from a cold start (so the lazily built per-type plans are constructed under contention), and on reused cleared encoders in another order - and every job's digest over all four encodings and the text round trips must be identical. A race-built variant of the same test fails on any data race report. Two jobs with direct oracles complete it: TestC20Appended (two messages written on one encoder without Clear, or after a Clear made through a copy of the handle: the second one's bytes equal its encoding on a fresh encoder) and TestC20Versions (two messages of different versions encoded by 8 goroutines at once: every result equals the sequential reference).",
        "level_note": "Interleavings are explored by real concurrent execution from cold starts (the scheduler is not controlled); the race detector only sees races that occur in the executions run.",
        "jobs": [rapid("codec", "TestC20History", 120, 600, shards=8),
                 dict(rapid("codec", "TestC20History", 4, 20, shards=4), race="always", timeout_s={"quick": 600, "thorough": 1500}),
                 rapid("codec", "TestC20Appended", 3000, 30000), dict(rapid("codec", "TestC20Versions", 60, 600), race=True)],
        "assumptions": ["children inherit the same environment (time zone), so date formatting is identical"],
    },
    "C03": {
        "level": "exploration",
        "technique": "property-based testing (rapid): differential against an independent TTLV codec, both directions",
        "level_text": "Generated-input exploration: random generic TTLV trees are encoded by the library and parsed by an independent strict KMIP 9.1 parser (and the reverse: independent writer -> library decoder -> re-encode); any deviation in header, width, padding, length or value is a shrunk counterexample. Right level because the statement quantifies over all trees and the oracle is an independent implementation.",
        "level_note": "Trusts harness/ttlvref as a correct reading of KMIP 1.4 section 9.1; bounded depth 5, fan-out 6, strings <= 70 bytes, big integers <= 560 bits.",
        "jobs": [rapid("codec", "TestC03Trees", 10000, 50000), rapid("codec", "TestC03Large", 300, 1500)],
        "assumptions": [
            "the independent codec harness/ttlvref (written from KMIP 1.4 section 9.1, imports nothing from the library) is the reference",
            "tag 0 is outside the input domain (the library documents 0 as its end-of-data marker)",
        ],
    },
}

HOOK_COMMITS = ["ae50fd9e01837cb81b3f92cee34dfd8774b5c94f", "8061e6537b601e97c0d304580983a519d8ace356"]

_PENDING = "check not built yet in this session (planned in DESIGN.md); not claimed until its machinery exists"
NOT_APPLICABLE = {("C%02d" % i): _PENDING for i in range(1, 21) if ("C%02d" % i) not in CHECKS}
