#!/usr/bin/python3
"""Confirms a seeded change produced by a sub-agent, in its scratch worktree, and stores it under /verif/seeded/<name>/.

  py/seedconfirm.py <PROP> <name> <worktree> <seed_dir> <demo_dest_relpath> <go test args...>

Steps: clean tree -> demo passes; patch applied -> builds, demo fails, full suite (without the demo) passes."""
import json, os, shutil, subprocess, sys, time

def sh(cmd, cwd, timeout=1500):
    env = dict(os.environ, GOFLAGS="-mod=mod", GOPROXY="off", GOTOOLCHAIN="auto")
    env.pop("GOSUMDB", None)
    p = subprocess.run(cmd, cwd=cwd, env=env, shell=True, capture_output=True, text=True, errors="replace", timeout=timeout)
    return p.returncode, (p.stdout + p.stderr)

def main():
    prop, name, wt, sd, dest = sys.argv[1:6]
    testargs = " ".join(sys.argv[6:])
    patch = os.path.join(sd, "patch.diff")
    demo = os.path.join(sd, "demo_test.go")
    sh("git checkout -- . && git clean -fdq", wt)
    destp = os.path.join(wt, dest)
    os.makedirs(os.path.dirname(destp), exist_ok=True)
    shutil.copyfile(demo, destp)
    rc0, out0 = sh("go test -vet=off -count=1 %s" % testargs, wt)
    print("demo on unchanged tree: exit", rc0)
    if rc0 != 0:
        print(out0[-2000:]); print("NOT CONFIRMED: demo fails without the change"); return 1
    rc, out = sh("git apply %s && go build ./..." % patch, wt)
    if rc != 0:
        print(out[-2000:]); print("NOT CONFIRMED: patch does not apply/build"); return 1
    rc1, out1 = sh("go test -vet=off -count=1 %s" % testargs, wt)
    print("demo with the change: exit", rc1)
    if rc1 == 0:
        print("NOT CONFIRMED: demo passes with the change"); return 1
    os.remove(destp)
    rc2, out2 = sh("go test -vet=off -count=1 ./...", wt)
    print("existing suite with the change: exit", rc2)
    if rc2 != 0:
        print(out2[-3000:]); print("NOT CONFIRMED: existing suite fails with the change"); return 1
    out_dir = os.path.join("/verif/seeded", name)
    os.makedirs(out_dir, exist_ok=True)
    shutil.copyfile(patch, os.path.join(out_dir, "patch.diff"))
    shutil.copyfile(demo, os.path.join(out_dir, "demo_test.go"))
    notes = ""
    if os.path.exists(os.path.join(sd, "NOTES.md")):
        shutil.copyfile(os.path.join(sd, "NOTES.md"), os.path.join(out_dir, "NOTES.md"))
        notes = open(os.path.join(sd, "NOTES.md")).read()
    fail_line = [l for l in out1.splitlines() if "FAIL" in l or "Error" in l or "panic" in l][:6]
    meta = {"property": prop, "name": name, "demo_path_in_repo": dest, "demo_cmd": "go test -vet=off -count=1 " + testargs,
            "confirmed": {"demo_passes_without_change": True, "demo_fails_with_change": True, "existing_suite_passes_with_change": True,
                          "when": time.strftime("%Y-%m-%d %H:%M:%S"), "demo_failure_excerpt": fail_line},
            "needs_to_manifest": "", "caught_by": []}
    mp = os.path.join(out_dir, "meta.json")
    if os.path.exists(mp):
        old = json.load(open(mp)); meta["needs_to_manifest"] = old.get("needs_to_manifest", ""); meta["caught_by"] = old.get("caught_by", [])
    json.dump(meta, open(mp, "w"), indent=1)
    print("CONFIRMED ->", out_dir)
    sh("git checkout -- . && git clean -fdq", wt)
    return 0

if __name__ == "__main__":
    sys.exit(main())
