// Package census counts goroutines by the library frames on their stacks.
package census

import (
	"runtime"
	"strings"
)

// Count returns, for each needle, the number of goroutines whose stack contains it.
func Count(needles ...string) map[string]int {
	buf := make([]byte, 1<<20)
	for {
		n := runtime.Stack(buf, true)
		if n < len(buf) {
			buf = buf[:n]
			break
		}
		buf = make([]byte, 2*len(buf))
	}
	out := map[string]int{}
	bubble := currentBubble()
	for _, g := range strings.Split(string(buf), "\n\n") {
		if bubble != "" && !strings.Contains(firstLine(g), bubble) {
			// goroutines left behind by an earlier (failed) case live in another bubble
			continue
		}
		for _, nd := range needles {
			// a frame is "<func>(args)"; "created by <func> in goroutine N" lines must not count
			if strings.Contains(g, nd+"(") {
				out[nd]++
			}
		}
	}
	return out
}

// Dump returns the stacks of all goroutines containing the needle.
func Dump(needle string) string {
	buf := make([]byte, 1<<22)
	n := runtime.Stack(buf, true)
	var sb strings.Builder
	bubble := currentBubble()
	for _, g := range strings.Split(string(buf[:n]), "\n\n") {
		if bubble != "" && !strings.Contains(firstLine(g), bubble) {
			continue
		}
		if strings.Contains(g, needle) {
			sb.WriteString(g)
			sb.WriteString("\n\n")
		}
	}
	return sb.String()
}

func firstLine(g string) string {
	if i := strings.IndexByte(g, '\n'); i >= 0 {
		return g[:i]
	}
	return g
}

// currentBubble returns "synctest bubble N" if the calling goroutine runs inside a synctest bubble, else "".
func currentBubble() string {
	buf := make([]byte, 256)
	n := runtime.Stack(buf, false)
	l := firstLine(string(buf[:n]))
	i := strings.Index(l, "synctest bubble ")
	if i < 0 {
		return ""
	}
	j := i + len("synctest bubble ")
	for j < len(l) && l[j] >= '0' && l[j] <= '9' {
		j++
	}
	return l[i:j] + "]"
}
