// Package pins holds the pinned reference tables (snapshot of the KMIP 1.0-1.4
// registry as implemented at the pinned commit, reviewed against the
// specification tables). Checks compare the live library against these; the
// pins never read the live registry.
package pins

import (
	"embed"
	"encoding/json"
	"fmt"
	"strconv"
	"strings"
)

//go:embed data/*.json
var data embed.FS

type OpTypes struct {
	Request  string `json:"request"`
	Response string `json:"response"`
}

var (
	Tags       = map[string]int{}
	TagNames   = map[int]string{}
	Enums      = map[int]map[uint32]string{} // enum tag -> value -> name
	EnumByName = map[int]map[string]uint32{}
	Masks      = map[int][]string{} // mask tag -> flag names by bit
	Ops        = map[uint32]OpTypes{}
	Objects    = map[uint32]string{}
	Attributes = map[string]string{}
	Versions   = map[string][2]int{} // "Struct.Field" -> first version
	// EnumScope: tags whose values are taken from another tag's enumeration (KMIP: "Mask Generator
	// Hashing Algorithm" is an enumeration of type Hashing Algorithm).
	EnumScope = map[int]int{}
)

func load(name string, v any) {
	b, err := data.ReadFile("data/" + name)
	if err != nil {
		panic(err)
	}
	if err := json.Unmarshal(b, v); err != nil {
		panic(fmt.Sprintf("%s: %v", name, err))
	}
}

func hex32(s string) uint32 {
	n, err := strconv.ParseUint(strings.TrimPrefix(s, "0x"), 16, 32)
	if err != nil {
		panic(err)
	}
	return uint32(n)
}

func init() {
	load("tags.json", &Tags)
	for n, t := range Tags {
		if _, dup := TagNames[t]; dup {
			panic("pins: duplicate tag number")
		}
		TagNames[t] = n
	}
	var enums map[string]map[string]string
	load("enums.json", &enums)
	for tn, vals := range enums {
		tag, ok := Tags[tn]
		if !ok {
			panic("pins: enum for unknown tag " + tn)
		}
		Enums[tag] = map[uint32]string{}
		EnumByName[tag] = map[string]uint32{}
		for hv, name := range vals {
			v := hex32(hv)
			Enums[tag][v] = name
			if _, dup := EnumByName[tag][name]; dup {
				panic("pins: duplicate enum name " + name)
			}
			EnumByName[tag][name] = v
		}
	}
	var masks map[string][]string
	load("masks.json", &masks)
	for tn, flags := range masks {
		Masks[Tags[tn]] = flags
	}
	var ops map[string]OpTypes
	load("ops.json", &ops)
	for k, v := range ops {
		Ops[hex32(k)] = v
	}
	var objs map[string]string
	load("objects.json", &objs)
	for k, v := range objs {
		Objects[hex32(k)] = v
	}
	var scopes map[string]string
	load("enum_scopes.json", &scopes)
	for a, b := range scopes {
		EnumScope[Tags[a]] = Tags[b]
	}
	load("attributes.json", &Attributes)
	var vers map[string]string
	load("versions.json", &vers)
	for k, v := range vers {
		var maj, min int
		if _, err := fmt.Sscanf(v, "%d.%d", &maj, &min); err != nil {
			panic(err)
		}
		Versions[k] = [2]int{maj, min}
	}
}

// FirstVersion returns the first protocol version of struct.field, or (0,0) when not gated.
func FirstVersion(structName, field string) (int, int) {
	v := Versions[structName+"."+field]
	return v[0], v[1]
}

// VersionAtLeast reports maj.min >= a.b
func VersionAtLeast(maj, min, a, b int) bool {
	return maj > a || maj == a && min >= b
}

// MaskFlag resolves a flag name of the mask registered under tag.
func MaskFlag(tag int, name string) (int32, bool) {
	for i, f := range Masks[tag] {
		if f == name && f != "" {
			return int32(1) << uint(i), true
		}
	}
	return 0, false
}

// EnumValue resolves an enumeration name in the scope of the element tag.
func EnumValue(tag int, name string) (uint32, bool) {
	if s, ok := EnumScope[tag]; ok {
		tag = s
	}
	v, ok := EnumByName[tag][name]
	return v, ok
}

// EnumNameOf returns the registered name of a value in the scope of the element tag.
func EnumNameOf(tag int, v uint32) (string, bool) {
	if s, ok := EnumScope[tag]; ok {
		tag = s
	}
	n, ok := Enums[tag][v]
	return n, ok
}
