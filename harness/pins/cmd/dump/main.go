// Command dump prints the live registry tables of the library as JSON files
// (for pinning and for diffing against the pins). It is NOT used by any check.
package main

import (
	"encoding/json"
	"fmt"
	"os"
	"path/filepath"
	"reflect"
	"sort"
	"strings"

	kmip "github.com/ovh/kmip-go"
	"github.com/ovh/kmip-go/payloads"
	"github.com/ovh/kmip-go/ttlv"
)

func write(dir, name string, v any) {
	b, _ := json.MarshalIndent(v, "", " ")
	if err := os.WriteFile(filepath.Join(dir, name), append(b, '\n'), 0o644); err != nil {
		panic(err)
	}
}

func main() {
	dir := os.Args[1]
	_ = payloads.ActivateRequestPayload{}
	// tags: sweep the whole 24 bit space
	tags := map[string]int{}
	for tag := 0; tag <= 0xFFFFFF; tag++ {
		s := ttlv.TagString(tag)
		if !strings.HasPrefix(s, "0x") {
			if _, dup := tags[s]; dup {
				panic("duplicate tag name " + s)
			}
			tags[s] = tag
		}
	}
	write(dir, "tags.json", tags)
	enums := map[string]map[string]string{}
	masks := map[string][]string{}
	for name, tag := range tags {
		vals := map[string]string{}
		for v, n := range ttlv.EnumValuesByTag(tag) {
			vals[fmt.Sprintf("0x%08X", v)] = n
		}
		if len(vals) > 0 {
			enums[name] = vals
		}
		var flags []string
		for i := 0; i < 32; i++ {
			s := string(ttlv.AppendBitmaskString(nil, tag, int32(uint32(1)<<i), "|"))
			if s != "" && !strings.HasPrefix(s, "0x") {
				for len(flags) < i {
					flags = append(flags, "")
				}
				flags = append(flags, s)
			}
		}
		if len(flags) > 0 {
			masks[name] = flags
		}
	}
	write(dir, "enums.json", enums)
	write(dir, "masks.json", masks)

	// operations: decode a minimal batch item per op code and look at the payload type
	ops := map[string]map[string]string{}
	for op := uint32(1); op <= 0x40; op++ {
		rq := reqType(kmip.Operation(op))
		rs := respType(kmip.Operation(op))
		if rq == "UnknownPayload" && rs == "UnknownPayload" {
			continue
		}
		ops[fmt.Sprintf("0x%08X", op)] = map[string]string{"request": rq, "response": rs}
	}
	write(dir, "ops.json", ops)

	objs := map[string]string{}
	for ot := uint32(1); ot <= 0x40; ot++ {
		o, err := kmip.NewObjectForType(kmip.ObjectType(ot))
		if err == nil {
			objs[fmt.Sprintf("0x%08X", ot)] = reflect.TypeOf(o).Elem().Name()
		}
	}
	write(dir, "objects.json", objs)

	attrs := map[string]string{}
	for _, n := range kmip.AllAttributeNames {
		// decode an attribute with a structure/any value? simpler: build bytes for each TTLV type and see which decodes
		attrs[string(n)] = attrType(n)
	}
	write(dir, "attributes.json", attrs)

	// version gated fields, discovered by walking the type graph
	vers := map[string]string{}
	seen := map[reflect.Type]bool{}
	var walk func(reflect.Type)
	walk = func(t reflect.Type) {
		for t.Kind() == reflect.Pointer || t.Kind() == reflect.Slice {
			t = t.Elem()
		}
		if t.Kind() != reflect.Struct || seen[t] {
			return
		}
		seen[t] = true
		for i := 0; i < t.NumField(); i++ {
			f := t.Field(i)
			if !f.IsExported() {
				continue
			}
			for _, part := range strings.Split(f.Tag.Get("ttlv"), ",") {
				if strings.HasPrefix(part, "version=") {
					vers[t.Name()+"."+f.Name] = strings.TrimPrefix(part, "version=")
				}
			}
			walk(f.Type)
		}
	}
	for _, t := range allRoots() {
		walk(t)
	}
	write(dir, "versions_live.json", vers)
	keys := make([]string, 0, len(vers))
	for k := range vers {
		keys = append(keys, k)
	}
	sort.Strings(keys)
	fmt.Println(len(tags), "tags", len(enums), "enums", len(masks), "masks", len(ops), "ops", len(objs), "objects", len(attrs), "attrs", len(vers), "version rows")
}

func allRoots() []reflect.Type {
	roots := []reflect.Type{reflect.TypeFor[kmip.RequestMessage](), reflect.TypeFor[kmip.ResponseMessage]()}
	for op := uint32(1); op <= 0x40; op++ {
		roots = append(roots, reqT(kmip.Operation(op)), respT(kmip.Operation(op)))
	}
	for ot := uint32(1); ot <= 0x40; ot++ {
		if o, err := kmip.NewObjectForType(kmip.ObjectType(ot)); err == nil {
			roots = append(roots, reflect.TypeOf(o))
		}
	}
	for _, n := range kmip.AllAttributeNames {
		if t := attrT(n); t != nil {
			roots = append(roots, t)
		}
	}
	roots = append(roots, reflect.TypeFor[kmip.KeyMaterial](), reflect.TypeFor[kmip.CredentialValue]())
	return roots
}

func reqT(op kmip.Operation) reflect.Type {
	item := kmip.RequestBatchItem{}
	b := ttlv.MarshalTTLV(ttlv.Value{Tag: kmip.TagBatchItem, Value: ttlv.Struct{
		{Tag: kmip.TagOperation, Value: ttlv.Enum(op)},
		{Tag: kmip.TagRequestPayload, Value: ttlv.Struct{}},
	}})
	dec, _ := ttlv.NewTTLVDecoder(b)
	_ = dec.TagAny(kmip.TagBatchItem, &item)
	return reflect.TypeOf(item.RequestPayload)
}

func respT(op kmip.Operation) reflect.Type {
	item := kmip.ResponseBatchItem{}
	b := ttlv.MarshalTTLV(ttlv.Value{Tag: kmip.TagBatchItem, Value: ttlv.Struct{
		{Tag: kmip.TagOperation, Value: ttlv.Enum(op)},
		{Tag: kmip.TagResultStatus, Value: ttlv.Enum(0)},
		{Tag: kmip.TagResponsePayload, Value: ttlv.Struct{}},
	}})
	dec, _ := ttlv.NewTTLVDecoder(b)
	_ = dec.TagAny(kmip.TagBatchItem, &item)
	return reflect.TypeOf(item.ResponsePayload)
}

func reqType(op kmip.Operation) string  { return reqT(op).Elem().Name() }
func respType(op kmip.Operation) string { return respT(op).Elem().Name() }

func attrT(n kmip.AttributeName) reflect.Type {
	// try every TTLV type as value; the one that decodes tells the Go type
	cands := []any{int32(1), int64(1), true, "x", []byte{1}, ttlv.Enum(1), ttlv.Struct{}}
	for _, c := range cands {
		b := ttlv.MarshalTTLV(ttlv.Value{Tag: kmip.TagAttribute, Value: ttlv.Struct{
			{Tag: kmip.TagAttributeName, Value: string(n)},
			{Tag: kmip.TagAttributeValue, Value: c},
		}})
		var a kmip.Attribute
		func() {
			defer func() { _ = recover() }()
			if err := ttlv.UnmarshalTTLV(b, &a); err != nil {
				a.AttributeValue = nil
			}
		}()
		if a.AttributeValue != nil {
			return reflect.TypeOf(a.AttributeValue)
		}
	}
	// date / interval
	return nil
}

func attrType(n kmip.AttributeName) string {
	if t := attrT(n); t != nil {
		return t.String()
	}
	return "?"
}
