// Package evid collects what a check actually covered (cases, distinct
// non-trivial cases, label histogram, samples) and writes it as a JSON fragment
// that the driver (/verif/check) merges into /verif/evidence/<id>.json.
// It also holds the replay-file helpers and the known-findings reader.
package evid

import (
	"bufio"
	"crypto/sha256"
	"encoding/binary"
	"encoding/json"
	"fmt"
	"os"
	"path/filepath"
	"runtime"
	"sort"
	"strings"
	"sync"
	"testing"
	"time"
)

const maxHashes = 400000

type Recorder struct {
	mu         sync.Mutex
	Prop       string
	Part       string
	evals      int64
	nontrivial map[uint64]struct{}
	ntOverflow int64
	labels     map[string]int64
	samples    []any
	maxSamples int
	extra      map[string]any
	rule       string
	exhaustive *bool
	assume     []string
	excluded   map[string]int64
}

// New creates a recorder for one test function (part) of a property.
func New(prop, part, rule string) *Recorder {
	return &Recorder{Prop: prop, Part: part, rule: rule, nontrivial: map[uint64]struct{}{},
		labels: map[string]int64{}, maxSamples: 4, extra: map[string]any{}, excluded: map[string]int64{}}
}

func hash(key []byte) uint64 {
	s := sha256.Sum256(key)
	return binary.BigEndian.Uint64(s[:8])
}

// Case records one executed case. key identifies the case for distinctness
// (canonical serialisation); nontrivial says whether it satisfies the
// property's stated non-trivial rule.
func (r *Recorder) Case(nontrivial bool, key []byte, labels ...string) {
	r.mu.Lock()
	defer r.mu.Unlock()
	r.evals++
	if nontrivial {
		if len(r.nontrivial) < maxHashes {
			r.nontrivial[hash(key)] = struct{}{}
		} else {
			r.ntOverflow++
		}
	}
	for _, l := range labels {
		r.labels[l]++
	}
}

// Eval counts an evaluation that is not a "case" of its own (e.g. a sub-execution).
func (r *Recorder) Eval(n int) {
	r.mu.Lock()
	r.evals += int64(n)
	r.mu.Unlock()
}

func (r *Recorder) Label(labels ...string) {
	r.mu.Lock()
	for _, l := range labels {
		r.labels[l]++
	}
	r.mu.Unlock()
}

// Sample keeps v (must be JSON-marshalable) if fewer than maxSamples are held.
func (r *Recorder) Sample(v any) {
	r.mu.Lock()
	defer r.mu.Unlock()
	if len(r.samples) < r.maxSamples {
		r.samples = append(r.samples, v)
	}
}

func (r *Recorder) WantSample() bool {
	r.mu.Lock()
	defer r.mu.Unlock()
	return len(r.samples) < r.maxSamples
}

func (r *Recorder) Set(key string, v any) {
	r.mu.Lock()
	r.extra[key] = v
	r.mu.Unlock()
}

func (r *Recorder) Exhaustive(b bool) {
	r.mu.Lock()
	r.exhaustive = &b
	r.mu.Unlock()
}

func (r *Recorder) Assume(s ...string) {
	r.mu.Lock()
	r.assume = append(r.assume, s...)
	r.mu.Unlock()
}

// Excluded counts a case skipped because it matches an open known finding.
func (r *Recorder) Excluded(sig string) {
	r.mu.Lock()
	r.excluded[sig]++
	r.mu.Unlock()
}

type fragment struct {
	Prop        string           `json:"property_id"`
	Part        string           `json:"part"`
	Rule        string           `json:"rule"`
	Evaluations int64            `json:"evaluations"`
	Hashes      []string         `json:"nontrivial_hashes"`
	NTOverflow  int64            `json:"nontrivial_overflow"`
	Labels      map[string]int64 `json:"labels"`
	Samples     []any            `json:"samples"`
	Extra       map[string]any   `json:"extra"`
	Exhaustive  *bool            `json:"exhaustive,omitempty"`
	Assumptions []string         `json:"assumptions"`
	Excluded    map[string]int64 `json:"excluded_known_findings"`
}

// Flush writes the fragment to $VERIF_EVID_DIR (no-op if unset).
func (r *Recorder) Flush() {
	dir := os.Getenv("VERIF_EVID_DIR")
	if dir == "" {
		return
	}
	r.mu.Lock()
	defer r.mu.Unlock()
	f := fragment{Prop: r.Prop, Part: r.Part, Rule: r.rule, Evaluations: r.evals, NTOverflow: r.ntOverflow,
		Labels: r.labels, Samples: r.samples, Extra: r.extra, Exhaustive: r.exhaustive, Assumptions: r.assume, Excluded: r.excluded}
	for h := range r.nontrivial {
		f.Hashes = append(f.Hashes, fmt.Sprintf("%016x", h))
	}
	sort.Strings(f.Hashes)
	b, err := json.Marshal(f)
	if err != nil {
		// a sample was not marshalable: drop samples rather than lose the fragment
		f.Samples = []any{fmt.Sprintf("unmarshalable samples: %v", err)}
		b, _ = json.Marshal(f)
	}
	name := fmt.Sprintf("%s-%s-%d.json", r.Prop, sanitize(r.Part), os.Getpid())
	_ = os.WriteFile(filepath.Join(dir, name), b, 0o644)
}

func sanitize(s string) string {
	return strings.Map(func(r rune) rune {
		if r >= 'a' && r <= 'z' || r >= 'A' && r <= 'Z' || r >= '0' && r <= '9' || r == '_' || r == '-' {
			return r
		}
		return '_'
	}, s)
}

// Attach registers Flush as a cleanup of the test.
func (r *Recorder) Attach(t testing.TB) *Recorder {
	t.Cleanup(r.Flush)
	return r
}

// ---------------------------------------------------------------------------
// Replays

// Replay is the JSON file format for a shrunk failing case.
type Replay struct {
	Property string          `json:"property"`
	Test     string          `json:"test"`
	Sig      string          `json:"sig"`
	Error    string          `json:"error"`
	Case     json.RawMessage `json:"case"`
}

var replayMu sync.Mutex

// SaveReplay writes the case of a failing execution to
// $VERIF_REPLAY_DIR/<prop>-<test>.pending.json, overwriting earlier ones of the
// same test: rapid re-executes the minimal case last, so what remains is the
// shrunk case. Returns the path (or "" if the directory is not configured).
func SaveReplay(prop, test, sig string, err error, c any) string {
	dir := os.Getenv("VERIF_REPLAY_DIR")
	if dir == "" {
		return ""
	}
	replayMu.Lock()
	defer replayMu.Unlock()
	raw, merr := json.Marshal(c)
	if merr != nil {
		raw, _ = json.Marshal(fmt.Sprintf("unmarshalable case: %v", merr))
	}
	rp := Replay{Property: prop, Test: test, Sig: sig, Error: err.Error(), Case: raw}
	b, _ := json.MarshalIndent(rp, "", " ")
	p := filepath.Join(dir, fmt.Sprintf("%s-%s.pending.json", prop, sanitize(test)))
	_ = os.WriteFile(p, b, 0o644)
	return p
}

// LoadReplay reads the replay file named by $VERIF_REPLAY (nil if unset or
// meant for another test).
func LoadReplay(test string) *Replay {
	p := os.Getenv("VERIF_REPLAY")
	if p == "" {
		return nil
	}
	b, err := os.ReadFile(p)
	if err != nil {
		return nil
	}
	var rp Replay
	if json.Unmarshal(b, &rp) != nil || rp.Test != test {
		return nil
	}
	// tells the driver that the saved case was really taken (tests whose cases are Go values have no JSON replay)
	fmt.Printf("VERIF-REPLAYED test=%s file=%s\n", test, p)
	return &rp
}

// ---------------------------------------------------------------------------
// Known findings: lines "open: property=<id> sig=<sig> <text>" in
// $VERIF_KNOWN (default /verif/KNOWN_FINDINGS.txt). Never written here.

var (
	knownOnce sync.Once
	known     map[string]bool
)

func loadKnown() {
	known = map[string]bool{}
	p := os.Getenv("VERIF_KNOWN")
	if p == "" {
		p = "/verif/KNOWN_FINDINGS.txt"
	}
	f, err := os.Open(p)
	if err != nil {
		return
	}
	defer f.Close()
	sc := bufio.NewScanner(f)
	for sc.Scan() {
		line := strings.TrimSpace(sc.Text())
		if !strings.HasPrefix(line, "open:") {
			continue
		}
		var prop, sig string
		for _, w := range strings.Fields(line) {
			if strings.HasPrefix(w, "property=") {
				prop = strings.TrimPrefix(w, "property=")
			}
			if strings.HasPrefix(w, "sig=") {
				sig = strings.TrimPrefix(w, "sig=")
			}
		}
		if prop != "" && sig != "" {
			known[prop+"|"+sig] = true
		}
	}
}

// IsKnown reports whether (prop, sig) is listed as an open finding.
func IsKnown(prop, sig string) bool {
	knownOnce.Do(loadKnown)
	return known[prop+"|"+sig]
}

// Tier returns "quick" or "thorough".
func Tier() string {
	if os.Getenv("VERIF_TIER") == "thorough" {
		return "thorough"
	}
	return "quick"
}

// Scale returns q in the quick tier and th in the thorough tier.
func Scale(q, th int) int {
	if Tier() == "thorough" {
		return th
	}
	return q
}

// TB is the subset of testing.TB / *rapid.T that Fail needs.
type TB interface {
	Fatalf(format string, args ...any)
	Helper()
}

// Fail reports a failing case: if its signature is an open known finding the
// case is only counted as excluded; otherwise the replay is saved and the test
// fails with a line the driver recognises.
func (r *Recorder) Fail(t TB, test, sig string, err error, c any) {
	t.Helper()
	if IsKnown(r.Prop, sig) {
		r.Excluded(sig)
		return
	}
	if strings.HasPrefix(sig, "harness-") {
		// the harness itself could not evaluate the case (e.g. a struct field the pinned tables do not know):
		// that is an inconclusive run, never a violation
		t.Fatalf("VERIF-INCONCLUSIVE property=%s test=%s sig=%s: %v", r.Prop, test, sig, err)
		return
	}
	p := SaveReplay(r.Prop, test, sig, err, c)
	t.Fatalf("VERIF-FAIL property=%s test=%s sig=%s replay=%s: %v", r.Prop, test, sig, p, err)
}

// Journal writes the case about to be executed to $VERIF_JOURNAL_DIR so that the
// driver can recover it if the process dies (panic in a library goroutine).
func Journal(prop, test string, c any) {
	dir := os.Getenv("VERIF_JOURNAL_DIR")
	if dir == "" {
		return
	}
	raw, err := json.Marshal(c)
	if err != nil {
		return
	}
	rp := Replay{Property: prop, Test: test, Sig: "process-crash", Error: "the worker process died while executing this case", Case: raw}
	b, _ := json.Marshal(rp)
	p := filepath.Join(dir, fmt.Sprintf("%s-%s-%d.json", prop, sanitize(test), os.Getpid()))
	_ = os.WriteFile(p, b, 0o644)
}

// DeadlockWatch guards one case executed in a testing/synctest bubble against a deadlock on a sync.Mutex / RWMutex
// inside the code under test: such a wait is not "durably blocking", so synctest.Wait would wait for ever and the run
// would end as a budget time-out (inconclusive). Call it OUTSIDE the bubble (real time). If the case is still running
// after 20 s (cases take milliseconds) and some goroutine with `needle` on its stack is found waiting for a lock in two
// samples 5 s apart, the case is saved as a replay, a VERIF-FAIL line is printed and the process exits: a goroutine
// that waits 5 s for a lock nobody releases is a deadlock, not slowness. The returned function stops the watch.
func DeadlockWatch(prop, test string, c any, needle string) (stop func()) {
	done := make(chan struct{})
	blocked := func() map[string]string {
		buf := make([]byte, 1<<22)
		buf = buf[:runtime.Stack(buf, true)]
		out := map[string]string{}
		for _, g := range strings.Split(string(buf), "\n\n") {
			nl := strings.IndexByte(g, '\n')
			if nl < 0 {
				continue
			}
			hdr := g[:nl]
			// waiting for a lock, or running / runnable all along (a busy loop): neither is durably blocked
			if (strings.Contains(hdr, "Mutex") || strings.Contains(hdr, "semacquire") || strings.Contains(hdr, "[running") || strings.Contains(hdr, "[runnable")) && strings.Contains(g, needle) && !strings.Contains(g, "evid.DeadlockWatch") {
				out[strings.Fields(hdr)[1]] = g
			}
		}
		return out
	}
	go func() {
		select {
		case <-done:
			return
		case <-time.After(20 * time.Second):
		}
		first := blocked()
		select {
		case <-done:
			return
		case <-time.After(5 * time.Second):
		}
		for id, g := range blocked() {
			if _, both := first[id]; both {
				sig, what := "deadlock-on-lock", "waiting for a lock"
				if strings.Contains(g[:strings.IndexByte(g, '\n')], "runn") {
					sig, what = "busy-loop", "running (a loop that never blocks)"
				}
				err := fmt.Errorf("the case is still running after 25 s of real time and goroutine %s has been %s all along:\n%s", id, what, g)
				p := SaveReplay(prop, test, sig, err, c)
				fmt.Printf("VERIF-FAIL property=%s test=%s sig=%s replay=%s: %v\n", prop, test, sig, p, err)
				os.Exit(1)
			}
		}
	}()
	return func() { close(done) }
}
