module verif/harness

go 1.26.8

require (
	github.com/ovh/kmip-go v0.0.0
	pgregory.net/rapid v1.3.0
)

replace github.com/ovh/kmip-go => /repo
