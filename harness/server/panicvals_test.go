package server

import (
	"errors"
	"math"
)

// panicKinds: "panic with any value" - what a handler may panic with. Besides the usual suspects: values that cannot be
// hashed or compared (slices, maps, functions, structures holding them, slice-typed errors such as go/scanner.ErrorList),
// a NaN, pointers, a real run-time error, and errors / Stringers whose own methods panic (among them the nil pointer stored in an error interface).
var panicKinds = []string{"string", "error", "int", "stringer", "nil", "slice", "map", "func", "error-list", "struct-with-slice", "pointer", "nan", "runtime-error", "error-that-panics", "typed-nil-error", "stringer-that-panics"}

type errList []error

func (l errList) Error() string { return "several errors" }

type hostileErr struct{ m map[string]int }

func (hostileErr) Error() string { panic("Error() of the panic value panics") }

// ptrErr is an error type with a pointer receiver that reads its field: a nil *ptrErr stored in an error interface
// (the classic `var e *MyErr; return e`) is a non-nil error whose Error method panics.
type ptrErr struct{ msg string }

func (e *ptrErr) Error() string { return e.msg }

type hostileStringer struct{}

func (hostileStringer) String() string { panic("String() of the panic value panics") }

// plainErrorKinds: what a handler may return as a plain (non-KMIP) error.
var plainErrorKinds = []string{"", "", "typed-nil", "error-that-panics"}

func plainError(kind string) error {
	switch kind {
	case "typed-nil":
		var e *ptrErr
		return e
	case "error-that-panics":
		return hostileErr{}
	}
	return errors.New("plain failure")
}

// panicWith panics with a value of the given kind.
func panicWith(kind string) {
	switch kind {
	case "error":
		panic(errors.New("boom"))
	case "int":
		panic(42)
	case "stringer":
		panic(stringer{"boom"})
	case "nil":
		panic(nil)
	case "slice":
		panic([]string{"boom", "bang"})
	case "map":
		panic(map[string]int{"boom": 1})
	case "func":
		panic(func() {})
	case "error-list":
		panic(errList{errors.New("first"), errors.New("second")})
	case "struct-with-slice":
		panic(struct {
			Code int
			Path []string
		}{7, []string{"a", "b"}})
	case "pointer":
		panic(&stringer{"boom"})
	case "nan":
		panic(math.NaN())
	case "runtime-error":
		var m map[string]int
		m["boom"] = 1
	case "error-that-panics":
		panic(hostileErr{})
	case "typed-nil-error":
		var e *ptrErr
		panic(e)
	case "stringer-that-panics":
		panic(hostileStringer{})
	default:
		panic("boom")
	}
}
