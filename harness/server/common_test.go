package server

import (
	"fmt"
	"io"
	"log/slog"
	"os"
	"testing"

	"github.com/ovh/kmip-go/ttlv"

	"verif/harness/memnet"
)

func TestMain(m *testing.M) {
	// the library logs every panic and connection event through slog's default logger
	slog.SetDefault(slog.New(slog.NewTextHandler(io.Discard, nil)))
	os.Exit(m.Run())
}

// safely runs f and converts a panic into an error.
func safely(f func() error) (err error) {
	defer func() {
		if r := recover(); r != nil {
			err = fmt.Errorf("panic: %v", r)
		}
	}()
	return f()
}

func ttlvMarshal(v any) []byte { return ttlv.MarshalTTLV(v) }

func setPeerWindow(c *memnet.Conn, n int) { c.SetPeerWindow(n) }
