package server

import (
	"context"
	"encoding/hex"
	"encoding/json"
	"errors"
	"fmt"
	"io"
	"strings"
	"sync"
	"sync/atomic"
	"testing"
	"testing/synctest"
	"time"

	kmip "github.com/ovh/kmip-go"
	"github.com/ovh/kmip-go/kmipserver"
	"github.com/ovh/kmip-go/payloads"
	"github.com/ovh/kmip-go/ttlv"
	"pgregory.net/rapid"

	"verif/harness/census"
	"verif/harness/evid"
	"verif/harness/memnet"
	"verif/harness/ttlvref"
)

// ---------------------------------------------------------------------------
// Script

type c08Step struct {
	Conn int    `json:"conn"`
	Op   string `json:"op"` // connect request pipeline partial complete garbage undecodable halfclose close stall unstall
	// request / pipeline: outcomes of the items of each request ("ok", "typed", "plain", "panic:<kind>", "slow:<ms>:<honour>")
	Requests [][]string `json:"requests,omitempty"`
	N        int        `json:"n,omitempty"`    // partial: number of bytes sent first
	Kind     string     `json:"kind,omitempty"` // undecodable kind
	Hex      string     `json:"hex,omitempty"`  // garbage bytes
	// Pad: request / pipeline: the requests carry this many bytes of filler (client correlation value), so that message
	// sizes vary from one request to the next on a connection (below / above the receive buffer's steps)
	Pad int `json:"pad,omitempty"`
	// During: act immediately after the previous step, without letting (fake) time pass first
	During bool `json:"during,omitempty"`
}

type c08Case struct {
	Steps []c08Step `json:"steps"`
	// HookClose > 0: at the n-th hit of the yield point in conn.send (response about to be handed to the
	// write loop) the client end of that connection is closed and the teardown is allowed to complete.
	HookClose int `json:"hook_close_at,omitempty"`
	// CloseErrors: Close() of the connections the server accepts reports an error after closing (as a TLS connection
	// does when its close_notify cannot be written to a peer that is gone): an ended connection is an ended connection
	CloseErrors bool `json:"accepted_connections_report_close_errors,omitempty"`
}

// ---------------------------------------------------------------------------
// Handlers: the request identifier is the scripted outcome

func c08Executor() *kmipserver.BatchExecutor {
	exec := kmipserver.NewBatchExecutor()
	exec.Route(kmip.OperationActivate, kmipserver.HandleFunc(func(ctx context.Context, req *payloads.ActivateRequestPayload) (*payloads.ActivateResponsePayload, error) {
		o := req.UniqueIdentifier
		if i := strings.IndexByte(o, '|'); i >= 0 {
			o = o[i+1:]
		}
		switch {
		case o == "typed":
			return nil, kmipserver.Errorf(kmip.ResultReasonItemNotFound, "not found")
		case o == "plain":
			return nil, errors.New("plain failure")
		case strings.HasPrefix(o, "plain:"):
			return nil, plainError(o[6:])
		case strings.HasPrefix(o, "panic:"):
			panicWith(o[6:])
		case strings.HasPrefix(o, "slow:"):
			var ms int
			var honour bool
			fmt.Sscanf(o[5:], "%d:%t", &ms, &honour)
			if honour {
				select {
				case <-time.After(time.Duration(ms) * time.Millisecond):
				case <-ctx.Done():
					return nil, ctx.Err()
				}
			} else {
				time.Sleep(time.Duration(ms) * time.Millisecond)
			}
		}
		return &payloads.ActivateResponsePayload{UniqueIdentifier: req.UniqueIdentifier}, nil
	}))
	return exec
}

// c08RequestPadded is c08Request with pad bytes of filler in the header's client correlation value.
func c08RequestPadded(seq int, outcomes []string, pad int) []byte {
	if pad <= 0 {
		return c08Request(seq, outcomes)
	}
	var m kmip.RequestMessage
	if err := ttlv.UnmarshalTTLV(c08Request(seq, outcomes), &m); err != nil {
		panic(err)
	}
	m.Header.ClientCorrelationValue = strings.Repeat("p", pad)
	return ttlv.MarshalTTLV(&m)
}

func c08Request(seq int, outcomes []string) []byte {
	var pls []kmip.OperationPayload
	for i, o := range outcomes {
		if o == "unrouted" {
			pls = append(pls, &payloads.DestroyRequestPayload{UniqueIdentifier: fmt.Sprintf("%d.%d|%s", seq, i, o)})
			continue
		}
		pls = append(pls, &payloads.ActivateRequestPayload{UniqueIdentifier: fmt.Sprintf("%d.%d|%s", seq, i, o)})
	}
	m := kmip.NewRequestMessage(kmip.V1_4, pls...)
	ts := time.Unix(1700000000, 0)
	m.Header.TimeStamp = &ts
	for i, o := range outcomes {
		// dispatch paths that never reach a handler: message extensions (critical ones must be refused)
		switch o {
		case "critical-extension":
			m.BatchItem[i].MessageExtension = &kmip.MessageExtension{VendorIdentification: "verif", CriticalityIndicator: true, VendorExtension: ttlv.Struct{{Tag: 0x540001, Value: int32(1)}}}
		case "ok-extension":
			m.BatchItem[i].MessageExtension = &kmip.MessageExtension{VendorIdentification: "verif", CriticalityIndicator: false}
		}
	}
	return ttlv.MarshalTTLV(&m)
}

// undecodable builds a correctly framed request message that cannot be decoded.
func undecodable(kind string) []byte {
	hdr := &ttlvref.Node{Tag: 0x420077, Type: ttlvref.Structure, Kids: []*ttlvref.Node{
		{Tag: 0x420069, Type: ttlvref.Structure, Kids: []*ttlvref.Node{{Tag: 0x42006A, Type: ttlvref.Integer, I: 1}, {Tag: 0x42006B, Type: ttlvref.Integer, I: 4}}},
		{Tag: 0x42000D, Type: ttlvref.Integer, I: 1}}}
	item := func(op int64, payload *ttlvref.Node) *ttlvref.Node {
		return &ttlvref.Node{Tag: 0x42000F, Type: ttlvref.Structure, Kids: []*ttlvref.Node{{Tag: 0x42005C, Type: ttlvref.Enumeration, I: op}, payload}}
	}
	pl := func(kids ...*ttlvref.Node) *ttlvref.Node {
		return &ttlvref.Node{Tag: 0x420079, Type: ttlvref.Structure, Kids: kids}
	}
	msg := func(kids ...*ttlvref.Node) []byte {
		return ttlvref.Write(&ttlvref.Node{Tag: 0x420078, Type: ttlvref.Structure, Kids: kids})
	}
	keyBlock := func(format int64, material *ttlvref.Node) *ttlvref.Node {
		return &ttlvref.Node{Tag: 0x420040, Type: ttlvref.Structure, Kids: []*ttlvref.Node{{Tag: 0x420042, Type: ttlvref.Enumeration, I: format},
			{Tag: 0x420045, Type: ttlvref.Structure, Kids: []*ttlvref.Node{material}}}}
	}
	switch kind {
	case "oversize-with-body":
		// a header announcing more than the server's 1 MiB limit, with the announced body really sent: the body consists of
		// well-formed requests (which must not be executed), and more of them follow
		smuggled := c08Request(9000, []string{"ok"})
		total := 1<<20 + 4096
		b := []byte{0x42, 0x00, 0x78, 0x01, byte(total >> 24), byte(total >> 16), byte(total >> 8), byte(total)}
		for len(b) < total+8+2*len(smuggled) {
			b = append(b, smuggled...)
		}
		return b
	case "unknown-object-type": // Register with an object type the library has no struct for
		return msg(hdr, item(3, pl(&ttlvref.Node{Tag: 0x420057, Type: ttlvref.Enumeration, I: 0x7F}, &ttlvref.Node{Tag: 0x420091, Type: ttlvref.Structure},
			&ttlvref.Node{Tag: 0x42008F, Type: ttlvref.Structure})))
	case "unsupported-key-format": // Register of a symmetric key whose key format has no material representation
		return msg(hdr, item(3, pl(&ttlvref.Node{Tag: 0x420057, Type: ttlvref.Enumeration, I: 2}, &ttlvref.Node{Tag: 0x420091, Type: ttlvref.Structure},
			&ttlvref.Node{Tag: 0x42008F, Type: ttlvref.Structure, Kids: []*ttlvref.Node{keyBlock(0x0C, &ttlvref.Node{Tag: 0x420043, Type: ttlvref.Structure})}})))
	case "bad-credential-type":
		h := hdr.Clone()
		auth := &ttlvref.Node{Tag: 0x42000C, Type: ttlvref.Structure, Kids: []*ttlvref.Node{{Tag: 0x420023, Type: ttlvref.Structure, Kids: []*ttlvref.Node{
			{Tag: 0x420024, Type: ttlvref.Enumeration, I: 0x55}, {Tag: 0x420025, Type: ttlvref.Structure}}}}}
		h.Kids = []*ttlvref.Node{h.Kids[0], auth, h.Kids[1]}
		return msg(h, item(0x12, pl(&ttlvref.Node{Tag: 0x420094, Type: ttlvref.TextString, B: []byte("x|ok")})))
	case "wrong-top-level-tag":
		return ttlvref.Write(&ttlvref.Node{Tag: 0x420077, Type: ttlvref.Structure, Kids: hdr.Kids})
	case "wrong-field-type": // batch count as text string
		h := hdr.Clone()
		h.Kids[1] = &ttlvref.Node{Tag: 0x42000D, Type: ttlvref.TextString, B: []byte("1")}
		return msg(h, item(0x12, pl(&ttlvref.Node{Tag: 0x420094, Type: ttlvref.TextString, B: []byte("x|ok")})))
	case "inner-length-overrun": // correctly framed, but an inner item claims more than its parent holds
		b := msg(hdr, item(0x12, pl(&ttlvref.Node{Tag: 0x420094, Type: ttlvref.TextString, B: []byte("x|ok12345")})))
		// the last item is the text string: lengthen it beyond the message
		b[len(b)-16-8+7] = 0x40
		return b
	case "import-without-object-type":
		return msg(hdr, item(0x2A, pl(&ttlvref.Node{Tag: 0x420094, Type: ttlvref.TextString, B: []byte("id")})))
	case "negative-for-unsigned": // attribute index etc. are fine negative; use a byte-typed... no such field: use enum given as integer
		return msg(hdr, item(0x12, pl(&ttlvref.Node{Tag: 0x420094, Type: ttlvref.Integer, I: 5})))
	default: // a response message sent to the server is ignored by design; keep "missing-payload"
		return msg(hdr, &ttlvref.Node{Tag: 0x42000F, Type: ttlvref.Structure, Kids: []*ttlvref.Node{{Tag: 0x42005C, Type: ttlvref.Enumeration, I: 0x12}}})
	}
}

var undecodableKinds = []string{"unknown-object-type", "unsupported-key-format", "bad-credential-type", "wrong-top-level-tag", "wrong-field-type",
	"inner-length-overrun", "import-without-object-type", "negative-for-unsigned", "missing-payload", "oversize-with-body"}

// ---------------------------------------------------------------------------
// Client side of one connection

type expectation struct {
	kind     string   // batch | invalid
	outcomes []string // batch
	seq      int
}

type peer struct {
	c              *memnet.Conn
	rw             io.ReadWriter // what the client reads and writes through (a TLS client connection over c); nil: c itself
	mu             sync.Mutex
	responses      []*ttlvref.Node
	rawResp        [][]byte
	eof            bool
	readErr        error
	closed         bool // closed by the client
	halfClosed     bool
	desynced       bool // garbage was sent: framing expectations no longer hold
	partial        []byte
	expect         []expectation
	stalled        atomic.Bool
	gate           chan struct{}
	invalidDue     bool // an undecodable framed message was sent: one invalid-message response then EOF
	pendingPartial *expectation
	rejected       bool // the server's connect hook refused this connection: it must be closed by the server
}

func (p *peer) stream() io.ReadWriter {
	if p.rw != nil {
		return p.rw
	}
	return p.c
}

func (p *peer) collect() {
	for {
		if p.stalled.Load() {
			select {
			case <-p.gate:
				continue
			case <-p.c.Done():
				return
			}
		}
		hdr := make([]byte, 8)
		if _, err := io.ReadFull(p.stream(), hdr); err != nil {
			p.mu.Lock()
			p.eof, p.readErr = true, err
			p.mu.Unlock()
			return
		}
		total, _ := ttlvref.ItemLen(hdr)
		buf := make([]byte, total)
		copy(buf, hdr)
		if _, err := io.ReadFull(p.stream(), buf[8:]); err != nil {
			p.mu.Lock()
			p.eof, p.readErr = true, err
			p.mu.Unlock()
			return
		}
		n, _ := ttlvref.Parse(buf, ttlvref.Strict)
		p.mu.Lock()
		p.responses = append(p.responses, n)
		p.rawResp = append(p.rawResp, buf)
		p.mu.Unlock()
	}
}

func node(n *ttlvref.Node, tag int) *ttlvref.Node {
	if n == nil {
		return nil
	}
	for _, k := range n.Kids {
		if k.Tag == tag {
			return k
		}
	}
	return nil
}

func nodes(n *ttlvref.Node, tag int) []*ttlvref.Node {
	var out []*ttlvref.Node
	if n == nil {
		return nil
	}
	for _, k := range n.Kids {
		if k.Tag == tag {
			out = append(out, k)
		}
	}
	return out
}

// checkResponse compares one response with the model of the request it answers.
func checkResponse(resp *ttlvref.Node, e expectation) error {
	if resp == nil {
		return fmt.Errorf("response is not well-formed TTLV")
	}
	if resp.Tag != 0x42007B {
		return fmt.Errorf("response has tag %06X", resp.Tag)
	}
	items := nodes(resp, 0x42000F)
	if e.kind == "invalid" {
		if len(items) != 1 {
			return fmt.Errorf("invalid-message response has %d items", len(items))
		}
		st, rs := node(items[0], 0x42007F), node(items[0], 0x42007E)
		if st == nil || st.I != 1 || rs == nil || rs.I != 4 {
			return fmt.Errorf("undecodable request answered with status %v reason %v, want OperationFailed/InvalidMessage", st, rs)
		}
		return nil
	}
	if len(items) != len(e.outcomes) {
		return fmt.Errorf("response to request %d has %d items, want %d", e.seq, len(items), len(e.outcomes))
	}
	for i, o := range e.outcomes {
		st := node(items[i], 0x42007F)
		wantOK := o == "ok" || o == "ok-extension" || strings.HasPrefix(o, "slow:")
		if st == nil || (st.I == 0) != wantOK {
			// a slow handler that honours a cancelled context may fail; only on dead connections, which do not get here
			return fmt.Errorf("request %d item %d (%s) has status %v", e.seq, i, o, st)
		}
		if wantOK {
			pl := node(items[i], 0x42007C)
			id := node(pl, 0x420094)
			want := fmt.Sprintf("%d.%d|%s", e.seq, i, o)
			if id == nil || string(id.B) != want {
				return fmt.Errorf("request %d item %d: response carries identifier %v, want %q (response of another request?)", e.seq, i, id, want)
			}
		}
	}
	return nil
}

// ---------------------------------------------------------------------------
// Execution inside a synctest bubble

type c08Result struct {
	sig string
	err error
}

func maxSlow(c c08Case) time.Duration {
	var total time.Duration
	for _, s := range c.Steps {
		for _, r := range s.Requests {
			for _, o := range r {
				if strings.HasPrefix(o, "slow:") {
					var ms int
					fmt.Sscanf(o[5:], "%d", &ms)
					total += time.Duration(ms) * time.Millisecond
				}
			}
		}
	}
	return total + 10*time.Millisecond
}

func c08Bubble(c c08Case) (res c08Result) {
	fail := func(sig string, format string, a ...any) c08Result {
		return c08Result{sig, fmt.Errorf(format, a...)}
	}
	ln := memnet.NewListener()
	if c.CloseErrors {
		ln.ServerCloseErr = errors.New("memnet: close: broken pipe while sending the closing alert")
	}
	var rejectNext atomic.Bool
	exec := c08Executor()
	srv := kmipserver.NewServer(ln, exec).WithConnectHook(func(ctx context.Context) (context.Context, error) {
		if rejectNext.Swap(false) {
			return ctx, errors.New("connection refused by the connect hook")
		}
		return ctx, nil
	})
	serveDone := make(chan error, 1)
	go func() { serveDone <- srv.Serve() }()
	peers := map[int]*peer{}
	seq := 0
	slowBudget := maxSlow(c)
	hookHits := 0
	var hookPeer *peer
	if c.HookClose > 0 {
		kmipserver.SetVerifYield(func(point string) {
			if point != "kmipserver.conn.send.loaded" {
				return
			}
			hookHits++
			if hookHits == c.HookClose && hookPeer != nil {
				hookPeer.mu.Lock()
				hookPeer.closed = true
				hookPeer.mu.Unlock()
				hookPeer.c.Close()
				// let the read loop notice and tear the connection down before the response is handed over
				time.Sleep(time.Millisecond)
			}
		})
		defer kmipserver.SetVerifYield(nil)
	}
	connect := func(id int) (*peer, error) {
		cc, err := ln.Dial()
		if err != nil {
			return nil, err
		}
		p := &peer{c: cc, gate: make(chan struct{}, 1)}
		peers[id] = p
		go p.collect()
		return p, nil
	}
	ended := func(p *peer) bool {
		p.mu.Lock()
		defer p.mu.Unlock()
		return p.closed || p.eof
	}
	invariant := func(step int, timePassed bool) *c08Result {
		live, uncertain := 0, 0
		for id, p := range peers {
			p.mu.Lock()
			got, exp := len(p.responses), len(p.expect)
			closed, eof, desync, half, stalled := p.closed, p.eof, p.desynced, p.halfClosed, p.stalled.Load()
			resps := append([]*ttlvref.Node{}, p.responses...)
			exps := append([]expectation{}, p.expect...)
			p.mu.Unlock()
			if !closed && !eof {
				live++
				if stalled {
					// a stalled reader cannot observe that the server closed the connection
					uncertain++
				}
			}
			if timePassed && p.rejected && !closed && !eof {
				r := fail("rejected-connection-left-open", "step %d conn %d: the connect hook refused the connection but the server never closed it", step, id)
				return &r
			}
			if desync {
				// after garbage the harness no longer knows where frames start (the garbage may complete a pending
				// partial message, contain several frames, ...): only crash-freedom, census and cleanup are checked
				continue
			}
			if got > exp {
				r := fail("too-many-responses", "step %d conn %d: %d responses for %d requests", step, id, got, exp)
				return &r
			}
			for i := 0; i < got; i++ {
				if err := checkResponse(resps[i], exps[i]); err != nil {
					r := fail("wrong-response", "step %d conn %d response %d: %v", step, id, i, err)
					return &r
				}
			}
			if timePassed && !closed && !half && !stalled && got < exp {
				// quiescent, all handler time elapsed, connection alive from the client's point of view
				if eof {
					// the server closed the connection although requests are unanswered; allowed only after an invalid message
					invalidBefore := false
					for _, e := range exps[:got+1] {
						if e.kind == "invalid" {
							invalidBefore = true
						}
					}
					if got < len(exps) && exps[got].kind == "invalid" {
						r := fail("undecodable-request-not-answered", "step %d conn %d: the server closed the connection without the invalid-message response", step, id)
						return &r
					}
					if !invalidBefore {
						r := fail("connection-dropped", "step %d conn %d: the server closed a live connection with %d of %d requests answered", step, id, got, exp)
						return &r
					}
					continue
				}
				r := fail("request-not-answered", "step %d conn %d: %d of %d requests answered and nothing is in progress", step, id, got, exp)
				return &r
			}
		}
		if timePassed {
			// only an excess is a violation: fewer goroutines than connections is an implementation choice, and a dead
			// accept loop is caught by the probe connection below
			cnt := census.Count("kmipserver.(*Server).handleConn", "kmipserver.(*conn).readloop", "kmipserver.(*conn).writeloop")
			for _, k := range []string{"kmipserver.(*Server).handleConn", "kmipserver.(*conn).readloop", "kmipserver.(*conn).writeloop"} {
				if cnt[k] > live {
					r := fail("goroutines-leaked:"+k[strings.LastIndexByte(k, '.')+1:], "step %d: %d goroutines in %s for %d live connections\n%s", step, cnt[k], k, live, census.Dump(k))
					return &r
				}
			}
		}
		return nil
	}
	for si, s := range c.Steps {
		p := peers[s.Conn]
		switch s.Op {
		case "connect", "connect-rejected":
			if p != nil {
				continue
			}
			if s.Op == "connect-rejected" {
				rejectNext.Store(true)
			}
			np, err := connect(s.Conn)
			if err != nil {
				return fail("connect-refused", "step %d: %v", si, err)
			}
			if s.Op == "connect-rejected" {
				np.mu.Lock()
				np.rejected, np.desynced = true, true // nothing sent on it is owed an answer
				np.mu.Unlock()
			}
		case "request", "pipeline":
			if p == nil || ended(p) || p.partial != nil || p.desynced || p.halfClosed || p.invalidDue {
				continue
			}
			var buf []byte
			for _, r := range s.Requests {
				seq++
				buf = append(buf, c08RequestPadded(seq, r, s.Pad)...)
				p.mu.Lock()
				p.expect = append(p.expect, expectation{kind: "batch", outcomes: r, seq: seq})
				p.mu.Unlock()
			}
			if c.HookClose > 0 {
				hookPeer = p
			}
			_, _ = p.c.Write(buf)
		case "partial":
			if p == nil || ended(p) || p.partial != nil || p.desynced || p.halfClosed || p.invalidDue || len(s.Requests) != 1 {
				continue
			}
			seq++
			b := c08Request(seq, s.Requests[0])
			n := s.N % len(b)
			if n == 0 {
				n = 1
			}
			p.partial = b[n:]
			p.mu.Lock()
			p.expect = append(p.expect, expectation{kind: "batch", outcomes: s.Requests[0], seq: seq})
			p.mu.Unlock()
			_, _ = p.c.Write(b[:n])
			// the request is only due once completed: remove the expectation until then
			p.mu.Lock()
			p.expect = p.expect[:len(p.expect)-1]
			p.mu.Unlock()
			p.pendingPartial = &expectation{kind: "batch", outcomes: s.Requests[0], seq: seq}
		case "complete":
			if p == nil || ended(p) || p.partial == nil {
				continue
			}
			p.mu.Lock()
			p.expect = append(p.expect, *p.pendingPartial)
			p.mu.Unlock()
			_, _ = p.c.Write(p.partial)
			p.partial, p.pendingPartial = nil, nil
		case "idle":
			d, _ := time.ParseDuration(s.Kind)
			time.Sleep(d)
		case "route":
			// the application registers one more operation handler while the server is running
			// (done while nothing else runs: the route table is a plain map, registering during a lookup is not supported)
			synctest.Wait()
			routed := make(chan struct{})
			go func() {
				exec.Route(kmip.OperationRevoke, kmipserver.HandleFunc(func(ctx context.Context, req *payloads.RevokeRequestPayload) (*payloads.RevokeResponsePayload, error) {
					return &payloads.RevokeResponsePayload{UniqueIdentifier: req.UniqueIdentifier}, nil
				}))
				close(routed)
			}()
			synctest.Wait()
			select {
			case <-routed:
			default:
				return fail("route-registration-blocks", "step %d: registering a handler on the running executor does not return (every connection is idle or inside a handler)\n%s", si, census.Dump("kmip-go/kmipserver"))
			}
		case "garbage":
			if p == nil || ended(p) {
				continue
			}
			b, _ := hex.DecodeString(s.Hex)
			p.mu.Lock()
			p.desynced = true
			p.mu.Unlock()
			_, _ = p.c.Write(b)
		case "undecodable":
			if p == nil || ended(p) || p.partial != nil || p.desynced || p.halfClosed || p.invalidDue {
				continue
			}
			p.mu.Lock()
			p.expect = append(p.expect, expectation{kind: "invalid"})
			p.invalidDue = true
			p.mu.Unlock()
			_, _ = p.c.Write(undecodable(s.Kind))
		case "halfclose":
			if p == nil || ended(p) {
				continue
			}
			p.mu.Lock()
			p.halfClosed = true
			p.mu.Unlock()
			_ = p.c.CloseWrite()
		case "close":
			if p == nil || ended(p) {
				continue
			}
			p.mu.Lock()
			p.closed = true
			p.mu.Unlock()
			p.c.Close()
		case "stall":
			if p == nil || ended(p) {
				continue
			}
			p.stalled.Store(true)
			p.c.SetPeerWindow(16) // the server's writes block once 16 unread bytes are pending
			p.c.PauseReads()
		case "unstall":
			if p == nil {
				continue
			}
			p.stalled.Store(false)
			p.c.SetPeerWindow(0)
			p.c.ResumeReads()
			select {
			case p.gate <- struct{}{}:
			default:
			}
		}
		synctest.Wait()
		during := si+1 < len(c.Steps) && c.Steps[si+1].During
		if !during {
			time.Sleep(slowBudget)
			synctest.Wait()
		}
		if r := invariant(si, !during); r != nil {
			return *r
		}
	}
	// other connections are still served: a fresh probe connection gets a correct answer
	probe, err := connect(1000)
	if err != nil {
		return fail("probe-refused", "%v", err)
	}
	seq++
	probe.mu.Lock()
	probe.expect = append(probe.expect, expectation{kind: "batch", outcomes: []string{"ok"}, seq: seq})
	probe.mu.Unlock()
	_, _ = probe.c.Write(c08Request(seq, []string{"ok"}))
	synctest.Wait()
	time.Sleep(slowBudget)
	synctest.Wait()
	probe.mu.Lock()
	pr := len(probe.responses)
	probe.mu.Unlock()
	if pr != 1 {
		return fail("probe-not-served", "a fresh connection got %d responses to one request", pr)
	}
	if r := invariant(len(c.Steps), true); r != nil {
		return *r
	}
	// end: clients go away, nothing may remain
	for _, p := range peers {
		p.mu.Lock()
		p.closed = true
		p.mu.Unlock()
		p.stalled.Store(false)
		p.c.ResumeReads()
		p.c.Close()
	}
	synctest.Wait()
	time.Sleep(slowBudget)
	synctest.Wait()
	cnt := census.Count("kmipserver.(*Server).handleConn", "kmipserver.(*conn).readloop", "kmipserver.(*conn).writeloop")
	for k, v := range cnt {
		if v != 0 {
			return fail("goroutines-leaked:"+k[strings.LastIndexByte(k, '.')+1:], "%d goroutines remain in %s after every client disconnected\n%s", v, k, census.Dump(k))
		}
	}
	if err := srv.Shutdown(); err != nil {
		return fail("shutdown-error", "%v", err)
	}
	synctest.Wait()
	select {
	case <-serveDone:
	default:
		return fail("serve-not-returned", "Serve has not returned after Shutdown")
	}
	return c08Result{}
}

// c08Run executes one case in a fresh bubble; a goroutine still blocked when the bubble ends
// (leak / deadlock) surfaces as a recovered bubble panic.
func c08Run(t *testing.T, c c08Case) (sig string, err error) {
	defer evid.DeadlockWatch("C08", "TestC08Availability", c, "kmip-go/kmipserver")()
	var res c08Result
	perr := safely(func() error {
		synctest.Test(t, func(st *testing.T) {
			res = c08Bubble(c)
			if res.err != nil {
				// do not leave the bubble with blocked goroutines of our own making: nothing to do, the bubble
				// reports them; the primary failure is what counts
				return
			}
		})
		return nil
	})
	if res.err != nil {
		return res.sig, res.err
	}
	if perr != nil {
		msg := perr.Error()
		if strings.Contains(msg, "deadlock") || strings.Contains(msg, "blocked goroutines") {
			return "goroutines-remain-at-end", fmt.Errorf("goroutines remain blocked after all connections ended and the server shut down: %v\n%s", perr, census.Dump("kmip-go/kmipserver"))
		}
		return "bubble-panic", perr
	}
	return "", nil
}

// ---------------------------------------------------------------------------
// Generator

func drawOutcomes(rt *rapid.T) []string {
	n := rapid.SampledFrom([]int{1, 1, 1, 2, 3}).Draw(rt, "items")
	var out []string
	for i := 0; i < n; i++ {
		switch rapid.IntRange(0, 9).Draw(rt, "outcome") {
		case 0:
			out = append(out, "typed")
		case 1:
			if k := rapid.SampledFrom(plainErrorKinds).Draw(rt, "plainerr"); k != "" {
				out = append(out, "plain:"+k)
			} else {
				out = append(out, "plain")
			}
		case 2:
			out = append(out, "panic:"+rapid.SampledFrom(panicKinds).Draw(rt, "panicval"))
		case 3:
			out = append(out, fmt.Sprintf("slow:%d:%t", rapid.SampledFrom([]int{1, 50, 1000}).Draw(rt, "ms"), rapid.Bool().Draw(rt, "honour")))
		case 4:
			out = append(out, rapid.SampledFrom([]string{"critical-extension", "ok-extension", "unrouted"}).Draw(rt, "dispatch"))
		default:
			out = append(out, "ok")
		}
	}
	return out
}

func drawC08(rt *rapid.T) c08Case {
	var c c08Case
	c.CloseErrors = rapid.IntRange(0, 3).Draw(rt, "close-errors") == 0
	nconn := rapid.IntRange(1, 4).Draw(rt, "connections")
	nsteps := rapid.IntRange(2, 18).Draw(rt, "steps")
	for i := 0; i < nconn; i++ {
		c.Steps = append(c.Steps, c08Step{Conn: i, Op: "connect"})
	}
	for i := 0; i < nsteps; i++ {
		s := c08Step{Conn: rapid.IntRange(0, nconn-1).Draw(rt, "conn")}
		switch rapid.IntRange(0, 17).Draw(rt, "op") {
		case 17:
			s.Op = "route"
		case 16:
			// nothing happens for a while (fake time): connections age and idle
			s.Op, s.Kind = "idle", rapid.SampledFrom([]string{"6s", "61s", "5m", "2h"}).Draw(rt, "idle")
		case 0, 1, 2, 3, 4:
			s.Op, s.Requests = "request", [][]string{drawOutcomes(rt)}
			s.Pad = rapid.SampledFrom([]int{0, 0, 0, 200, 450, 700, 1500, 3000, 9000, 70000}).Draw(rt, "pad")
		case 5, 6:
			s.Op = "pipeline"
			k := rapid.IntRange(2, 4).Draw(rt, "pipelined")
			for j := 0; j < k; j++ {
				s.Requests = append(s.Requests, drawOutcomes(rt))
			}
		case 7:
			s.Op, s.Requests, s.N = "partial", [][]string{drawOutcomes(rt)}, rapid.IntRange(1, 200).Draw(rt, "prefix")
		case 8:
			s.Op = "complete"
		case 9:
			s.Op = "garbage"
			switch rapid.IntRange(0, 3).Draw(rt, "garbagekind") {
			case 0:
				s.Hex = hex.EncodeToString(rapid.SliceOfN(rapid.Byte(), 1, 40).Draw(rt, "bytes"))
			case 1: // header announcing more than the limit
				s.Hex = "42007801" + rapid.SampledFrom([]string{"7fffffff", "00100001", "ffffffff", "00200000"}).Draw(rt, "biglen")
			case 2: // complete frame of nonsense
				s.Hex = "4200780100000010" + hex.EncodeToString(rapid.SliceOfN(rapid.Byte(), 16, 16).Draw(rt, "body"))
			default: // a truncated real request followed by nothing
				b := c08Request(0, []string{"ok"})
				s.Hex = hex.EncodeToString(b[:rapid.IntRange(1, len(b)-1).Draw(rt, "cut")])
			}
		case 10, 11:
			s.Op, s.Kind = "undecodable", rapid.SampledFrom(undecodableKinds).Draw(rt, "kind")
		case 12:
			s.Op = "halfclose"
		case 13:
			s.Op = "close"
		case 14:
			s.Op = "stall"
		default:
			s.Op = "unstall"
		}
		if (s.Op == "close" || s.Op == "halfclose" || s.Op == "garbage") && rapid.Bool().Draw(rt, "during") {
			s.During = true
		}
		c.Steps = append(c.Steps, s)
		if s.Op == "close" && rapid.Bool().Draw(rt, "reconnect") {
			// a closed slot can be reused by a new connection under a new id
			c.Steps = append(c.Steps, c08Step{Conn: nconn, Op: "connect"})
			nconn++
		}
		if rapid.IntRange(0, 11).Draw(rt, "rejected") == 0 {
			// a connection that the server's connect hook refuses; the client may still send on it
			c.Steps = append(c.Steps, c08Step{Conn: nconn, Op: "connect-rejected"})
			nconn++
		}
	}
	if rapid.IntRange(0, 3).Draw(rt, "hook") == 0 {
		c.HookClose = rapid.IntRange(1, 4).Draw(rt, "hookat")
	}
	return c
}

func c08NonTrivial(c c08Case) bool {
	conns := map[int]bool{}
	faults := 0
	for _, s := range c.Steps {
		conns[s.Conn] = true
		switch s.Op {
		case "garbage", "undecodable", "partial", "halfclose", "stall", "connect-rejected":
			faults++
		case "close":
			if s.During {
				faults++
			}
		}
		for _, r := range s.Requests {
			for _, o := range r {
				if strings.HasPrefix(o, "panic") {
					faults++
				}
			}
		}
	}
	if c.HookClose > 0 {
		faults++
	}
	return len(conns) >= 2 && faults >= 1
}

func TestC08Availability(t *testing.T) {
	const name = "TestC08Availability"
	rec := evid.New("C08", name, "state-machine scripts over 1..4+ client connections (some refused by the server's connect hook) to a real kmipserver.Server on an in-memory listener (in a quarter of the cases the accepted connections report an error from Close, as TLS connections to a vanished peer do) inside a testing/synctest bubble (fake clock, quiescence detection): connect, whole request (1..3 items with outcomes ok / typed error / plain error (errors.New, a nil pointer in an error interface, an error whose Error method panics) / panic with string|error|int|Stringer|nil|slice|map|func|slice-typed error|struct holding a slice|pointer|NaN|run-time error|an error or Stringer whose method panics, a nil pointer in an error interface / slow honouring or ignoring its context), "+
		"pipelined requests, partial message + completion, garbage (random bytes, oversize announcement, nonsense frame, truncated request), correctly framed but undecodable message (9 kinds), half close, close (also while a handler or a response write is in progress), stalled reader, and closing exactly when the response is about to be handed to the write loop (yield-point hook); "+
		"after every step: responses match the model one-to-one and in order, census of accept/handleConn/readloop/writeloop goroutines never exceeds the number of live connections (per loop kind), a probe connection is served; at the end nothing remains; "+
		"non-trivial = >= 2 connections and >= 1 fault; distinct by script").Attach(t)
	if rp := evid.LoadReplay(name); rp != nil {
		var c c08Case
		if err := json.Unmarshal(rp.Case, &c); err != nil {
			t.Fatal(err)
		}
		if sig, err := c08Run(t, c); err != nil {
			t.Fatalf("VERIF-FAIL property=C08 test=%s sig=%s replay=: %v", name, sig, err)
		}
		return
	}
	rapid.Check(t, func(rt *rapid.T) {
		c := drawC08(rt)
		key, _ := json.Marshal(c)
		var labels []string
		for _, s := range c.Steps {
			labels = append(labels, "op="+s.Op)
		}
		if c.HookClose > 0 {
			labels = append(labels, "hook-close")
		}
		rec.Case(c08NonTrivial(c), key, labels...)
		if c08NonTrivial(c) && rec.WantSample() && len(key) < 1500 {
			rec.Sample(c)
		}
		evid.Journal("C08", name, c)
		if sig, err := c08Run(t, c); err != nil {
			rec.Fail(rt, name, sig, err, c)
		}
	})
}
