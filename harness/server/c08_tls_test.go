package server

import (
	"crypto/ecdsa"
	"crypto/elliptic"
	"crypto/rand"
	"crypto/tls"
	"crypto/x509"
	"crypto/x509/pkix"
	"encoding/binary"
	"encoding/json"
	"fmt"
	"io"
	"math/big"
	"net"
	"strings"
	"sync"
	"testing"
	"testing/synctest"
	"time"

	"github.com/ovh/kmip-go/kmipserver"
	"pgregory.net/rapid"

	"verif/harness/census"
	"verif/harness/evid"
	"verif/harness/memnet"
	"verif/harness/ttlvref"
)

// The server treats connections handed out by a TLS listener specially (it runs the handshake itself). Peers that
// misbehave during the handshake are client behaviour like any other: they must not keep well-behaved clients from
// being served.

type c08TLSPeer struct {
	// good: handshake, then Requests requests, each answered before the next is sent
	// silent: connects and never sends a byte | hello-then-stall: sends its ClientHello and never reads the answer
	// garbage: sends bytes that are no TLS record | close-at-once: connects and closes | close-after-hello
	Kind     string `json:"kind"`
	Requests int    `json:"requests,omitempty"`
	// IdleMs[r]: (good peers) the connection stays idle this long before request r is sent (fake time)
	IdleMs []int `json:"idle_ms_before_request,omitempty"`
}

type c08TLSCase struct {
	Peers []c08TLSPeer `json:"peers"` // connect in this order, each after the previous one has made its first move
}

var (
	tlsOnce sync.Once
	tlsCfg  *tls.Config
)

func testTLSConfig() *tls.Config {
	tlsOnce.Do(func() {
		key, err := ecdsa.GenerateKey(elliptic.P256(), rand.Reader)
		if err != nil {
			panic(err)
		}
		tpl := &x509.Certificate{SerialNumber: big.NewInt(1), Subject: pkix.Name{CommonName: "verif"}, NotBefore: time.Unix(0, 0), NotAfter: time.Date(2100, 1, 1, 0, 0, 0, 0, time.UTC),
			KeyUsage: x509.KeyUsageDigitalSignature, ExtKeyUsage: []x509.ExtKeyUsage{x509.ExtKeyUsageServerAuth}, DNSNames: []string{"verif"}}
		der, err := x509.CreateCertificate(rand.Reader, tpl, tpl, &key.PublicKey, key)
		if err != nil {
			panic(err)
		}
		tlsCfg = &tls.Config{Certificates: []tls.Certificate{{Certificate: [][]byte{der}, PrivateKey: key}}, MinVersion: tls.VersionTLS12}
	})
	return tlsCfg
}

// tlsListener hands out TLS server connections over memnet pipes, like tls.NewListener over a TCP listener.
type tlsListener struct {
	*memnet.Listener
	cfg *tls.Config
}

func (l tlsListener) Accept() (net.Conn, error) {
	c, err := l.Listener.Accept()
	if err != nil {
		return nil, err
	}
	return tls.Server(c, l.cfg), nil
}

func readFrameFrom(r io.Reader) ([]byte, error) {
	hdr := make([]byte, 8)
	if _, err := io.ReadFull(r, hdr); err != nil {
		return nil, err
	}
	n := int(binary.BigEndian.Uint32(hdr[4:]))
	body := make([]byte, n+(8-n%8)%8)
	if _, err := io.ReadFull(r, body); err != nil {
		return nil, err
	}
	return append(hdr, body...), nil
}

func c08TLSBubble(c c08TLSCase) (sig string, err error) {
	ln := tlsListener{memnet.NewListener(), testTLSConfig()}
	srv := kmipserver.NewServer(ln, c08Executor())
	served := make(chan error, 1)
	go func() { served <- srv.Serve() }()
	var mu sync.Mutex
	answered := make([]int, len(c.Peers))
	problems := []string{}
	var raws []*memnet.Conn
	moved := make([]chan struct{}, len(c.Peers))
	for i := range c.Peers {
		moved[i] = make(chan struct{})
	}
	for i, p := range c.Peers {
		go func() {
			if i > 0 {
				<-moved[i-1]
			}
			var once sync.Once
			firstMove := func() { once.Do(func() { close(moved[i]) }) }
			defer firstMove()
			raw, derr := ln.Dial()
			if derr != nil {
				mu.Lock()
				problems = append(problems, fmt.Sprintf("peer %d (%s): dial: %v", i, p.Kind, derr))
				mu.Unlock()
				return
			}
			mu.Lock()
			raws = append(raws, raw)
			mu.Unlock()
			switch p.Kind {
			case "silent":
				firstMove()
			case "garbage":
				_, _ = raw.Write([]byte("GET / HTTP/1.1\r\nHost: verif\r\n\r\n"))
				firstMove()
			case "close-at-once":
				_ = raw.Close()
			case "hello-then-stall", "close-after-hello":
				// a real ClientHello, taken from a client handshake whose answer is never read
				tc := tls.Client(&helloOnly{Conn: raw}, &tls.Config{InsecureSkipVerify: true})
				_ = tc.Handshake() // fails as soon as it wants to read
				firstMove()
				if p.Kind == "close-after-hello" {
					_ = raw.Close()
				}
			default: // good
				firstMove() // connecting is its first move; what follows must succeed whatever the others do
				tc := tls.Client(raw, &tls.Config{InsecureSkipVerify: true})
				if herr := tc.Handshake(); herr != nil {
					mu.Lock()
					problems = append(problems, fmt.Sprintf("peer %d: TLS handshake with the server failed: %v", i, herr))
					mu.Unlock()
					return
				}
				for r := 0; r < p.Requests; r++ {
					if r < len(p.IdleMs) && p.IdleMs[r] > 0 {
						time.Sleep(time.Duration(p.IdleMs[r]) * time.Millisecond)
					}
					if _, werr := tc.Write(c08Request(i*100+r, []string{"ok"})); werr != nil {
						mu.Lock()
						problems = append(problems, fmt.Sprintf("peer %d request %d: write: %v", i, r, werr))
						mu.Unlock()
						return
					}
					raw, rerr := readFrameFrom(tc)
					if rerr != nil {
						mu.Lock()
						problems = append(problems, fmt.Sprintf("peer %d request %d: no response: %v", i, r, rerr))
						mu.Unlock()
						return
					}
					resp, _ := ttlvref.Parse(raw, ttlvref.Lenient)
					if cerr := checkResponse(resp, expectation{seq: i*100 + r, outcomes: []string{"ok"}}); cerr != nil {
						mu.Lock()
						problems = append(problems, fmt.Sprintf("peer %d request %d: %v", i, r, cerr))
						mu.Unlock()
						return
					}
					mu.Lock()
					answered[i]++
					mu.Unlock()
				}
			}
		}()
	}
	synctest.Wait()
	idle := 0
	for _, p := range c.Peers {
		for _, ms := range p.IdleMs {
			idle += ms
		}
	}
	time.Sleep(30*time.Second + time.Duration(idle)*time.Millisecond) // fake time: far more than any handshake or handler needs, plus the idle periods
	synctest.Wait()
	mu.Lock()
	for i, p := range c.Peers {
		if p.Kind == "good" && answered[i] != p.Requests {
			sig, err = "well-behaved-tls-client-not-served", fmt.Errorf("peer %d completed %d of %d requests within 30 s while other peers misbehave during their TLS handshake (%s); problems: %s\n%s",
				i, answered[i], p.Requests, describePeers(c), strings.Join(problems, "; "), census.Dump("kmip-go/kmipserver"))
			break
		}
	}
	// everybody leaves, the server shuts down: nothing may remain
	for _, r := range raws {
		_ = r.Close()
	}
	mu.Unlock()
	synctest.Wait()
	done := make(chan struct{})
	go func() { _ = srv.Shutdown(); close(done) }()
	synctest.Wait()
	time.Sleep(10 * time.Second)
	synctest.Wait()
	if err != nil {
		return sig, err
	}
	select {
	case <-done:
	default:
		return "shutdown-hangs-after-tls-peers-left", fmt.Errorf("all peers closed their connections, yet Shutdown has not returned after 10 s (%s)\n%s", describePeers(c), census.Dump("kmip-go/kmipserver"))
	}
	select {
	case <-served:
	default:
		return "serve-does-not-return", fmt.Errorf("Serve has not returned after Shutdown (%s)", describePeers(c))
	}
	cnt := census.Count("kmipserver.(*Server).handleConn", "kmipserver.(*conn).readloop", "kmipserver.(*conn).writeloop")
	if n := cnt["kmipserver.(*Server).handleConn"] + cnt["kmipserver.(*conn).readloop"] + cnt["kmipserver.(*conn).writeloop"]; n > 0 {
		return "goroutines-leaked", fmt.Errorf("%d server goroutines remain after every TLS peer left and the server shut down (%s): %v\n%s", n, describePeers(c), cnt, census.Dump("kmip-go/kmipserver"))
	}
	return "", nil
}

// helloOnly lets a TLS client write its first flight and fails every read: the peer never answers the ServerHello.
type helloOnly struct{ net.Conn }

func (h *helloOnly) Read(p []byte) (int, error) { return 0, io.ErrNoProgress }

func describePeers(c c08TLSCase) string {
	var s []string
	for _, p := range c.Peers {
		if p.Kind == "good" {
			s = append(s, fmt.Sprintf("good(%d)", p.Requests))
		} else {
			s = append(s, p.Kind)
		}
	}
	return strings.Join(s, ", ")
}

func c08TLSRun(t *testing.T, c c08TLSCase) (sig string, err error) {
	defer evid.DeadlockWatch("C08", "TestC08TLS", c, "kmip-go/kmipserver")()
	perr := safely(func() error {
		synctest.Test(t, func(st *testing.T) { sig, err = c08TLSBubble(c) })
		return nil
	})
	if err != nil {
		return sig, err
	}
	if perr != nil {
		msg := perr.Error()
		if strings.Contains(msg, "deadlock") || strings.Contains(msg, "blocked goroutines") {
			return "goroutines-remain-at-end", fmt.Errorf("goroutines remain blocked after all TLS peers left and the server shut down: %v", perr)
		}
		return "bubble-panic", perr
	}
	return "", nil
}

func TestC08TLS(t *testing.T) {
	const name = "TestC08TLS"
	rec := evid.New("C08", name, "a server on a TLS listener (memnet pipes wrapped by tls.Server, self-signed certificate) and 2..6 peers connecting one after the other, each drawn from {well-behaved TLS client doing 1..3 requests with idle periods of 0 s .. 5 min before each, silent (never sends a byte), "+
		"sends its ClientHello and never reads, sends garbage instead of a TLS record, closes at once, closes after its ClientHello}, under testing/synctest; oracle: every well-behaved client completes its handshake and gets the right answer to each request within 30 s of fake time (plus its own idle periods) whatever the others do; "+
		"after all peers left, Shutdown and Serve return and the goroutine census is 0; non-trivial = a well-behaved client connects after a peer that stalls in the handshake; distinct by case").Attach(t)
	testTLSConfig() // built once, outside any bubble
	if rp := evid.LoadReplay(name); rp != nil {
		var c c08TLSCase
		if err := json.Unmarshal(rp.Case, &c); err != nil {
			t.Fatal(err)
		}
		if sig, err := c08TLSRun(t, c); err != nil {
			t.Fatalf("VERIF-FAIL property=C08 test=%s sig=%s replay=: %v", name, sig, err)
		}
		return
	}
	kinds := []string{"good", "good", "good", "silent", "hello-then-stall", "garbage", "close-at-once", "close-after-hello"}
	rapid.Check(t, func(rt *rapid.T) {
		n := rapid.IntRange(2, 6).Draw(rt, "peers")
		var c c08TLSCase
		stalled, nt := false, false
		for i := 0; i < n; i++ {
			p := c08TLSPeer{Kind: rapid.SampledFrom(kinds).Draw(rt, "kind")}
			if p.Kind == "good" {
				p.Requests = rapid.IntRange(1, 3).Draw(rt, "requests")
				for r := 0; r < p.Requests; r++ {
					p.IdleMs = append(p.IdleMs, rapid.SampledFrom([]int{0, 0, 0, 4000, 6000, 61000, 300000}).Draw(rt, "idle"))
				}
				if stalled {
					nt = true
				}
			}
			if p.Kind == "silent" || p.Kind == "hello-then-stall" {
				stalled = true
			}
			c.Peers = append(c.Peers, p)
		}
		key, _ := json.Marshal(c)
		rec.Case(nt, key, fmt.Sprintf("good-after-stalled=%v", nt))
		rec.Eval(n)
		if nt && rec.WantSample() {
			rec.Sample(c)
		}
		if sig, err := c08TLSRun(t, c); err != nil {
			rec.Fail(rt, name, sig, err, c)
		}
	})
}
