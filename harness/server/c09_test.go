package server

import (
	"context"
	"encoding/json"
	"errors"
	"fmt"
	"strings"
	"sync"
	"testing"

	kmip "github.com/ovh/kmip-go"
	"github.com/ovh/kmip-go/kmipserver"
	"github.com/ovh/kmip-go/payloads"
	"github.com/ovh/kmip-go/ttlv"
	"pgregory.net/rapid"

	"verif/harness/evid"
)

// Outcomes of a batch item.
const (
	oSuccess  = "success"
	oTyped    = "typed-error"
	oPlain    = "plain-error"
	oPanic    = "panic"
	oUnrouted = "unrouted"
	oCritical = "critical-extension"
	// a Discover Versions item: answered by the executor itself (no user handler), successful
	oDiscover = "discover-versions"
	// an item that a batch item middleware (an access filter) refuses with a failed response item of its own and a nil
	// error: it has failed like any other, no handler runs for it
	oRefused = "refused-by-middleware"
)

var outcomes = []string{oSuccess, oTyped, oPlain, oPanic, oUnrouted, oCritical, oDiscover, oRefused, oVendor}

// oVendor: an item of a vendor operation (0x80000041) the application has a route for; its handler answers with an
// UnknownPayload literal, which is how such a payload is written down when there is no type for it.
const oVendor = "vendor-operation"

type vendorHandler struct{}

func (vendorHandler) HandleOperation(ctx context.Context, req kmip.OperationPayload) (kmip.OperationPayload, error) {
	return &kmip.UnknownPayload{Fields: ttlv.Struct{{Tag: 0x540001, Value: int32(7)}}}, nil
}

type c09Case struct {
	Outcomes []string `json:"item_outcomes"`
	Option   int      `json:"option"`  // 0 unset, 1 Continue, 2 Stop, 3 Undo
	Version  string   `json:"version"` // supported | unsupported | restricted-in | restricted-out (label, derived from the next three)
	// ReqVersion is the version in the request header ("1.3"); Supported the set given to SetSupportedProtocolVersions
	// on the executor under test (empty: the default 1.0..1.4); Others the sets given to other executors created and
	// configured in the same process just before (their configuration must not leak into this one).
	ReqVersion string     `json:"request_version"`
	Supported  []string   `json:"supported,omitempty"`
	Others     [][]string `json:"other_executors,omitempty"`
	// PriorDiscover: DiscoverVersions requests (each listing these client versions) served before the batch, by the
	// executor under test (Others empty) or by another default executor; how a batch is treated must not depend on them.
	PriorDiscover [][]string `json:"prior_discover_requests,omitempty"`
	// CancelAt: 0 = the request context stays live; -1 = it is already cancelled when HandleRequest is called; k >= 1 = it is
	// cancelled while the handler of item k-1 runs (a client that went away): what is executed and reported does not depend on it
	CancelAt int    `json:"cancel_context_at,omitempty"`
	CountOff int    `json:"batch_count_offset"`
	IDs      string `json:"ids"` // none | all | some
	PanicVal string `json:"panic_value,omitempty"`
	// PlainErr: what the items with outcome "plain error" return: "" = errors.New, typed-nil = a nil pointer of an error
	// type with pointer receiver, error-that-panics = an error whose Error method panics
	PlainErr string `json:"plain_error_value,omitempty"`
	// Transport: "" = the request is handed to HandleRequest as built; binary | xml | json = it first travels as the
	// socket server and the HTTP handler receive it: encoded, then decoded by the library into a fresh RequestMessage
	Transport string `json:"request_travels_as,omitempty"`
	// CustomDiscover: the application has registered a route of its own for Discover Versions (which then takes the place of
	// the built-in answer): answers | fails (returns an error) | panics. An operation handler like any other.
	CustomDiscover string `json:"application_discover_versions_route,omitempty"`
}

type stringer struct{ s string }

func (s stringer) String() string { return s.s }

// invocation log, keyed by a per-request token carried in the context-independent identifier
type callLog struct {
	mu    sync.Mutex
	calls []int
	// onCall, if set, runs inside the handler of every item that reaches one (used to cancel the request context mid-batch)
	onCall func(idx int)
}

func newExecutor(log *callLog, panicVal string, plainErr ...string) *kmipserver.BatchExecutor {
	exec := kmipserver.NewBatchExecutor()
	exec.BatchItemUse(func(next kmipserver.BatchItemNext, ctx context.Context, bi *kmip.RequestBatchItem) (*kmip.ResponseBatchItem, error) {
		if pl, ok := bi.RequestPayload.(*payloads.ActivateRequestPayload); ok && strings.HasSuffix(pl.UniqueIdentifier, ":"+oRefused) {
			return &kmip.ResponseBatchItem{Operation: bi.Operation, UniqueBatchItemID: bi.UniqueBatchItemID, ResultStatus: kmip.ResultStatusOperationFailed,
				ResultReason: kmip.ResultReasonPermissionDenied, ResultMessage: "refused by the access filter"}, nil
		}
		return next(ctx, bi)
	})
	exec.Route(kmip.Operation(0x80000041), vendorHandler{})
	exec.Route(kmip.OperationActivate, kmipserver.HandleFunc(func(ctx context.Context, req *payloads.ActivateRequestPayload) (*payloads.ActivateResponsePayload, error) {
		// identifier = "<index>:<outcome>"
		parts := strings.SplitN(req.UniqueIdentifier, ":", 2)
		var idx int
		fmt.Sscanf(parts[0], "%d", &idx)
		log.mu.Lock()
		log.calls = append(log.calls, idx)
		hook := log.onCall
		log.mu.Unlock()
		if hook != nil {
			hook(idx)
		}
		switch parts[1] {
		case oTyped:
			return nil, kmipserver.Errorf(kmip.ResultReasonItemNotFound, "not found")
		case oPlain:
			if len(plainErr) > 0 {
				return nil, plainError(plainErr[0])
			}
			return nil, errors.New("plain failure")
		case oPanic:
			panicWith(panicVal)
		}
		return &payloads.ActivateResponsePayload{UniqueIdentifier: req.UniqueIdentifier}, nil
	}))
	return exec
}

func buildRequest(c c09Case) *kmip.RequestMessage {
	ver := parseVersion(c.ReqVersion)
	req := &kmip.RequestMessage{Header: kmip.RequestHeader{ProtocolVersion: ver, BatchCount: int32(len(c.Outcomes) + c.CountOff)}}
	switch c.Option {
	case 1:
		req.Header.BatchErrorContinuationOption = kmip.BatchErrorContinuationOptionContinue
	case 2:
		req.Header.BatchErrorContinuationOption = kmip.BatchErrorContinuationOptionStop
	case 3:
		req.Header.BatchErrorContinuationOption = kmip.BatchErrorContinuationOptionUndo
	}
	for i, o := range c.Outcomes {
		it := kmip.RequestBatchItem{Operation: kmip.OperationActivate, RequestPayload: &payloads.ActivateRequestPayload{UniqueIdentifier: fmt.Sprintf("%d:%s", i, o)}}
		switch o {
		case oUnrouted:
			it.Operation = kmip.OperationDestroy
			it.RequestPayload = &payloads.DestroyRequestPayload{UniqueIdentifier: fmt.Sprintf("%d:%s", i, o)}
		case oCritical:
			it.MessageExtension = &kmip.MessageExtension{VendorIdentification: "v", CriticalityIndicator: true}
		case oDiscover:
			it.Operation = kmip.OperationDiscoverVersions
			it.RequestPayload = &payloads.DiscoverVersionsRequestPayload{}
		case oVendor:
			it.Operation = kmip.Operation(0x80000041)
			it.RequestPayload = kmip.NewUnknownPayload(it.Operation, ttlv.Value{Tag: 0x540002, Value: int32(i)})
		}
		if c.IDs == "all" || (c.IDs == "some" && i%2 == 0) {
			it.UniqueBatchItemID = []byte{0xB0, byte(i)}
		}
		req.BatchItem = append(req.BatchItem, it)
	}
	return req
}

func parseVersion(s string) kmip.ProtocolVersion {
	var v kmip.ProtocolVersion
	fmt.Sscanf(s, "%d.%d", &v.ProtocolVersionMajor, &v.ProtocolVersionMinor)
	return v
}

func parseVersions(l []string) []kmip.ProtocolVersion {
	var out []kmip.ProtocolVersion
	for _, s := range l {
		out = append(out, parseVersion(s))
	}
	return out
}

var c09Default = []string{"1.0", "1.1", "1.2", "1.3", "1.4"}

// c09Supported is the model: the request version is supported iff it is in the configured set (default 1.0..1.4).
func c09Supported(c c09Case) bool {
	set := c.Supported
	if len(set) == 0 {
		set = c09Default
	}
	for _, v := range set {
		if v == c.ReqVersion {
			return true
		}
	}
	return false
}

// c09Label derives the evidence label of the version mode.
func c09Label(c *c09Case) {
	switch {
	case len(c.Supported) == 0 && c09Supported(*c):
		c.Version = "supported"
	case len(c.Supported) == 0:
		c.Version = "unsupported"
	case c09Supported(*c):
		c.Version = "restricted-in"
	default:
		c.Version = "restricted-out"
	}
}

// c09Run executes one batch against a fresh executor and compares with the model.
func c09Run(c c09Case) (sig string, err error) {
	log := &callLog{}
	for _, o := range c.Others {
		other := kmipserver.NewBatchExecutor()
		other.SetSupportedProtocolVersions(parseVersions(o)...)
	}
	exec := newExecutor(log, c.PanicVal, c.PlainErr)
	if c.CustomDiscover != "" {
		exec.Route(kmip.OperationDiscoverVersions, kmipserver.HandleFunc(func(ctx context.Context, req *payloads.DiscoverVersionsRequestPayload) (*payloads.DiscoverVersionsResponsePayload, error) {
			switch c.CustomDiscover {
			case "fails":
				return nil, kmipserver.Errorf(kmip.ResultReasonPermissionDenied, "discovery is not for everybody")
			case "panics":
				panicWith(c.PanicVal)
			}
			return &payloads.DiscoverVersionsResponsePayload{ProtocolVersion: []kmip.ProtocolVersion{kmip.V1_4}}, nil
		}))
	}
	if len(c.Supported) > 0 {
		exec.SetSupportedProtocolVersions(parseVersions(c.Supported)...)
	}
	for i, l := range c.PriorDiscover {
		target := exec
		if i%2 == 1 {
			target = kmipserver.NewBatchExecutor() // every other one goes to another default-configured executor
		}
		hv := kmip.V1_2
		if len(c.Supported) > 0 && i%2 == 0 {
			hv = parseVersion(c.Supported[0])
		}
		dm := kmip.NewRequestMessage(hv, &payloads.DiscoverVersionsRequestPayload{ProtocolVersion: parseVersions(l)})
		if perr := safely(func() error { _ = target.HandleRequest(context.Background(), &dm); return nil }); perr != nil {
			return "discover-panics", perr
		}
	}
	req := buildRequest(c)
	orig := req
	if c.Transport != "" {
		var wire []byte
		var r2 kmip.RequestMessage
		var derr error
		perr := safely(func() error {
			switch c.Transport {
			case "xml":
				wire = append([]byte{}, ttlv.MarshalXML(req)...)
				derr = ttlv.UnmarshalXML(wire, &r2)
			case "json":
				wire = append([]byte{}, ttlv.MarshalJSON(req)...)
				derr = ttlv.UnmarshalJSON(wire, &r2)
			default:
				wire = append([]byte{}, ttlv.MarshalTTLV(req)...)
				derr = ttlv.UnmarshalTTLV(wire, &r2)
			}
			return nil
		})
		if perr != nil {
			return "request-transport-panics", perr
		}
		if derr != nil && c.CountOff != 0 {
			return "", nil // refused by the decoder already: rejected as a whole, no handler executed
		}
		if derr == nil {
			req = &r2
		}
	}
	var resp *kmip.ResponseMessage
	rctx, cancel := context.WithCancel(context.Background())
	defer cancel()
	if c.CancelAt < 0 {
		cancel()
	} else if c.CancelAt > 0 {
		log.onCall = func(idx int) {
			if idx == c.CancelAt-1 {
				cancel()
			}
		}
	}
	if perr := safely(func() error { resp = exec.HandleRequest(rctx, req); return nil }); perr != nil {
		return "handlerequest-panics", perr
	}
	if resp == nil {
		return "nil-response", errors.New("HandleRequest returned nil")
	}
	n := len(c.Outcomes)
	rejected := c.Option == 3 || !c09Supported(c) || c.CountOff != 0
	if rejected {
		if len(log.calls) != 0 {
			return "rejected-request-executed-handlers", fmt.Errorf("request must be rejected as a whole but handlers ran for items %v", log.calls)
		}
		if len(resp.BatchItem) != 1 || resp.Header.BatchCount != 1 {
			return "rejected-request-item-count", fmt.Errorf("rejected request answered with %d items (batch count %d), want a single failed item", len(resp.BatchItem), resp.Header.BatchCount)
		}
		if resp.BatchItem[0].ResultStatus != kmip.ResultStatusOperationFailed {
			return "rejected-request-not-failed", fmt.Errorf("rejected request answered with status %v", resp.BatchItem[0].ResultStatus)
		}
		return "", nil
	}
	if len(resp.BatchItem) != n {
		return "item-count", fmt.Errorf("response has %d items for %d request items", len(resp.BatchItem), n)
	}
	if int(resp.Header.BatchCount) != n {
		return "batch-count", fmt.Errorf("response batch count %d for %d items", resp.Header.BatchCount, n)
	}
	if resp.Header.ProtocolVersion != orig.Header.ProtocolVersion {
		return "version-echo", fmt.Errorf("response version %v, request %v", resp.Header.ProtocolVersion, orig.Header.ProtocolVersion)
	}
	var wantCalls []int
	stopped := false
	for i, o := range c.Outcomes {
		it := resp.BatchItem[i]
		if it.Operation != orig.BatchItem[i].Operation {
			return "operation-echo", fmt.Errorf("item %d echoes operation %v, request has %v", i, it.Operation, orig.BatchItem[i].Operation)
		}
		if string(it.UniqueBatchItemID) != string(orig.BatchItem[i].UniqueBatchItemID) {
			return "id-echo", fmt.Errorf("item %d echoes id %x, request has %x", i, it.UniqueBatchItemID, orig.BatchItem[i].UniqueBatchItemID)
		}
		if stopped {
			if it.ResultStatus == kmip.ResultStatusSuccess {
				return "success-after-stop", fmt.Errorf("item %d is reported successful although the batch stopped before it", i)
			}
			continue
		}
		invoked := o == oSuccess || o == oTyped || o == oPlain || o == oPanic
		if invoked {
			wantCalls = append(wantCalls, i)
		}
		ok := o == oSuccess || o == oVendor || (o == oDiscover && (c.CustomDiscover == "" || c.CustomDiscover == "answers"))
		if ok != (it.ResultStatus == kmip.ResultStatusSuccess) {
			return "wrong-status:" + o, fmt.Errorf("item %d with outcome %s has status %v", i, o, it.ResultStatus)
		}
		if !ok && it.ResultStatus != kmip.ResultStatusOperationFailed {
			return "wrong-status:" + o, fmt.Errorf("item %d with outcome %s has status %v", i, o, it.ResultStatus)
		}
		if o == oDiscover && ok {
			// (the executor answers with a value of the request payload's Go type, which has the same wire form: not this property's business)
			if it.ResponsePayload == nil || it.ResponsePayload.Operation() != kmip.OperationDiscoverVersions {
				return "wrong-payload", fmt.Errorf("item %d (Discover Versions) carries payload %#v", i, it.ResponsePayload)
			}
		} else if o == oVendor {
			if _, isU := it.ResponsePayload.(*kmip.UnknownPayload); !isU {
				return "wrong-payload", fmt.Errorf("item %d (vendor operation) carries payload %#v", i, it.ResponsePayload)
			}
		} else if ok {
			pl, isAct := it.ResponsePayload.(*payloads.ActivateResponsePayload)
			if !isAct || pl.UniqueIdentifier != fmt.Sprintf("%d:%s", i, o) {
				return "wrong-payload", fmt.Errorf("item %d carries payload %#v", i, it.ResponsePayload)
			}
		}
		if !ok && c.Option == 2 {
			stopped = true
		}
	}
	if fmt.Sprint(log.calls) != fmt.Sprint(wantCalls) {
		return "handler-invocations", fmt.Errorf("handlers ran for items %v, want %v (each at most once, in order, none after the stop)", log.calls, wantCalls)
	}
	return "", nil
}

func c09NonTrivial(c c09Case) bool {
	n := len(c.Outcomes)
	rejected := c.Option == 3 || !c09Supported(c) || c.CountOff != 0
	if rejected {
		return n >= 1
	}
	for i, o := range c.Outcomes {
		if o != oSuccess && i < n-1 {
			return true
		}
	}
	return false
}

// version sets given to SetSupportedProtocolVersions (in the caller's order)
var c09Sets = [][]string{{"1.4", "1.2"}, {"1.2"}, {"1.0", "1.3"}, {"1.1", "1.2", "1.3"}, {"1.3", "1.4", "1.0"}, {"1.0", "1.1", "1.2", "1.3"}}

func TestC09Exhaustive(t *testing.T) {
	const name = "TestC09Exhaustive"
	rec := evid.New("C09", name, "all batches of length 0..3 over the eight item outcomes (incl. a Discover Versions item answered by the executor itself and an item refused by a batch item middleware with a failed response item and a nil error) x option {unset, Continue, Stop, Undo} x version {each of 1.0..1.4 on a default executor, unsupported 0.9/1.5/2.0/3.1, inside/outside one of six restricted sets; in a third of the cases another executor was given a restricted set just before; in a quarter one or two DiscoverVersions requests with partial version lists were served before, by this or another default executor} x batch count offset {-1,0,+1} x ids {none, all, some}; four cases in seven the request first travels through the codec (binary, XML or JSON), as the socket server and the HTTP handler receive it; in two fifths of the cases the request context is already cancelled on entry or is cancelled while the 1st..3rd handler runs, "+
		"each executed once against a fresh BatchExecutor and compared with the executable model of the KMIP batch semantics; non-trivial = >= 2 items with a failing item that is not last, or a rejected request with >= 1 item; distinct by case").Attach(t)
	rec.Exhaustive(true)
	if rp := evid.LoadReplay(name); rp != nil {
		var c c09Case
		if err := json.Unmarshal(rp.Case, &c); err != nil {
			t.Fatal(err)
		}
		if sig, err := c09Run(c); err != nil {
			t.Fatalf("VERIF-FAIL property=C09 test=%s sig=%s replay=: %v", name, sig, err)
		}
		return
	}
	var lists [][]string
	var build func(prefix []string, n int)
	build = func(prefix []string, n int) {
		if n == 0 {
			lists = append(lists, append([]string{}, prefix...))
			return
		}
		for _, o := range outcomes {
			build(append(prefix, o), n-1)
		}
	}
	for n := 0; n <= 3; n++ {
		build(nil, n)
	}
	panicVals := panicKinds
	k := 0
	for _, l := range lists {
		for opt := 0; opt <= 3; opt++ {
			for _, ver := range []string{"supported", "unsupported", "restricted-in", "restricted-out"} {
				for _, off := range []int{-1, 0, 1} {
					for _, ids := range []string{"none", "all", "some"} {
						if len(l)+off < 0 {
							continue
						}
						k++
						c := c09Case{Outcomes: l, Option: opt, CountOff: off, IDs: ids, PanicVal: panicVals[k%len(panicVals)], PlainErr: plainErrorKinds[(k/3)%len(plainErrorKinds)], Transport: []string{"", "binary", "xml", "json", "", "binary", ""}[k%7]}
						switch ver {
						case "supported":
							c.ReqVersion = c09Default[k%5]
						case "unsupported":
							c.ReqVersion = []string{"2.0", "1.5", "0.9", "3.1"}[k%4]
						case "restricted-in":
							c.Supported = c09Sets[k%len(c09Sets)]
							c.ReqVersion = c.Supported[k%len(c.Supported)]
						case "restricted-out":
							c.Supported = c09Sets[k%len(c09Sets)]
							for j := 0; j < 5; j++ {
								c.ReqVersion = c09Default[(k+j)%5]
								if !c09Supported(c) {
									break
								}
							}
						}
						if k%3 == 0 {
							c.Others = [][]string{c09Sets[(k/3)%len(c09Sets)]}
						}
						switch k % 5 {
						case 2:
							c.CancelAt = -1
						case 3:
							c.CancelAt = 1 + k%3
						}
						if k%4 == 1 {
							c.PriorDiscover = [][]string{c09Sets[(k/4)%len(c09Sets)]}
							if k%8 == 1 {
								c.PriorDiscover = append(c.PriorDiscover, c09Sets[(k/8)%len(c09Sets)])
							}
						}
						c09Label(&c)
						key, _ := json.Marshal(c)
						rec.Case(c09NonTrivial(c), key)
						if c09NonTrivial(c) && k%977 == 0 {
							rec.Sample(c)
						}
						if sig, err := c09Run(c); err != nil {
							rec.Fail(t, name, sig, err, c)
							return
						}
					}
				}
			}
		}
	}
}

func TestC09Random(t *testing.T) {
	const name = "TestC09Random"
	rec := evid.New("C09", name, "rapid: batches of 4..12 items with drawn outcomes, option, request version, supported set of this executor and of up to two other executors configured before it, up to three DiscoverVersions requests served before the batch, batch count offset (small, or making the count negative or huge), id mode, panic value, the way the request reaches the executor (as built, or through the binary, XML or JSON codec) and the moment (if any) at which the request context is cancelled; same model; "+
		"non-trivial as in TestC09Exhaustive; distinct by case").Attach(t)
	if rp := evid.LoadReplay(name); rp != nil {
		var c c09Case
		if err := json.Unmarshal(rp.Case, &c); err != nil {
			t.Fatal(err)
		}
		if sig, err := c09Run(c); err != nil {
			t.Fatalf("VERIF-FAIL property=C09 test=%s sig=%s replay=: %v", name, sig, err)
		}
		return
	}
	rapid.Check(t, func(rt *rapid.T) {
		c := c09Case{
			Outcomes:   rapid.SliceOfN(rapid.SampledFrom(outcomes), 4, 12).Draw(rt, "outcomes"),
			Option:     rapid.IntRange(0, 3).Draw(rt, "option"),
			ReqVersion: rapid.SampledFrom([]string{"1.0", "1.1", "1.2", "1.3", "1.4", "1.0", "1.1", "1.2", "1.3", "1.4", "1.5", "2.0", "0.9"}).Draw(rt, "reqversion"),
			CountOff:   rapid.SampledFrom([]int{0, 0, 0, 0, -1, 1, 5, -13, -1000000, -2147483648, 2147483600, 1 << 20}).Draw(rt, "countoff"), // (also counts that are negative or huge: a count is a number the peer chose)
			IDs:        rapid.SampledFrom([]string{"none", "all", "some"}).Draw(rt, "ids"),
			PanicVal:   rapid.SampledFrom(panicKinds).Draw(rt, "panicval"),
			PlainErr:   rapid.SampledFrom(plainErrorKinds).Draw(rt, "plainerr"),
			Transport:  rapid.SampledFrom([]string{"", "", "binary", "binary", "xml", "json"}).Draw(rt, "transport"),
		}
		c.CustomDiscover = rapid.SampledFrom([]string{"", "", "", "answers", "fails", "panics"}).Draw(rt, "custom-discover")
		if rapid.IntRange(0, 2).Draw(rt, "mostlysuccess") == 0 {
			for i := range c.Outcomes {
				if rapid.IntRange(0, 3).Draw(rt, "flip") != 0 {
					c.Outcomes[i] = oSuccess
				}
			}
		}
		if rapid.IntRange(0, 2).Draw(rt, "restrict") == 0 {
			c.Supported = rapid.SliceOfNDistinct(rapid.SampledFrom(c09Default), 1, 4, rapid.ID[string]).Draw(rt, "supported")
		}
		c.Others = rapid.SliceOfN(rapid.SliceOfNDistinct(rapid.SampledFrom(c09Default), 1, 5, rapid.ID[string]), 0, 2).Draw(rt, "others")
		c.CancelAt = rapid.SampledFrom([]int{0, 0, 0, -1, 1, 2, 3, 5}).Draw(rt, "cancelat")
		c.PriorDiscover = rapid.SliceOfN(rapid.SliceOfNDistinct(rapid.SampledFrom(c09Default), 0, 5, rapid.ID[string]), 0, 3).Draw(rt, "prior-discover")
		c09Label(&c)
		key, _ := json.Marshal(c)
		rec.Case(c09NonTrivial(c), key, fmt.Sprintf("option=%d", c.Option), "version="+c.Version, fmt.Sprintf("other-executors=%v", len(c.Others) > 0), fmt.Sprintf("prior-discover=%v", len(c.PriorDiscover) > 0))
		if c09NonTrivial(c) && rec.WantSample() {
			rec.Sample(c)
		}
		if sig, err := c09Run(c); err != nil {
			rec.Fail(rt, name, sig, err, c)
		}
	})
}
