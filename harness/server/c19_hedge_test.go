package server

import (
	"context"
	"encoding/json"
	"fmt"
	"net"
	"sync"
	"testing"
	"time"

	kmip "github.com/ovh/kmip-go"
	"github.com/ovh/kmip-go/kmipclient"
	"github.com/ovh/kmip-go/kmipserver"
	"github.com/ovh/kmip-go/payloads"
	"pgregory.net/rapid"

	"verif/harness/evid"
	"verif/harness/memnet"
)

// TestC19Hedged: a stage that invokes its continuation a second time while the first invocation is still running
// deeper in the chain (a hedged request, a retry after a per-attempt deadline whose first attempt is stuck). "Every
// invocation of the continuation runs the remainder of the chain exactly once" holds for invocations that overlap in
// time as well. The chain: K recording stages, the one at position H is the hedging stage; the last stage holds the
// first attempt back until the second attempt has come back, so the overlap does not depend on timing.
type c19HedgeCase struct {
	Chain  string `json:"chain"` // client | server-message | server-item
	Stages int    `json:"stages"`
	Hedge  int    `json:"hedging_stage"`
	// Attempts: the hedging stage invokes its continuation that many times (2..3), each in a goroutine of its own, each
	// started when the previous one has reached the last stage
	Attempts int `json:"attempts"`
}

type hedgeAttemptKey struct{}

type hedgeLog struct {
	mu      sync.Mutex
	entered map[int][]int // attempt -> stages entered, in order
	cores   map[int]int
}

func (l *hedgeLog) enter(attempt, stage int) {
	l.mu.Lock()
	l.entered[attempt] = append(l.entered[attempt], stage)
	l.mu.Unlock()
}

func c19HedgeRun(c c19HedgeCase) (sig string, err error) {
	defer evid.DeadlockWatch("C19", "TestC19Hedged", c, "kmip-go/kmip")()
	lg := &hedgeLog{entered: map[int][]int{}, cores: map[int]int{}}
	reached := make([]chan struct{}, c.Attempts+1) // closed when attempt a has reached the last stage
	returned := make([]chan struct{}, c.Attempts+1)
	for a := range reached {
		reached[a], returned[a] = make(chan struct{}), make(chan struct{})
	}
	attemptOf := func(ctx context.Context) int { a, _ := ctx.Value(hedgeAttemptKey{}).(int); return a }
	// what a stage does, whatever the chain: record; the hedging stage fans out; the last stage sequences the attempts
	type cont func(ctx context.Context) error
	stage := func(i int, ctx context.Context, next cont) error {
		a := attemptOf(ctx)
		if a > 0 {
			lg.enter(a, i)
		}
		if i == c.Hedge {
			errs := make(chan error, c.Attempts)
			for k := 1; k <= c.Attempts; k++ {
				k := k
				go func() {
					defer close(returned[k])
					errs <- next(context.WithValue(ctx, hedgeAttemptKey{}, k))
				}()
				if c.Stages-1 > c.Hedge {
					select {
					case <-reached[k]:
					case <-returned[k]:
					case <-time.After(20 * time.Second):
					}
				} else {
					<-returned[k]
				}
			}
			var first error
			for k := 0; k < c.Attempts; k++ {
				if e := <-errs; e != nil && first == nil {
					first = e
				}
			}
			return first
		}
		if i == c.Stages-1 && i > c.Hedge && a > 0 {
			// the last stage: attempt a waits here until the attempt after it has come back (the last one goes straight on)
			close(reached[a])
			if a < c.Attempts {
				select {
				case <-returned[a+1]:
				case <-time.After(20 * time.Second):
				}
			}
		}
		return next(ctx)
	}
	core := func(ctx context.Context) {
		lg.mu.Lock()
		lg.cores[attemptOf(ctx)]++
		lg.mu.Unlock()
	}
	var runErr error
	perr := safely(func() error {
		switch c.Chain {
		case "server-message":
			exec := kmipserver.NewBatchExecutor()
			exec.Route(kmip.OperationActivate, kmipserver.HandleFunc(func(ctx context.Context, req *payloads.ActivateRequestPayload) (*payloads.ActivateResponsePayload, error) {
				core(ctx)
				return &payloads.ActivateResponsePayload{UniqueIdentifier: req.UniqueIdentifier}, nil
			}))
			for i := 0; i < c.Stages; i++ {
				i := i
				exec.Use(func(next kmipserver.Next, ctx context.Context, rm *kmip.RequestMessage) (*kmip.ResponseMessage, error) {
					var resp *kmip.ResponseMessage
					var mu sync.Mutex
					err := stage(i, ctx, func(cctx context.Context) error {
						r, err := next(cctx, rm)
						mu.Lock()
						resp = r
						mu.Unlock()
						return err
					})
					mu.Lock()
					defer mu.Unlock()
					return resp, err
				})
			}
			_ = exec.HandleRequest(context.Background(), mkRequest("hedged"))
		case "server-item":
			exec := kmipserver.NewBatchExecutor()
			exec.Route(kmip.OperationActivate, kmipserver.HandleFunc(func(ctx context.Context, req *payloads.ActivateRequestPayload) (*payloads.ActivateResponsePayload, error) {
				core(ctx)
				return &payloads.ActivateResponsePayload{UniqueIdentifier: req.UniqueIdentifier}, nil
			}))
			for i := 0; i < c.Stages; i++ {
				i := i
				exec.BatchItemUse(func(next kmipserver.BatchItemNext, ctx context.Context, bi *kmip.RequestBatchItem) (*kmip.ResponseBatchItem, error) {
					var resp *kmip.ResponseBatchItem
					var mu sync.Mutex
					err := stage(i, ctx, func(cctx context.Context) error {
						r, err := next(cctx, bi)
						mu.Lock()
						resp = r
						mu.Unlock()
						return err
					})
					mu.Lock()
					defer mu.Unlock()
					return resp, err
				})
			}
			_ = exec.HandleRequest(context.Background(), mkRequest("hedged"))
		default:
			srv := &echoServer{cores: map[string]int{}, log: map[string][]string{}}
			var mws []kmipclient.Middleware
			for i := 0; i < c.Stages; i++ {
				i := i
				mws = append(mws, func(next kmipclient.Next, ctx context.Context, rm *kmip.RequestMessage) (*kmip.ResponseMessage, error) {
					var resp *kmip.ResponseMessage
					var mu sync.Mutex
					err := stage(i, ctx, func(cctx context.Context) error {
						r, err := next(cctx, rm)
						mu.Lock()
						resp = r
						mu.Unlock()
						return err
					})
					mu.Lock()
					defer mu.Unlock()
					return resp, err
				})
			}
			cl, derr := kmipclient.Dial("verif", kmipclient.EnforceVersion(kmip.V1_4), kmipclient.WithMiddlewares(mws...), kmipclient.WithDialerUnsafe(func(ctx context.Context) (net.Conn, error) {
				a, b := memnet.Pipe()
				go srv.serve(b)
				return a, nil
			}))
			if derr != nil {
				return derr
			}
			defer cl.Close()
			_, runErr = cl.Roundtrip(context.Background(), mkRequest("hedged"))
			srv.mu.Lock()
			lg.mu.Lock()
			// the transport is the core: the server saw one execution per attempt
			lg.cores[-1] = srv.cores["hedged"]
			lg.mu.Unlock()
			srv.mu.Unlock()
		}
		return nil
	})
	if perr != nil {
		return "hedged-chain-panics:" + c.Chain, perr
	}
	_ = runErr
	lg.mu.Lock()
	defer lg.mu.Unlock()
	var want []int
	for i := c.Hedge + 1; i < c.Stages; i++ {
		want = append(want, i)
	}
	for a := 1; a <= c.Attempts; a++ {
		if fmt.Sprint(lg.entered[a]) != fmt.Sprint(append([]int{}, want...)) && !(len(want) == 0 && len(lg.entered[a]) == 0) {
			return "overlapping-invocation-runs-wrong-stages:" + c.Chain, fmt.Errorf("attempt %d of %d (invoked by stage %d of %d while the attempt before it was still inside the chain) entered the stages %v, the remainder of the chain is %v", a, c.Attempts, c.Hedge, c.Stages, lg.entered[a], want)
		}
		if c.Chain != "client" && lg.cores[a] != 1 {
			return "overlapping-invocation-core-executions:" + c.Chain, fmt.Errorf("attempt %d of %d ran the core handler %d times", a, c.Attempts, lg.cores[a])
		}
	}
	if c.Chain == "client" && lg.cores[-1] != c.Attempts {
		return "overlapping-invocation-core-executions:client", fmt.Errorf("%d attempts, the transport carried %d requests", c.Attempts, lg.cores[-1])
	}
	return "", nil
}

func TestC19Hedged(t *testing.T) {
	const name = "TestC19Hedged"
	rec := evid.New("C19", name, "chains of 1..5 recording stages on the client chain, the server message chain and the server batch-item chain; one stage (drawn position) invokes its continuation 2..3 times, every invocation in a goroutine of its own and started while the one before it is still inside the chain (the last stage holds an attempt until the next one has come back: the overlap is sequenced by channels, not by timing); "+
		"oracle: every invocation enters exactly the stages behind the hedging stage, in order, once, and executes the core (handler / transport) once; non-trivial = at least one stage behind the hedging one; distinct by case").Attach(t)
	if rp := evid.LoadReplay(name); rp != nil {
		var c c19HedgeCase
		if err := json.Unmarshal(rp.Case, &c); err != nil {
			t.Fatal(err)
		}
		if sig, err := c19HedgeRun(c); err != nil {
			t.Fatalf("VERIF-FAIL property=C19 test=%s sig=%s replay=: %v", name, sig, err)
		}
		return
	}
	rapid.Check(t, func(rt *rapid.T) {
		c := c19HedgeCase{Chain: rapid.SampledFrom([]string{"client", "server-message", "server-item"}).Draw(rt, "chain"), Stages: rapid.IntRange(1, 5).Draw(rt, "stages"), Attempts: rapid.IntRange(2, 3).Draw(rt, "attempts")}
		c.Hedge = rapid.IntRange(0, c.Stages-1).Draw(rt, "hedge")
		key, _ := json.Marshal(c)
		rec.Case(c.Hedge < c.Stages-1, key, "chain="+c.Chain, fmt.Sprintf("behind=%d", c.Stages-1-c.Hedge))
		if rec.WantSample() {
			rec.Sample(c)
		}
		evid.Journal("C19", name, c)
		if sig, err := c19HedgeRun(c); err != nil {
			rec.Fail(rt, name, sig, err, c)
		}
	})
}
