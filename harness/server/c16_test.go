package server

import (
	"context"
	"crypto/tls"
	"encoding/json"
	"errors"
	"fmt"
	"net"
	"strings"
	"sync"
	"sync/atomic"
	"testing"
	"testing/synctest"
	"time"

	kmip "github.com/ovh/kmip-go"
	"github.com/ovh/kmip-go/kmipserver"
	"github.com/ovh/kmip-go/payloads"
	"pgregory.net/rapid"

	"verif/harness/census"
	"verif/harness/evid"
	"verif/harness/memnet"
)

// Phase of a connection at the moment Shutdown is called.
type c16Conn struct {
	Phase     string `json:"phase"` // idle | partial | handler | stalled-response | connecting | accepted-held | closed | hook-fails | invalid-message
	HandlerMs int    `json:"handler_ms,omitempty"`
	Honours   bool   `json:"honours_context,omitempty"`
	AfterMs   int    `json:"client_acts_after_ms,omitempty"` // 0: nothing; else the client acts this long after shutdown began
	AfterAct  string `json:"client_action,omitempty"`        // send | close
	Requests  int    `json:"requests_before,omitempty"`      // completed requests before shutdown
	// Pipelined (handler phase): the client has already sent its next request when Shutdown is called, so the server's
	// read loop holds a request nobody has taken yet
	Pipelined bool `json:"next_request_already_sent,omitempty"`
	// Invalid (phase invalid-message): what the client sent instead of a request before going silent (it reads whatever
	// the server answers and keeps its side of the connection open): response-message | other-structure | oversize-header.
	// Phase hook-fails with Invalid set: the connect hook takes 10 ms to refuse the client, which has sent that already (a
	// port scanner, an HTTP client on the KMIP port). Phase handler with Pipelined and Invalid set: what the client has
	// sent behind its request is that, not a second request.
	Invalid string `json:"invalid_message,omitempty"`
}
type c16Case struct {
	Conns []c16Conn `json:"connections"`
	// SecondShutdownMs > 0: Shutdown is called a second time, that long after the first call began (possibly while the
	// first is still draining): whichever call returns, what "after shutdown returns" promises must hold at that instant
	SecondShutdownMs int `json:"second_shutdown_after_ms,omitempty"`
	// HooksReversed: WithTerminateHook is called before WithConnectHook
	HooksReversed bool `json:"terminate_hook_installed_first,omitempty"`
	// TLS: the server sits on a TLS listener and the clients speak TLS (the server then runs the handshake itself)
	TLS bool `json:"tls_listener,omitempty"`
	// ListenerClosedError: how the listener handed to the server reports that it was closed: "" = *net.OpError wrapping
	// net.ErrClosed (the net package), bare = net.ErrClosed itself, wrapped = fmt.Errorf("...%w", net.ErrClosed)
	ListenerClosedError string `json:"listener_reports_closure_as,omitempty"`
	// ListenerCloseFails: the listener's Close does close it but reports an error of its own (Shutdown may hand that error
	// on; everything it promises about the state after its return holds all the same)
	ListenerCloseFails bool `json:"listener_close_reports_an_error,omitempty"`
	// TerminateHookMs: the terminate hook takes that long (it writes an audit record, it closes a session elsewhere); the
	// connection's goroutine is inside it meanwhile
	TerminateHookMs int `json:"terminate_hook_takes_ms,omitempty"`
}

type ctxConnID struct{}

// invalidBytes: what a client sends that is not a request message.
func invalidBytes(kind string) []byte {
	switch kind {
	case "response-message":
		rm := kmip.ResponseMessage{Header: kmip.ResponseHeader{ProtocolVersion: kmip.V1_4, BatchCount: 1}, BatchItem: []kmip.ResponseBatchItem{{Operation: kmip.OperationActivate}}}
		return ttlvMarshal(&rm)
	case "oversize-header":
		return []byte{0x42, 0x00, 0x78, 0x01, 0x00, 0x20, 0x00, 0x00, 1, 2, 3, 4, 5, 6, 7, 8}
	}
	return []byte{0x42, 0x00, 0x69, 0x01, 0x00, 0x00, 0x00, 0x10, 0x42, 0x00, 0x6A, 0x02, 0, 0, 0, 4, 0, 0, 0, 1, 0, 0, 0, 0}
}

type c16Log struct {
	mu               sync.Mutex
	connects         map[int]int // id -> successful connect hook calls
	failed           map[int]bool
	terminates       map[int]int
	termTime         map[int]time.Time
	handlerEnd       map[int]time.Time
	running          int
	maxAfter         int // handlers started after Shutdown returned
	shutdownReturned bool
	lateConnects     int                  // connect hooks that ran after Shutdown had returned
	cancelAt         map[string]time.Time // request id -> time its context was cancelled
	started          map[string]time.Time
	ended            map[string]time.Time
	seq              int
}

func c16Run(t *testing.T, c c16Case) (sig string, err error) {
	defer evid.DeadlockWatch("C16", "TestC16Shutdown", c, "kmip-go/kmipserver")()
	var res c08Result
	perr := safely(func() error {
		synctest.Test(t, func(st *testing.T) { res = c16Bubble(c) })
		return nil
	})
	if res.err != nil {
		return res.sig, res.err
	}
	if perr != nil {
		if strings.Contains(perr.Error(), "deadlock") || strings.Contains(perr.Error(), "blocked goroutines") {
			return "goroutines-remain-after-shutdown", fmt.Errorf("goroutines remain blocked after Shutdown returned and all clients went away: %v\n%s", perr, census.Dump("kmip-go/kmipserver"))
		}
		return "bubble-panic", perr
	}
	return "", nil
}

func c16Bubble(c c16Case) c08Result {
	fail := func(sig, format string, a ...any) c08Result { return c08Result{sig, fmt.Errorf(format, a...)} }
	lg := &c16Log{connects: map[int]int{}, failed: map[int]bool{}, terminates: map[int]int{}, termTime: map[int]time.Time{}, handlerEnd: map[int]time.Time{},
		cancelAt: map[string]time.Time{}, started: map[string]time.Time{}, ended: map[string]time.Time{}}
	// which accepted connection fails its connect hook: by accept order
	failHook := map[int]bool{}
	slowHook := map[int]bool{}
	order := 0
	for i, cc := range c.Conns {
		if cc.Phase == "closed" || cc.Phase == "connecting" || cc.Phase == "accepted-held" {
			// "closed" connections do connect (and close) before shutdown; "connecting" ones dial during shutdown
		}
		_ = i
	}
	exec := kmipserver.NewBatchExecutor()
	exec.Route(kmip.OperationActivate, kmipserver.HandleFunc(func(ctx context.Context, req *payloads.ActivateRequestPayload) (*payloads.ActivateResponsePayload, error) {
		id, _ := ctx.Value(ctxConnID{}).(int)
		var ms int
		var honour bool
		parts := strings.Split(req.UniqueIdentifier, "|")
		fmt.Sscanf(parts[1], "%d:%t", &ms, &honour)
		lg.mu.Lock()
		lg.running++
		lg.started[parts[0]] = time.Now()
		if lg.shutdownReturned {
			lg.maxAfter++
		}
		lg.mu.Unlock()
		go func() {
			<-ctx.Done()
			lg.mu.Lock()
			if _, seen := lg.cancelAt[parts[0]]; !seen {
				lg.cancelAt[parts[0]] = time.Now()
			}
			lg.mu.Unlock()
		}()
		defer func() {
			lg.mu.Lock()
			lg.running--
			lg.ended[parts[0]] = time.Now()
			lg.handlerEnd[id] = time.Now()
			lg.mu.Unlock()
		}()
		if ms > 0 {
			if honour {
				select {
				case <-time.After(time.Duration(ms) * time.Millisecond):
				case <-ctx.Done():
					return nil, ctx.Err()
				}
			} else {
				time.Sleep(time.Duration(ms) * time.Millisecond)
			}
		}
		return &payloads.ActivateResponsePayload{UniqueIdentifier: req.UniqueIdentifier}, nil
	}))
	ln := memnet.NewListener()
	ln.ClosedErr = c.ListenerClosedError
	if c.ListenerCloseFails {
		ln.CloseErr = errors.New("memnet: listener closed, but its socket file could not be removed")
	}
	connectHook := kmipserver.ConnectHook(func(ctx context.Context) (context.Context, error) {
		lg.mu.Lock()
		if lg.shutdownReturned {
			lg.lateConnects++
		}
		id := order
		order++
		bad, slow := failHook[id], slowHook[id]
		if bad {
			lg.failed[id] = true
		} else {
			lg.connects[id]++
		}
		lg.mu.Unlock()
		if bad {
			if slow {
				time.Sleep(10 * time.Millisecond)
			}
			return ctx, errors.New("connect hook refuses")
		}
		return context.WithValue(ctx, ctxConnID{}, id), nil
	})
	terminateHook := kmipserver.TerminateHook(func(ctx context.Context) {
		id, ok := ctx.Value(ctxConnID{}).(int)
		if c.TerminateHookMs > 0 {
			time.Sleep(time.Duration(c.TerminateHookMs) * time.Millisecond)
		}
		lg.mu.Lock()
		if !ok {
			id = -1
		}
		lg.terminates[id]++
		lg.termTime[id] = time.Now()
		lg.mu.Unlock()
	})
	var serverLn net.Listener = ln
	if c.TLS {
		serverLn = tlsListener{ln, testTLSConfig()}
	}
	// newPeer wraps a freshly dialled connection (TLS client over it if the case says so)
	newPeer := func(conn *memnet.Conn) *peer {
		p := &peer{c: conn, gate: make(chan struct{}, 1)}
		if c.TLS {
			p.rw = tls.Client(conn, &tls.Config{InsecureSkipVerify: true})
		}
		return p
	}
	srv := kmipserver.NewServer(serverLn, exec)
	if c.HooksReversed {
		// the two setters are independent: the order in which they are called must not matter
		srv = srv.WithTerminateHook(terminateHook).WithConnectHook(connectHook)
	} else {
		srv = srv.WithConnectHook(connectHook).WithTerminateHook(terminateHook)
	}
	serveRes := make(chan error, 1)
	go func() { serveRes <- srv.Serve() }()

	type client struct {
		p        *peer
		spec     c16Conn
		id       int // accept order
		inflight string
		sent     int
	}
	var clients []*client
	reqSeq := 0
	mkReq := func(ms int, honour bool) ([]byte, string) {
		reqSeq++
		rid := fmt.Sprintf("q%d", reqSeq)
		m := kmip.NewRequestMessage(kmip.V1_4, &payloads.ActivateRequestPayload{UniqueIdentifier: fmt.Sprintf("%s|%d:%t", rid, ms, honour)})
		return ttlvMarshal(&m), rid
	}
	accepted := 0
	for _, cc := range c.Conns {
		if cc.Phase == "connecting" || cc.Phase == "accepted-held" {
			clients = append(clients, &client{spec: cc, id: -1})
			continue
		}
		if cc.Phase == "tls-silent" && !c.TLS {
			cc.Phase = "idle" // without TLS a connected, silent client is an idle one
		}
		if cc.Phase == "tls-silent" {
			// connected to the TLS listener and silent: the handshake the server runs for it never gets a byte (a port
			// scanner, a load balancer's TCP health check, a peer that is stuck)
			conn, err := ln.Dial()
			if err != nil {
				return fail("connect-refused", "%v", err)
			}
			clients = append(clients, &client{p: &peer{c: conn, gate: make(chan struct{}, 1)}, spec: cc, id: -1})
			synctest.Wait()
			continue
		}
		if cc.Phase == "hook-fails" {
			failHook[accepted] = true
			slowHook[accepted] = cc.Invalid != ""
		}
		conn, err := ln.Dial()
		if err != nil {
			return fail("connect-refused", "%v", err)
		}
		cl := &client{p: newPeer(conn), spec: cc, id: accepted}
		w := cl.p.stream()
		accepted++
		go cl.p.collect()
		clients = append(clients, cl)
		synctest.Wait()
		// completed requests before shutdown
		if cc.Phase != "hook-fails" {
			for r := 0; r < cc.Requests; r++ {
				b, _ := mkReq(0, true)
				_, _ = w.Write(b)
				cl.sent++
				synctest.Wait()
			}
		}
		switch cc.Phase {
		case "partial":
			b, _ := mkReq(0, true)
			_, _ = w.Write(b[:len(b)/2])
		case "handler":
			b, rid := mkReq(cc.HandlerMs, cc.Honours)
			cl.inflight = rid
			_, _ = w.Write(b)
			cl.sent++
			if cc.Pipelined {
				synctest.Wait() // the first request is in its handler
				b2, _ := mkReq(0, true)
				if cc.Invalid != "" {
					b2 = invalidBytes(cc.Invalid)
				}
				_, _ = w.Write(b2)
			}
		case "stalled-response":
			cl.p.stalled.Store(true)
			// the client stops reading and the server-to-client direction gets a tiny window, so that the response write blocks
			b, rid := mkReq(0, true)
			cl.inflight = rid
			setPeerWindow(conn, 8)
			conn.PauseReads()
			_, _ = w.Write(b)
			cl.sent++
		case "closed":
			cl.p.mu.Lock()
			cl.p.closed = true
			cl.p.mu.Unlock()
			conn.Close()
		case "invalid-message":
			_, _ = w.Write(invalidBytes(cc.Invalid))
		case "hook-fails":
			if cc.Invalid != "" {
				// the connect hook is still making up its mind
				_, _ = w.Write(invalidBytes(cc.Invalid))
			}
		}
		synctest.Wait()
	}
	// a connection that Accept has returned but Serve has not registered yet when Shutdown starts: the accept loop is
	// held at the yield point between the two (the first such connection only; the loop is a single goroutine)
	var release chan struct{}
	for _, cl := range clients {
		if cl.spec.Phase == "accepted-held" && release == nil {
			release = make(chan struct{})
			var armed atomic.Bool
			armed.Store(true)
			rel := release
			kmipserver.SetVerifYield(func(point string) {
				if point == "kmipserver.serve.accepted" && armed.CompareAndSwap(true, false) {
					<-rel
				}
			})
			defer kmipserver.SetVerifYield(nil)
			cl := cl
			cl.spec.Phase = "accepted-held-first"
			go func() {
				conn, err := ln.Dial()
				if err != nil {
					return
				}
				cl.p = newPeer(conn)
				go cl.p.collect()
			}()
			synctest.Wait()
		}
	}
	// shutdown begins
	t0 := time.Now()
	shutdownDone := make(chan error, 1)
	go func() {
		err := srv.Shutdown()
		// recorded by the goroutine that called Shutdown, at once: hooks and handlers compare against it
		lg.mu.Lock()
		lg.shutdownReturned = true
		lg.mu.Unlock()
		shutdownDone <- err
	}()
	if release != nil {
		// Shutdown runs as far as it can (to its wait for the registered connections, or to its end), then the accept loop goes on
		synctest.Wait()
		close(release)
	}
	secondBad := make(chan string, 1)
	if c.SecondShutdownMs > 0 {
		go func() {
			time.Sleep(time.Duration(c.SecondShutdownMs) * time.Millisecond)
			_ = srv.Shutdown()
			lg.mu.Lock()
			defer lg.mu.Unlock()
			if lg.running != 0 {
				secondBad <- fmt.Sprintf("the second Shutdown call (made %d ms after the first) returned %.1f s after shutdown began while %d handler(s) were still running", c.SecondShutdownMs, time.Since(t0).Seconds(), lg.running)
				return
			}
			for id, n := range lg.connects {
				if n > 0 && lg.terminates[id] == 0 {
					secondBad <- fmt.Sprintf("the second Shutdown call (made %d ms after the first) returned %.1f s after shutdown began although connection %d has not been terminated (connect hook succeeded, terminate hook has not run)", c.SecondShutdownMs, time.Since(t0).Seconds(), id)
					return
				}
			}
		}()
	}
	// clients that connect while the server shuts down
	for _, cl := range clients {
		if cl.spec.Phase == "connecting" || cl.spec.Phase == "accepted-held" {
			cl := cl
			go func() {
				conn, err := ln.Dial()
				if err != nil {
					return
				}
				lg.mu.Lock()
				// its accept order is whatever the hook assigns next; remember the peer only
				lg.mu.Unlock()
				cl.p = newPeer(conn)
				go cl.p.collect()
			}()
		}
	}
	// clients acting after shutdown began
	for _, cl := range clients {
		if cl.spec.AfterMs > 0 && cl.p != nil {
			cl := cl
			go func() {
				time.Sleep(time.Duration(cl.spec.AfterMs) * time.Millisecond)
				switch cl.spec.AfterAct {
				case "send":
					b, _ := mkReq(0, true)
					_, _ = cl.p.stream().Write(b)
				case "close":
					cl.p.mu.Lock()
					cl.p.closed = true
					cl.p.mu.Unlock()
					cl.p.c.Close()
				}
			}()
		}
	}
	var serr error
	select {
	case serr = <-shutdownDone:
	case <-time.After(time.Minute):
		return fail("shutdown-hangs", "Shutdown has not returned after one (fake) minute\n%s", census.Dump("kmip-go/kmipserver"))
	}
	tEnd := time.Now()
	lg.mu.Lock()
	lg.shutdownReturned = true
	running := lg.running
	lg.mu.Unlock()
	if serr != nil && !(c.ListenerCloseFails && strings.Contains(serr.Error(), "socket file could not be removed")) {
		return fail("shutdown-error", "%v", serr)
	}
	// at the instant Shutdown returns
	if running != 0 {
		return fail("handler-running-after-shutdown", "%d handlers still running when Shutdown returned (%.1fs after it began)", running, tEnd.Sub(t0).Seconds())
	}
	if _, err := ln.Dial(); err == nil {
		return fail("listener-open-after-shutdown", "a connection was accepted after Shutdown returned")
	}
	// Shutdown and Serve are not synchronised with each other: let the goroutines that Shutdown has already
	// released run to their end (no fake time passes in Wait)
	synctest.Wait()
	lg.mu.Lock()
	late := lg.lateConnects
	lg.mu.Unlock()
	if late != 0 {
		return fail("connection-served-after-shutdown-returned", "%d connection(s) reached their connect hook (per-connection goroutines started) after Shutdown had returned", late)
	}
	select {
	case e := <-serveRes:
		if !errors.Is(e, kmipserver.ErrShutdown) {
			return fail("serve-wrong-error", "Serve returned %v, want ErrShutdown", e)
		}
	default:
		return fail("serve-not-returned", "Serve has not returned when Shutdown returned")
	}
	cnt := census.Count("kmipserver.(*Server).handleConn", "kmipserver.(*conn).readloop", "kmipserver.(*conn).writeloop", "kmipserver.(*Server).Serve")
	for k, v := range cnt {
		if v != 0 {
			return fail("goroutines-after-shutdown:"+k[strings.LastIndexByte(k, '.')+1:], "%d goroutines in %s when Shutdown returned\n%s", v, k, census.Dump(k))
		}
	}
	// later: nothing starts again
	time.Sleep(5 * time.Second)
	synctest.Wait()
	lg.mu.Lock()
	defer lg.mu.Unlock()
	if lg.maxAfter != 0 || lg.running != 0 {
		return fail("handler-started-after-shutdown", "%d handlers started after Shutdown returned", lg.maxAfter)
	}
	// in-flight requests: answered completely, or cancelled no earlier than the grace period
	for _, cl := range clients {
		if cl.inflight == "" || cl.p == nil {
			continue
		}
		cl.p.mu.Lock()
		got := len(cl.p.responses)
		stalled := cl.p.stalled.Load()
		cl.p.mu.Unlock()
		answered := got >= cl.sent
		if stalled {
			answered = false // a reader that never reads cannot hold the response; only the cancellation rule applies
		}
		if answered {
			continue
		}
		st, started := lg.started[cl.inflight]
		if !started {
			if cl.spec.Phase == "stalled-response" {
				continue
			}
			return fail("inflight-request-never-handled", "request %s was sent before shutdown but never reached its handler nor got an answer", cl.inflight)
		}
		_ = st
		ca, cancelled := lg.cancelAt[cl.inflight]
		clientClosedEarly := cl.spec.AfterAct == "close" && cl.spec.AfterMs > 0 && cl.spec.AfterMs < 3000
		if cl.spec.Phase == "stalled-response" || clientClosedEarly {
			continue // the client itself gave up / never read
		}
		if !cancelled {
			return fail("inflight-neither-answered-nor-cancelled", "request %s: no response at the client and its context was never cancelled", cl.inflight)
		}
		if ca.Sub(t0) < 3*time.Second {
			return fail("cancelled-before-grace-period", "request %s was cancelled %.3fs after shutdown began (grace period is 3 s) and was not answered", cl.inflight, ca.Sub(t0).Seconds())
		}
	}
	// hook pairing
	for id, n := range lg.connects {
		if n != 1 {
			return fail("connect-hook-count", "connection %d: %d connect hook calls", id, n)
		}
		if lg.terminates[id] != 1 {
			return fail("terminate-hook-not-paired", "connection %d: connect hook succeeded, terminate hook ran %d times", id, lg.terminates[id])
		}
		if he, ok := lg.handlerEnd[id]; ok && lg.termTime[id].Before(he) {
			return fail("terminate-hook-before-last-handler", "connection %d: terminate hook ran before its last handler ended", id)
		}
	}
	for id := range lg.failed {
		if lg.terminates[id] != 0 {
			return fail("terminate-hook-after-failed-connect", "connection %d: connect hook failed but the terminate hook ran", id)
		}
	}
	if lg.terminates[-1] != 0 {
		return fail("terminate-hook-after-failed-connect", "terminate hook ran %d times with a context the connect hook never produced", lg.terminates[-1])
	}
	if c.SecondShutdownMs > 0 {
		time.Sleep(time.Duration(c.SecondShutdownMs) * time.Millisecond) // the second call has certainly been made and, the server being down, returned
		synctest.Wait()
		select {
		case msg := <-secondBad:
			return fail("second-shutdown-returns-early", "%s", msg)
		default:
		}
	}
	// all clients go away
	for _, cl := range clients {
		if cl.p != nil {
			cl.p.stalled.Store(false)
			cl.p.c.ResumeReads()
			cl.p.c.Close()
		}
	}
	synctest.Wait()
	return c08Result{}
}

func TestC16Shutdown(t *testing.T) {
	const name = "TestC16Shutdown"
	rec := evid.New("C16", name, "0..6 connections, each in a drawn phase when Shutdown is called (idle, partial message sent, request in a handler of 0 / 1 s / 2.9 s / 3.1 s / 10 s honouring or ignoring its context (optionally with the next request already sent and waiting in the server's read loop), response blocked on a non-reading client, "+
		"connecting during shutdown, accepted but not yet registered by the accept loop when Shutdown starts (the loop is held at a yield point and released once Shutdown waits or has returned), already closed, connect hook failing, connected to a TLS listener without ever sending a byte of the handshake, silent but still connected after having sent something that is not a request message (a response message, another structure, a header announcing 2 MiB) and read the server's answer), on a plain or (one case in three) a TLS listener whose Accept reports the closure as a *net.OpError, as net.ErrClosed itself or as an error wrapping it (and whose Close, in a quarter of the cases, closes but reports an error of its own), optionally a second, overlapping Shutdown call 1 / 500 / 2000 / 3500 ms after the first, with 0..2 completed requests before and an optional client action (send more / close) at 0.5 / 2 / 3.5 s after shutdown began; synctest bubble (the 3 s grace period is exact and free); "+
		"oracle at the instant Shutdown returns and after 5 more seconds: listener closed, Serve returned ErrShutdown, no handler running or started later, census 0, every in-flight request answered or cancelled no earlier than 3 s, exactly one terminate hook per successful connect hook after the connection's last handler, none otherwise; "+
		"non-trivial = a connection mid-handler and another connection in a different phase; distinct by case").Attach(t)
	if rp := evid.LoadReplay(name); rp != nil {
		var c c16Case
		if err := json.Unmarshal(rp.Case, &c); err != nil {
			t.Fatal(err)
		}
		if sig, err := c16Run(t, c); err != nil {
			t.Fatalf("VERIF-FAIL property=C16 test=%s sig=%s replay=: %v", name, sig, err)
		}
		return
	}
	testTLSConfig() // built once, outside any bubble
	phases := []string{"idle", "partial", "handler", "handler", "handler", "stalled-response", "connecting", "accepted-held", "closed", "hook-fails", "invalid-message", "tls-silent"}
	rapid.Check(t, func(rt *rapid.T) {
		var c c16Case
		n := rapid.IntRange(0, 6).Draw(rt, "connections")
		handler, other := false, false
		for i := 0; i < n; i++ {
			cc := c16Conn{Phase: rapid.SampledFrom(phases).Draw(rt, "phase"), Requests: rapid.IntRange(0, 2).Draw(rt, "before")}
			if cc.Phase == "handler" {
				cc.HandlerMs = rapid.SampledFrom([]int{0, 1000, 2900, 3100, 10000}).Draw(rt, "ms")
				cc.Honours = rapid.Bool().Draw(rt, "honours")
				cc.Pipelined = rapid.IntRange(0, 2).Draw(rt, "pipelined") == 0
				handler = true
			} else {
				other = true
			}
			if cc.Phase == "invalid-message" || (cc.Phase == "hook-fails" || cc.Pipelined) && rapid.Bool().Draw(rt, "sends-invalid") {
				cc.Invalid = rapid.SampledFrom([]string{"response-message", "other-structure", "oversize-header"}).Draw(rt, "invalid")
			}
			if rapid.IntRange(0, 2).Draw(rt, "acts") == 0 && cc.Phase != "closed" && cc.Phase != "connecting" && cc.Phase != "accepted-held" && cc.Phase != "tls-silent" {
				cc.AfterMs = rapid.SampledFrom([]int{500, 2000, 3500}).Draw(rt, "afterms")
				cc.AfterAct = rapid.SampledFrom([]string{"send", "close"}).Draw(rt, "afteract")
			}
			c.Conns = append(c.Conns, cc)
		}
		if rapid.IntRange(0, 3).Draw(rt, "second-shutdown") == 0 {
			c.SecondShutdownMs = rapid.SampledFrom([]int{1, 500, 2000, 3500}).Draw(rt, "second-shutdown-ms")
		}
		c.HooksReversed = rapid.Bool().Draw(rt, "hooks-reversed")
		c.TLS = rapid.IntRange(0, 2).Draw(rt, "tls") == 0
		c.ListenerClosedError = rapid.SampledFrom([]string{"", "", "bare", "wrapped"}).Draw(rt, "listener-closed-error")
		c.ListenerCloseFails = rapid.IntRange(0, 3).Draw(rt, "listener-close-fails") == 0
		c.TerminateHookMs = rapid.SampledFrom([]int{0, 0, 400, 5000}).Draw(rt, "terminate-hook-ms")
		key, _ := json.Marshal(c)
		var labels []string
		labels = append(labels, fmt.Sprintf("second-shutdown=%v", c.SecondShutdownMs > 0), fmt.Sprintf("hooks-reversed=%v", c.HooksReversed), fmt.Sprintf("tls=%v", c.TLS))
		for _, cc := range c.Conns {
			labels = append(labels, "phase="+cc.Phase)
		}
		rec.Case(handler && other, key, labels...)
		if handler && other && rec.WantSample() {
			rec.Sample(c)
		}
		evid.Journal("C16", name, c)
		if sig, err := c16Run(t, c); err != nil {
			rec.Fail(rt, name, sig, err, c)
		}
	})
}
