package server

import (
	"io"
	"context"
	"encoding/json"
	"errors"
	"fmt"
	"net"
	"strings"
	"sync"
	"testing"
	"time"

	kmip "github.com/ovh/kmip-go"
	"github.com/ovh/kmip-go/kmipclient"
	"github.com/ovh/kmip-go/kmipserver"
	"github.com/ovh/kmip-go/payloads"
	"github.com/ovh/kmip-go/ttlv"
	"pgregory.net/rapid"

	"verif/harness/evid"
	"verif/harness/memnet"
)

// A stage program: how a middleware uses its continuation.
type callSpec struct {
	SubMsg bool `json:"substitute_message"`
	Mark   bool `json:"derive_context"`
	// Detach: the context passed on is not derived from the one received (built from context.Background(), carrying
	// the same values): it is still "the context passed on by the predecessor"
	Detach bool `json:"detached_context,omitempty"`
	// Ended (client chain): the context passed on is already cancelled (a stage whose own deadline has run out still
	// hands the call on). The remainder of the chain runs all the same, exactly once; only the transport, innermost, may
	// refuse to work for such a context: whatever it answers then is normalised to "ended-context" on both sides, and
	// the message the transport is given is marked so that the scripted server leaves it out of its count.
	Ended bool `json:"context_already_cancelled,omitempty"`
}
type stageProg struct {
	Calls []callSpec `json:"calls"`
	Ret   string     `json:"returns"` // last | first | substitute | error
}
type c19Case struct {
	Chain    string      `json:"chain"` // client | server-message | server-item
	Stages   []stageProg `json:"stages"`
	Requests int         `json:"concurrent_requests"`
	Clone    bool        `json:"through_a_clone"` // client chain: requests go through client.Clone()
	// PreServe: server chains: this many stages are registered before a first (warm-up) request is served, the rest after it
	PreServe int `json:"stages_registered_before_first_request"`
	// SharedList > 0: the first SharedList stages are registered with ONE variadic call from a slice that has spare
	// capacity; a sibling executor (client) is given the same slice plus a foreign stage, and the caller then goes on
	// using its slice (appends the foreign stage, overwrites the first element). None of that may reach this chain.
	SharedList int `json:"stages_registered_from_one_shared_slice,omitempty"`
	// ClosedTransport (client chain): the client is closed before the requests are made: the transport, innermost in the
	// chain, answers every execution with "closed"; the stages still run around it exactly as their programs say
	ClosedTransport bool `json:"client_closed_before_requests,omitempty"`
	// UnsupportedVersion (server message chain): the request arrives with a protocol version the executor does not
	// support. The version check is part of the core handler, innermost in the chain: the stages run as always, a stage
	// that substitutes the message (the substitutes are 1.4) gets the core's normal answer, the original gets the rejection.
	UnsupportedVersion bool `json:"request_version_unsupported,omitempty"`
	// NilItemOnError (server batch-item chain): a stage that answers with an error returns (nil, err), the way Go functions
	// usually do (a validation or authorisation stage that refuses an item has no response item to offer); otherwise it
	// returns an item of its own next to the error
	NilItemOnError bool `json:"item_stages_return_nil_with_an_error,omitempty"`
	// CorePanics (server chains): the operation handler, innermost, panics for every message; the executor turns that
	// into a failed item, which is the result the stages around it receive - they go on as their programs say
	CorePanics bool `json:"handler_panics,omitempty"`
	// Library (client chain): the library's own middlewares sit in the chain as well, each registered before the stage
	// with the given index (len(stages) = innermost): debug (ONE DebugMiddleware value, wherever it is registered - a
	// caller may well log both what it sends and what finally goes out), timeout (TimeoutMiddleware(1 min)),
	// correlation (CorrelationValueMiddleware). They pass on what they receive and hand back what they get: the stages
	// around them observe the same trace as without them.
	Library []libStage `json:"library_middlewares,omitempty"`
	// StageErrorsWrap: the errors the stages return wrap io.EOF (eof) or io.ErrClosedPipe (closed-pipe) - a stage that
	// reports the loss of a connection of its own. An error of a stage is that stage's result, whatever it wraps.
	StageErrorsWrap string `json:"stage_errors_wrap,omitempty"`
}
type libStage struct {
	Before int    `json:"registered_before_stage"`
	Kind   string `json:"kind"` // debug | timeout | correlation
}

// lockedDiscard is what the debug middleware writes to (shared by concurrent requests).
type lockedDiscard struct{ mu sync.Mutex }

func (w *lockedDiscard) Write(p []byte) (int, error) {
	w.mu.Lock()
	defer w.mu.Unlock()
	return len(p), nil
}

// registerStages hands the stages to an executor: one Use call per stage, or (SharedList) the first ones through a
// shared slice as described at c19Case.SharedList.
func registerStages[M any](use func(...M), siblingUse func(...M), mws []M, c c19Case, foreign M, warm func()) {
	k := c.SharedList
	if k > len(mws) {
		k = len(mws)
	}
	start := 0
	if k > 0 {
		if c.PreServe == 0 {
			warm()
		}
		list := make([]M, 0, len(mws)+4)
		list = append(list, mws[:k]...)
		use(list...)
		if c.PreServe > 0 && c.PreServe < k {
			warm()
		}
		start = k
		defer func() {
			// after this chain is complete: the sibling and the caller use the same slice
			siblingUse(list...)
			siblingUse(foreign)
			list = append(list, foreign)
			list[0] = foreign
			_ = list
		}()
	}
	for i := start; i < len(mws); i++ {
		if c.PreServe >= 0 && i == c.PreServe && (k == 0 || i >= k) {
			warm()
		}
		use(mws[i])
	}
}

type traceKey struct{}
type marksKey struct{}

type trace struct {
	mu     sync.Mutex
	events []string
	cores  int
}

func (t *trace) add(format string, a ...any) {
	t.mu.Lock()
	t.events = append(t.events, fmt.Sprintf(format, a...))
	t.mu.Unlock()
}

func marksOf(ctx context.Context) []string {
	m, _ := ctx.Value(marksKey{}).([]string)
	return m
}

// ---- the reference interpreter (the compositional semantics of the statement)

type modelRes struct {
	id  string
	err string
}

func (r modelRes) String() string {
	if r.err != "" && r.id != "" {
		return "err:" + r.err + "+response:" + r.id
	}
	if r.err != "" {
		return "err:" + r.err
	}
	return r.id
}

type model struct {
	corePanics  bool // the core handler panics: the stages see a failed result
	unsupported bool // the core rejects the original message (not the substituted ones) for its protocol version
	closed      bool // the core answers every execution with the closed-connection error
	progs       []stageProg
	events      []string
	cores       int
}

func (m *model) run(stage int, msg string, marks []string, ended ...bool) modelRes {
	isEnded := len(ended) > 0 && ended[0]
	if stage == len(m.progs) && isEnded {
		return modelRes{err: "ended-context"}
	}
	if stage == len(m.progs) && m.closed {
		return modelRes{err: net.ErrClosed.Error()}
	}
	if stage == len(m.progs) && m.unsupported && !strings.Contains(msg, ">m") {
		return modelRes{err: "Unsupported protocol version"}
	}
	if stage == len(m.progs) {
		n := m.cores
		m.cores++
		m.events = append(m.events, fmt.Sprintf("core(%s|%s)", msg, strings.Join(marks, ",")))
		if m.corePanics {
			return modelRes{err: "boom:" + msg}
		}
		return modelRes{id: fmt.Sprintf("core#%d(%s)", n, msg)}
	}
	p := m.progs[stage]
	m.events = append(m.events, fmt.Sprintf("enter(%d|%s|%s)", stage, msg, strings.Join(marks, ",")))
	var results []modelRes
	for j, c := range p.Calls {
		mm := msg
		if c.SubMsg {
			mm = fmt.Sprintf("%s>m%d.%d", msg, stage, j)
		}
		mk := marks
		if c.Mark {
			mk = append(append([]string{}, marks...), fmt.Sprintf("s%dc%d", stage, j))
		}
		r := m.run(stage+1, mm, mk, c.Ended || (isEnded && !c.Detach))
		m.events = append(m.events, fmt.Sprintf("back(%d,%d|%s)", stage, j, r))
		results = append(results, r)
	}
	return pick(p, stage, results)
}

func pick(p stageProg, stage int, results []modelRes) modelRes {
	switch {
	case p.Ret == "error":
		return modelRes{err: fmt.Sprintf("e%d", stage)}
	case p.Ret == "both":
		// a response AND an error (message chains): both are the stage's result, both are what its predecessor receives
		return modelRes{id: fmt.Sprintf("partial%d", stage), err: fmt.Sprintf("e%d", stage)}
	case p.Ret == "substitute" || len(results) == 0:
		return modelRes{id: fmt.Sprintf("sub%d", stage)}
	case p.Ret == "first":
		return results[0]
	default:
		return results[len(results)-1]
	}
}

// ---- instrumented stages: the same program executed through the real chain

// generic stage body; next is invoked through the callback with (ctx, msgID) and returns the observed result.
func runStage(p stageProg, stage int, ctx context.Context, msg string, call func(ctx context.Context, msg string) modelRes) modelRes {
	tr := ctx.Value(traceKey{}).(*trace)
	marks := marksOf(ctx)
	tr.add("enter(%d|%s|%s)", stage, msg, strings.Join(marks, ","))
	var results []modelRes
	for j, c := range p.Calls {
		mm := msg
		if c.SubMsg {
			mm = fmt.Sprintf("%s>m%d.%d", msg, stage, j)
		}
		cctx := ctx
		if c.Mark {
			cctx = context.WithValue(ctx, marksKey{}, append(append([]string{}, marks...), fmt.Sprintf("s%dc%d", stage, j)))
		}
		if c.Detach {
			cctx = context.WithValue(context.WithValue(context.Background(), traceKey{}, tr), marksKey{}, marksOf(cctx))
		}
		if c.Ended {
			var cancel context.CancelFunc
			cctx, cancel = context.WithCancel(cctx)
			cancel()
		}
		r := call(cctx, mm)
		tr.add("back(%d,%d|%s)", stage, j, r)
		results = append(results, r)
	}
	return pick(p, stage, results)
}

// -- server message chain

func msgID(rm *kmip.RequestMessage) string {
	if rm == nil || len(rm.BatchItem) != 1 {
		return "?"
	}
	pl, ok := rm.BatchItem[0].RequestPayload.(*payloads.ActivateRequestPayload)
	if !ok {
		return "?"
	}
	return pl.UniqueIdentifier
}

func mkRequest(id string) *kmip.RequestMessage {
	m := kmip.NewRequestMessage(kmip.V1_4, &payloads.ActivateRequestPayload{UniqueIdentifier: id})
	m.Header.ClientCorrelationValue = id
	return &m
}

func respID(resp *kmip.ResponseMessage, err error) modelRes {
	if err != nil && resp != nil {
		r := respID(resp, nil)
		return modelRes{id: r.String(), err: err.Error()}
	}
	if err != nil {
		return modelRes{err: err.Error()}
	}
	if resp == nil {
		return modelRes{id: "nil"}
	}
	if len(resp.BatchItem) == 1 {
		if resp.BatchItem[0].ResultStatus != kmip.ResultStatusSuccess {
			return modelRes{err: resp.BatchItem[0].ResultMessage}
		}
		if pl, ok := resp.BatchItem[0].ResponsePayload.(*payloads.ActivateResponsePayload); ok {
			return modelRes{id: pl.UniqueIdentifier}
		}
	}
	return modelRes{id: resp.Header.ServerCorrelationValue}
}

func mkResponse(id string) *kmip.ResponseMessage {
	return &kmip.ResponseMessage{Header: kmip.ResponseHeader{ProtocolVersion: kmip.V1_4, BatchCount: 1, TimeStamp: time.Unix(0, 0), ServerCorrelationValue: id},
		BatchItem: []kmip.ResponseBatchItem{{Operation: kmip.OperationActivate, ResponsePayload: &payloads.ActivateResponsePayload{UniqueIdentifier: id}}}}
}

// wrappedErr: an error of a stage that wraps another one (a stage that talks to something itself and reports that its own
// connection was lost): same text, errors.Is sees the cause.
type wrappedErr struct {
	text  string
	cause error
}

func (e wrappedErr) Error() string { return e.text }
func (e wrappedErr) Unwrap() error { return e.cause }

// c19Wrap: what the errors of the stages wrap while a case runs (one case at a time per process).
var c19Wrap error

func stageErr(text string) error {
	if c19Wrap != nil {
		return wrappedErr{text, c19Wrap}
	}
	return errors.New(text)
}

func toReturn(r modelRes) (*kmip.ResponseMessage, error) {
	if r.err != "" && r.id != "" {
		return mkResponse(r.id), stageErr(r.err)
	}
	if r.err != "" {
		return nil, stageErr(r.err)
	}
	return mkResponse(r.id), nil
}

func coreHandler(panics ...bool) kmipserver.OperationHandler {
	return kmipserver.HandleFunc(func(ctx context.Context, req *payloads.ActivateRequestPayload) (*payloads.ActivateResponsePayload, error) {
		tr := ctx.Value(traceKey{}).(*trace)
		tr.mu.Lock()
		n := tr.cores
		tr.cores++
		tr.events = append(tr.events, fmt.Sprintf("core(%s|%s)", req.UniqueIdentifier, strings.Join(marksOf(ctx), ",")))
		tr.mu.Unlock()
		if len(panics) > 0 && panics[0] {
			panic("boom:" + req.UniqueIdentifier)
		}
		return &payloads.ActivateResponsePayload{UniqueIdentifier: fmt.Sprintf("core#%d(%s)", n, req.UniqueIdentifier)}, nil
	})
}

func runServerMessage(c c19Case, reqIdx int) ([]string, modelRes) {
	exec := kmipserver.NewBatchExecutor()
	exec.Route(kmip.OperationActivate, coreHandler(c.CorePanics))
	var mws []kmipserver.Middleware
	for i, p := range c.Stages {
		i, p := i, p
		mws = append(mws, func(next kmipserver.Next, ctx context.Context, rm *kmip.RequestMessage) (*kmip.ResponseMessage, error) {
			var kept keptResults
			defer kept.recheck(ctx, i)
			return toReturn(runStage(p, i, ctx, msgID(rm), func(cctx context.Context, id string) modelRes {
				m := rm
				if id != msgID(rm) {
					m = mkRequest(id)
				}
				r, err := next(cctx, m)
				return kept.keep(func() modelRes { return respID(r, err) })
			}))
		})
	}
	sibling := kmipserver.NewBatchExecutor()
	registerStages(exec.Use, sibling.Use, mws, c, func(next kmipserver.Next, ctx context.Context, rm *kmip.RequestMessage) (*kmip.ResponseMessage, error) {
		foreignEvent(ctx)
		return next(ctx, rm)
	}, func() { warmUp(exec) })
	tr := &trace{}
	ctx := context.WithValue(context.Background(), traceKey{}, tr)
	req := mkRequest(fmt.Sprintf("r%d", reqIdx))
	if c.UnsupportedVersion {
		req.Header.ProtocolVersion = kmip.ProtocolVersion{ProtocolVersionMajor: 2, ProtocolVersionMinor: 0}
	}
	resp := exec.HandleRequest(ctx, req)
	return tr.events, respID(resp, nil)
}

// keptResults: what a stage got back from each invocation of its continuation must still be that after later
// invocations (a stage may answer with its first result): every result is read again when the stage is done.
type keptResults struct {
	get   []func() modelRes
	first []modelRes
}

func (k *keptResults) keep(get func() modelRes) modelRes {
	r := get()
	k.get, k.first = append(k.get, get), append(k.first, r)
	return r
}

func (k *keptResults) recheck(ctx context.Context, stage int) {
	for j, g := range k.get {
		if now := g(); now != k.first[j] {
			if tr, ok := ctx.Value(traceKey{}).(*trace); ok {
				tr.add("RESULT-OF-CALL-CHANGED-LATER(stage %d, call %d: %s became %s)", stage, j, k.first[j], now)
			}
		}
	}
}

// foreignEvent marks the trace: a stage that was never registered on this chain ran.
func foreignEvent(ctx context.Context) {
	if tr, ok := ctx.Value(traceKey{}).(*trace); ok {
		tr.mu.Lock()
		tr.events = append(tr.events, "FOREIGN-STAGE")
		tr.mu.Unlock()
	}
}

// warmUp serves one request with the stages registered so far (its trace goes to a throw-away log).
func warmUp(exec *kmipserver.BatchExecutor) {
	ctx := context.WithValue(context.Background(), traceKey{}, &trace{})
	_ = exec.HandleRequest(ctx, mkRequest("warm-up"))
}

// -- server batch-item chain

func runServerItem(c c19Case, reqIdx int) ([]string, modelRes) {
	exec := kmipserver.NewBatchExecutor()
	exec.Route(kmip.OperationActivate, coreHandler(c.CorePanics))
	itemID := func(bi *kmip.RequestBatchItem) string {
		if pl, ok := bi.RequestPayload.(*payloads.ActivateRequestPayload); ok {
			return pl.UniqueIdentifier
		}
		return "?"
	}
	itemRes := func(bi *kmip.ResponseBatchItem, err error) modelRes {
		if err != nil {
			return modelRes{err: err.Error()}
		}
		if bi == nil {
			return modelRes{id: "nil"}
		}
		if bi.ResultStatus != kmip.ResultStatusSuccess {
			return modelRes{err: bi.ResultMessage}
		}
		if pl, ok := bi.ResponsePayload.(*payloads.ActivateResponsePayload); ok {
			return modelRes{id: pl.UniqueIdentifier}
		}
		return modelRes{id: "?"}
	}
	var mws []kmipserver.BatchItemMiddleware
	for i, p := range c.Stages {
		i, p := i, p
		mws = append(mws, func(next kmipserver.BatchItemNext, ctx context.Context, bi *kmip.RequestBatchItem) (*kmip.ResponseBatchItem, error) {
			var kept keptResults
			r := runStage(p, i, ctx, itemID(bi), func(cctx context.Context, id string) modelRes {
				b := bi
				if id != itemID(bi) {
					b = &kmip.RequestBatchItem{Operation: kmip.OperationActivate, RequestPayload: &payloads.ActivateRequestPayload{UniqueIdentifier: id}}
				}
				r, err := next(cctx, b)
				return kept.keep(func() modelRes { return itemRes(r, err) })
			})
			kept.recheck(ctx, i)
			out := &kmip.ResponseBatchItem{Operation: kmip.OperationActivate}
			if r.err != "" && c.NilItemOnError {
				return nil, errors.New(r.err)
			}
			if r.err != "" {
				return out, errors.New(r.err)
			}
			out.ResponsePayload = &payloads.ActivateResponsePayload{UniqueIdentifier: r.id}
			return out, nil
		})
	}
	sibling := kmipserver.NewBatchExecutor()
	registerStages(exec.BatchItemUse, sibling.BatchItemUse, mws, c, func(next kmipserver.BatchItemNext, ctx context.Context, bi *kmip.RequestBatchItem) (*kmip.ResponseBatchItem, error) {
		foreignEvent(ctx)
		return next(ctx, bi)
	}, func() { warmUp(exec) })
	tr := &trace{}
	ctx := context.WithValue(context.Background(), traceKey{}, tr)
	resp := exec.HandleRequest(ctx, mkRequest(fmt.Sprintf("r%d", reqIdx)))
	return tr.events, respID(resp, nil)
}

// -- client chain: the transport (a scripted server over memnet) is the core

type echoServer struct {
	mu    sync.Mutex
	cores map[string]int // per request prefix
	log   map[string][]string
}

func (s *echoServer) serve(c net.Conn) {
	st := ttlv.NewStream(c, 1<<20)
	for {
		var req kmip.RequestMessage
		if err := st.Recv(&req); err != nil {
			return
		}
		id := msgID(&req)
		prefix := id
		if i := strings.IndexByte(id, '>'); i >= 0 {
			prefix = id[:i]
		}
		if strings.Contains(id, ">ended") {
			// sent under a context that was already over (callSpec.Ended): answered, not counted
			if err := st.Send(mkResponse("uncounted(" + id + ")")); err != nil {
				return
			}
			continue
		}
		s.mu.Lock()
		n := s.cores[prefix]
		s.cores[prefix]++
		s.log[prefix] = append(s.log[prefix], fmt.Sprintf("core(%s)", id))
		s.mu.Unlock()
		if err := st.Send(mkResponse(fmt.Sprintf("core#%d(%s)", n, id))); err != nil {
			return
		}
	}
}

func runClient(c c19Case) (traces [][]string, finals []modelRes, coreLogs [][]string, err error) {
	srv := &echoServer{cores: map[string]int{}, log: map[string][]string{}}
	var mws []kmipclient.Middleware
	for i, p := range c.Stages {
		i, p := i, p
		mws = append(mws, func(next kmipclient.Next, ctx context.Context, rm *kmip.RequestMessage) (*kmip.ResponseMessage, error) {
			var kept keptResults
			defer kept.recheck(ctx, i)
			return toReturn(runStage(p, i, ctx, msgID(rm), func(cctx context.Context, id string) modelRes {
				m := rm
				if id != msgID(rm) {
					m = mkRequest(id)
				}
				if i == len(c.Stages)-1 && cctx.Err() != nil {
					// the transport is asked to work under a context that is over: see callSpec.Ended
					_, _ = next(cctx, mkRequest(id+">ended"))
					return modelRes{err: "ended-context"}
				}
				r, err := next(cctx, m)
				return kept.keep(func() modelRes { return respID(r, err) })
			}))
		})
	}
	if len(c.Library) > 0 {
		debug := kmipclient.DebugMiddleware(&lockedDiscard{}, nil)
		var all []kmipclient.Middleware
		for i := 0; i <= len(mws); i++ {
			for _, l := range c.Library {
				if l.Before != i {
					continue
				}
				switch l.Kind {
				case "debug":
					all = append(all, debug)
				case "timeout":
					all = append(all, kmipclient.TimeoutMiddleware(time.Minute))
				default:
					all = append(all, kmipclient.CorrelationValueMiddleware(func() string { return "verif" }))
				}
			}
			if i < len(mws) {
				all = append(all, mws[i])
			}
		}
		mws = all
	}
	mwOpts := []kmipclient.Option{kmipclient.WithMiddlewares(mws...)}
	var shared []kmipclient.Middleware
	if k := min(c.SharedList, len(mws)); k > 0 {
		// the first k stages come from a slice with spare capacity that the caller goes on using after Dial
		shared = make([]kmipclient.Middleware, 0, len(mws)+4)
		shared = append(shared, mws[:k]...)
		mwOpts = []kmipclient.Option{kmipclient.WithMiddlewares(shared...)}
		if k < len(mws) {
			mwOpts = append(mwOpts, kmipclient.WithMiddlewares(mws[k:]...))
		}
	}
	dialer := kmipclient.WithDialerUnsafe(func(ctx context.Context) (net.Conn, error) {
		a, b := memnet.Pipe()
		go srv.serve(b)
		return a, nil
	})
	cl, derr := kmipclient.Dial("verif", append(append([]kmipclient.Option{kmipclient.EnforceVersion(kmip.V1_4)}, mwOpts...), dialer)...)
	if derr != nil {
		return nil, nil, nil, derr
	}
	if shared != nil {
		foreign := func(next kmipclient.Next, ctx context.Context, rm *kmip.RequestMessage) (*kmip.ResponseMessage, error) {
			foreignEvent(ctx)
			return next(ctx, rm)
		}
		// a sibling client gets the same slice plus a stage of its own, and the caller goes on using its slice
		if sib, serr := kmipclient.Dial("verif", kmipclient.EnforceVersion(kmip.V1_4), kmipclient.WithMiddlewares(shared...), kmipclient.WithMiddlewares(foreign), dialer); serr == nil {
			_ = sib.Close()
		}
		shared = append(shared, foreign)
		shared[0] = foreign
	}
	defer cl.Close()
	if c.Clone {
		// a clone carries the same middleware chain
		clone, cerr := cl.Clone()
		if cerr != nil {
			return nil, nil, nil, cerr
		}
		defer clone.Close()
		cl = clone
	}
	if c.ClosedTransport {
		_ = cl.Close()
	}
	traces = make([][]string, c.Requests)
	finals = make([]modelRes, c.Requests)
	var wg sync.WaitGroup
	for r := 0; r < c.Requests; r++ {
		wg.Add(1)
		go func(r int) {
			defer wg.Done()
			tr := &trace{}
			ctx := context.WithValue(context.Background(), traceKey{}, tr)
			resp, err := cl.Roundtrip(ctx, mkRequest(fmt.Sprintf("r%d", r)))
			finals[r] = respID(resp, err)
			traces[r] = tr.events
		}(r)
	}
	wg.Wait()
	for r := 0; r < c.Requests; r++ {
		coreLogs = append(coreLogs, srv.log[fmt.Sprintf("r%d", r)])
	}
	return traces, finals, coreLogs, nil
}

func c19Run(c c19Case) (sig string, err error) {
	switch c.StageErrorsWrap {
	case "eof":
		c19Wrap = io.EOF
	case "closed-pipe":
		c19Wrap = io.ErrClosedPipe
	}
	defer func() { c19Wrap = nil }()
	if len(c.Library) > 0 {
		// a stage of the library that waits for itself would hang the case for ever
		defer evid.DeadlockWatch("C19", "TestC19Chains", c, "kmip-go/kmipclient")()
	}
	type outcome struct {
		events []string
		final  modelRes
	}
	outs := make([]outcome, c.Requests)
	var perr error
	switch c.Chain {
	case "client":
		perr = safely(func() error {
			traces, finals, coreLogs, err := runClient(c)
			if err != nil {
				return err
			}
			for r := range outs {
				// merge: the client-side trace has no core events (the transport is remote); compare them separately
				outs[r] = outcome{traces[r], finals[r]}
				m := &model{progs: c.Stages, closed: c.ClosedTransport}
				m.run(0, fmt.Sprintf("r%d", r), nil)
				var wantCores []string
				for _, e := range m.events {
					if strings.HasPrefix(e, "core(") {
						wantCores = append(wantCores, e[:strings.IndexByte(e, '|')]+")")
					}
				}
				if fmt.Sprint(coreLogs[r]) != fmt.Sprint(wantCores) {
					return fmt.Errorf("CORE request %d: transport executions %v, want %v", r, coreLogs[r], wantCores)
				}
			}
			return nil
		})
	default:
		var wg sync.WaitGroup
		var mu sync.Mutex
		for r := 0; r < c.Requests; r++ {
			wg.Add(1)
			go func(r int) {
				defer wg.Done()
				e := safely(func() error {
					var ev []string
					var fin modelRes
					if c.Chain == "server-message" {
						ev, fin = runServerMessage(c, r)
					} else {
						ev, fin = runServerItem(c, r)
					}
					outs[r] = outcome{ev, fin}
					return nil
				})
				if e != nil {
					mu.Lock()
					perr = e
					mu.Unlock()
				}
			}(r)
		}
		wg.Wait()
	}
	if perr != nil {
		if strings.HasPrefix(perr.Error(), "CORE") {
			return "core-executions:" + c.Chain, perr
		}
		return "chain-panics:" + c.Chain, perr
	}
	for r := range outs {
		m := &model{progs: c.Stages, closed: c.ClosedTransport, unsupported: c.UnsupportedVersion && c.Chain == "server-message", corePanics: c.CorePanics && c.Chain != "client"}
		want := m.run(0, fmt.Sprintf("r%d", r), nil)
		wantEvents := m.events
		if c.Chain == "client" {
			var ev []string
			for _, e := range wantEvents {
				if !strings.HasPrefix(e, "core(") {
					ev = append(ev, e)
				}
			}
			wantEvents = ev
		}
		got := outs[r].events
		for i := 0; i < len(got) || i < len(wantEvents); i++ {
			var g, w string
			if i < len(got) {
				g = got[i]
			}
			if i < len(wantEvents) {
				w = wantEvents[i]
			}
			if g != w {
				kind := "order"
				switch {
				case g == "":
					kind = "missing-executions"
				case w == "":
					kind = "extra-executions"
				case strings.HasPrefix(g, "enter") && strings.HasPrefix(w, "enter") || strings.HasPrefix(g, "core") && strings.HasPrefix(w, "core"):
					kind = "message-or-context-not-passed-on"
				}
				return "trace-differs:" + c.Chain + ":" + kind, fmt.Errorf("request %d, event %d: chain did %q, the semantics require %q\n got  %v\n want %v", r, i, g, w, got, wantEvents)
			}
		}
		if c.Chain == "server-message" && want.err != "" {
			// HandleRequest turns an error of the outermost stage into an error response of its own: a response that came with it is not the caller's
			want.id = ""
		}
		if outs[r].final.String() != want.String() {
			return "final-result:" + c.Chain, fmt.Errorf("request %d: caller got %s, want %s", r, outs[r].final, want)
		}
	}
	return "", nil
}

func c19NonTrivial(c c19Case) bool {
	for i, s := range c.Stages {
		if i < len(c.Stages)-1 && len(s.Calls) >= 2 {
			return true
		}
		for _, cl := range s.Calls {
			if cl.SubMsg {
				return true
			}
		}
	}
	return false
}

func TestC19Chains(t *testing.T) {
	const name = "TestC19Chains"
	rec := evid.New("C19", name, "chains of 0..4 stages for the client Roundtrip chain, the server message chain and the server batch-item chain; each stage is a generated program: call the continuation 0..3 times, "+
		"per call pass on the received or a substituted message and the received, a derived or a detached (not derived from the received one) context, on the client chain also an already cancelled one (the inner stages run all the same; only what the transport answers under it is left open), return the last/first result, a substituted result, an error, or (message chains) a response together with an error; 1..4 concurrent requests share the chain; on the client chain 0..3 of the library's own middlewares (one DebugMiddleware value possibly registered several times, TimeoutMiddleware, CorrelationValueMiddleware) sit between the stages and must be transparent; "+
		"oracle: a recursive interpreter of the same programs predicts the exact event trace (stage entries with message and context, core executions, results seen) and the caller's result; every result a stage got back is read again when the stage ends and must be unchanged; "+
		"non-trivial = a non-last stage calls the continuation >= 2 times, or a message is substituted; distinct by case").Attach(t)
	if rp := evid.LoadReplay(name); rp != nil {
		var c c19Case
		if err := json.Unmarshal(rp.Case, &c); err != nil {
			t.Fatal(err)
		}
		if sig, err := c19Run(c); err != nil {
			t.Fatalf("VERIF-FAIL property=C19 test=%s sig=%s replay=: %v", name, sig, err)
		}
		return
	}
	rapid.Check(t, func(rt *rapid.T) {
		c := c19Case{Chain: rapid.SampledFrom([]string{"client", "server-message", "server-item"}).Draw(rt, "chain"), Requests: rapid.IntRange(1, 4).Draw(rt, "requests")}
		if c.Chain == "client" {
			c.Clone = rapid.IntRange(0, 2).Draw(rt, "clone") == 0
			c.ClosedTransport = rapid.IntRange(0, 4).Draw(rt, "closed") == 0
		}
		if c.Chain == "server-message" {
			c.UnsupportedVersion = rapid.IntRange(0, 3).Draw(rt, "unsupported-version") == 0
		}
		if c.Chain == "server-item" {
			c.NilItemOnError = rapid.Bool().Draw(rt, "nil-item-on-error")
		}
		if c.Chain != "client" {
			c.CorePanics = rapid.IntRange(0, 4).Draw(rt, "core-panics") == 0
		}
		n := rapid.IntRange(0, 4).Draw(rt, "stages")
		c.PreServe = -1
		if c.Chain != "client" && n > 0 && rapid.Bool().Draw(rt, "registerlater") {
			c.PreServe = rapid.IntRange(0, n-1).Draw(rt, "preserve")
		}
		if n > 0 && rapid.IntRange(0, 2).Draw(rt, "sharedlist") == 0 {
			c.SharedList = rapid.IntRange(1, n).Draw(rt, "sharedlen")
		}
		if c.Chain == "client" {
			for k := rapid.SampledFrom([]int{0, 0, 1, 2, 3}).Draw(rt, "library-middlewares"); k > 0; k-- {
				c.Library = append(c.Library, libStage{Before: rapid.IntRange(0, n).Draw(rt, "before"), Kind: rapid.SampledFrom([]string{"debug", "debug", "timeout", "correlation"}).Draw(rt, "libkind")})
			}
		}
		for i := 0; i < n; i++ {
			var p stageProg
			k := rapid.SampledFrom([]int{1, 1, 1, 0, 2, 2, 3}).Draw(rt, "calls")
			for j := 0; j < k; j++ {
				p.Calls = append(p.Calls, callSpec{SubMsg: rapid.IntRange(0, 3).Draw(rt, "submsg") == 0, Mark: rapid.Bool().Draw(rt, "mark"), Detach: rapid.IntRange(0, 4).Draw(rt, "detach") == 0,
					Ended: c.Chain == "client" && rapid.IntRange(0, 5).Draw(rt, "ended") == 0})
			}
			p.Ret = rapid.SampledFrom([]string{"last", "last", "last", "first", "substitute", "error", "both"}).Draw(rt, "ret")
			if p.Ret == "both" && c.Chain == "server-item" {
				p.Ret = "error" // (an item stage always returns an item together with its error: nothing new there)
			}
			c.Stages = append(c.Stages, p)
		}
		c.StageErrorsWrap = rapid.SampledFrom([]string{"", "", "eof", "closed-pipe"}).Draw(rt, "stage-errors-wrap")
		key, _ := json.Marshal(c)
		rec.Case(c19NonTrivial(c), key, "chain="+c.Chain, fmt.Sprintf("stages=%d", n))
		if c19NonTrivial(c) && rec.WantSample() {
			rec.Sample(c)
		}
		if len(c.Library) > 0 {
			evid.Journal("C19", name, c)
		}
		if sig, err := c19Run(c); err != nil {
			rec.Fail(rt, name, sig, err, c)
		}
	})
}
