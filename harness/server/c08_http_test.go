package server

import (
	"bytes"
	"encoding/hex"
	"encoding/json"
	"fmt"
	"net/http"
	"net/http/httptest"
	"strconv"
	"strings"
	"sync"
	"testing"
	"time"

	kmip "github.com/ovh/kmip-go"
	"github.com/ovh/kmip-go/kmipserver"
	"github.com/ovh/kmip-go/payloads"
	"github.com/ovh/kmip-go/ttlv"
	"pgregory.net/rapid"

	"verif/harness/census"
	"verif/harness/evid"
	"verif/harness/gen"
	"verif/harness/memnet"
	"verif/harness/ttlvref"
)

type httpCase struct {
	ContentType string `json:"content_type"`
	BodyHex     string `json:"body_hex"`
	Body        string `json:"body_text,omitempty"`
	Kind        string `json:"kind"` // valid | mutated | undecodable
	ClaimLen    int    `json:"content_length_delta"`
}

func httpRun(c httpCase) (sig string, err error) {
	body, _ := hex.DecodeString(c.BodyHex)
	h := kmipserver.NewHTTPHandler(c08Executor())
	req := httptest.NewRequest(http.MethodPost, "/kmip", bytes.NewReader(body))
	req.Header.Set("Content-Type", c.ContentType)
	req.Header.Set("Content-Length", strconv.Itoa(len(body)+c.ClaimLen))
	rw := httptest.NewRecorder()
	if perr := safely(func() error { h.ServeHTTP(rw, req); return nil }); perr != nil {
		return "http-handler-panics", perr
	}
	if rw.Code != 200 && c.Kind == "undecodable" && !strings.Contains(rw.Body.String(), "too large") {
		// a correctly delimited request (POST, accepted content type, right length) whose body cannot be decoded is
		// answered with an invalid-message response, not turned away at the HTTP level
		return "http-undecodable-not-invalid-message", fmt.Errorf("undecodable %s request answered with HTTP %d %q instead of an invalid-message response", c.ContentType, rw.Code, strings.TrimSpace(rw.Body.String()))
	}
	if rw.Code != 200 {
		return "", nil // rejected at the HTTP level
	}
	// whatever was sent, a 200 answer must be a KMIP response message in the same encoding
	var resp kmip.ResponseMessage
	var derr error
	switch c.ContentType {
	case "text/xml":
		derr = safely(func() error { return ttlv.UnmarshalXML(rw.Body.Bytes(), &resp) })
	case "application/json":
		derr = safely(func() error { return ttlv.UnmarshalJSON(rw.Body.Bytes(), &resp) })
	default:
		derr = safely(func() error { return ttlv.UnmarshalTTLV(rw.Body.Bytes(), &resp) })
	}
	if derr != nil {
		return "http-response-undecodable", fmt.Errorf("the handler's answer is not a decodable response message: %v\n%s", derr, rw.Body.String())
	}
	if c.Kind == "undecodable" {
		if len(resp.BatchItem) != 1 || resp.BatchItem[0].ResultStatus != kmip.ResultStatusOperationFailed || resp.BatchItem[0].ResultReason != kmip.ResultReasonInvalidMessage {
			return "http-undecodable-not-invalid-message", fmt.Errorf("undecodable request answered with %d items, status %v, reason %v", len(resp.BatchItem), resp.BatchItem[0].ResultStatus, resp.BatchItem[0].ResultReason)
		}
	}
	if c.Kind == "valid" && (len(resp.BatchItem) != 1 || resp.BatchItem[0].ResultStatus != kmip.ResultStatusSuccess) {
		return "http-valid-request-not-served", fmt.Errorf("valid request answered with %+v", resp.BatchItem)
	}
	return "", nil
}

func TestC08HTTP(t *testing.T) {
	const name = "TestC08HTTP"
	rec := evid.New("C08", name, "HTTP transport: POST bodies in the three content types - valid requests, correctly delimited but undecodable messages (9 kinds, binary; XML / JSON bodies damaged at the syntax level: cut, closed by the wrong element, no document at all), byte-mutated messages, wrong Content-Length - through NewHTTPHandler(...).ServeHTTP; "+
		"oracle: no panic, a 200 answer is a decodable response message, undecodable requests get a single invalid-message item, valid ones are served; non-trivial = not a valid request; distinct by case").Attach(t)
	if rp := evid.LoadReplay(name); rp != nil {
		var c httpCase
		if err := json.Unmarshal(rp.Case, &c); err != nil {
			t.Fatal(err)
		}
		if sig, err := httpRun(c); err != nil {
			t.Fatalf("VERIF-FAIL property=C08 test=%s sig=%s replay=: %v", name, sig, err)
		}
		return
	}
	rapid.Check(t, func(rt *rapid.T) {
		c := httpCase{ContentType: rapid.SampledFrom([]string{"application/octet-stream", "text/xml", "application/json"}).Draw(rt, "ctype")}
		m := kmip.NewRequestMessage(kmip.V1_4, &payloads.ActivateRequestPayload{UniqueIdentifier: "1.0|ok"})
		var body []byte
		switch c.ContentType {
		case "text/xml":
			body = ttlv.MarshalXML(&m)
		case "application/json":
			body = ttlv.MarshalJSON(&m)
		default:
			body = ttlv.MarshalTTLV(&m)
		}
		body = append([]byte{}, body...)
		c.Kind = "valid"
		switch rapid.IntRange(0, 3).Draw(rt, "kind") {
		case 1:
			c.Kind = "mutated"
			n := rapid.IntRange(1, 4).Draw(rt, "flips")
			for i := 0; i < n; i++ {
				body[rapid.IntRange(0, len(body)-1).Draw(rt, "pos")] ^= byte(rapid.IntRange(1, 255).Draw(rt, "xor"))
			}
			if rapid.Bool().Draw(rt, "truncate") {
				body = body[:rapid.IntRange(1, len(body)).Draw(rt, "cut")]
			}
		case 2:
			if c.ContentType == "application/octet-stream" {
				c.Kind = "undecodable"
				body = undecodable(rapid.SampledFrom(undecodableKinds).Draw(rt, "ukind"))
			} else if rapid.Bool().Draw(rt, "syntaxdamage") {
				// damaged at the level of the XML / JSON syntax itself: cut in the middle, closed by the wrong element,
				// no document at all
				c.Kind = "undecodable"
				switch rapid.IntRange(0, 3).Draw(rt, "damage") {
				case 0:
					body = body[:rapid.IntRange(1, len(body)-2).Draw(rt, "cutat")]
				case 1:
					if c.ContentType == "text/xml" {
						body = []byte(strings.Replace(string(body), "</RequestMessage>", "</RequestHeader>", 1))
					} else {
						body = append(bytes.TrimRight(body, "}\n \t"), ']')
					}
				case 2:
					body = []byte("this is neither XML nor JSON")
				default:
					body = append([]byte{0xEF, 0xBB, 0xBF, 0x00}, body...)
				}
			} else {
				c.Kind = "mutated"
				to := gen.DefaultTreeOpts()
				to.TextSafe, to.Alphabet = true, "ascii"
				n := gen.Tree(rt, to)
				if c.ContentType == "text/xml" {
					body = ttlvref.WriteXML(n, func(int) string { return "" })
				} else {
					body = ttlvref.WriteJSON(n, func(int) string { return "" })
				}
			}
		case 3:
			c.Kind = "mutated"
			c.ClaimLen = rapid.SampledFrom([]int{-1, 1, 100, -len(body)}).Draw(rt, "claim")
		}
		c.BodyHex = hex.EncodeToString(body)
		if c.ContentType != "application/octet-stream" {
			c.Body = string(body)
		}
		key, _ := json.Marshal(c)
		rec.Case(c.Kind != "valid", key, "kind="+c.Kind, "ctype="+c.ContentType)
		if c.Kind != "valid" && rec.WantSample() {
			rec.Sample(c)
		}
		if sig, err := httpRun(c); err != nil {
			rec.Fail(rt, name, sig, err, c)
		}
	})
}

// TestC08Stress: real time, many concurrent connections, random behaviour drawn up front.
func TestC08Stress(t *testing.T) {
	const name = "TestC08Stress"
	rec := evid.New("C08", name, "real-time stress (no fake clock, real scheduler, -race in the thorough tier): 8..48 concurrent connections each running a drawn script of requests (ok / typed / plain / panic outcomes), pipelines and an abrupt close at a drawn point; "+
		"oracle: process alive, every response belongs to its request, a probe connection is served afterwards, the census of server connection goroutines returns to 0; non-trivial = at least one connection closes with requests outstanding; distinct by script").Attach(t)
	rapid.Check(t, func(rt *rapid.T) {
		nconn := rapid.IntRange(8, 48).Draw(rt, "connections")
		type script struct {
			Reqs     [][]string
			CloseAt  int // close after sending this many requests without reading the rest
			Pipeline bool
		}
		scripts := make([]script, nconn)
		abrupt := false
		for i := range scripts {
			k := rapid.IntRange(1, 6).Draw(rt, "nreq")
			for j := 0; j < k; j++ {
				n := rapid.IntRange(1, 3).Draw(rt, "items")
				var o []string
				for x := 0; x < n; x++ {
					o = append(o, rapid.SampledFrom([]string{"ok", "ok", "ok", "typed", "plain", "plain:typed-nil", "panic:string", "panic:error", "panic:slice", "panic:typed-nil-error", "panic:error-that-panics", "slow:1:true", "critical-extension", "ok-extension", "unrouted"}).Draw(rt, "outcome"))
				}
				scripts[i].Reqs = append(scripts[i].Reqs, o)
			}
			scripts[i].CloseAt = -1
			if rapid.IntRange(0, 2).Draw(rt, "abrupt") == 0 {
				scripts[i].CloseAt = rapid.IntRange(1, k).Draw(rt, "closeat")
				abrupt = true
			}
			scripts[i].Pipeline = rapid.Bool().Draw(rt, "pipeline")
		}
		key, _ := json.Marshal(scripts)
		rec.Case(abrupt, key, fmt.Sprintf("connections=%d", nconn))
		if abrupt && rec.WantSample() && len(key) < 2000 {
			rec.Sample(scripts)
		}
		evid.Journal("C08", name, scripts)
		ln := memnet.NewListener()
		srv := kmipserver.NewServer(ln, c08Executor())
		done := make(chan error, 1)
		go func() { done <- srv.Serve() }()
		var wg sync.WaitGroup
		errs := make(chan error, nconn)
		for i, sc := range scripts {
			wg.Add(1)
			go func(i int, sc script) {
				defer wg.Done()
				c, err := ln.Dial()
				if err != nil {
					errs <- err
					return
				}
				defer c.Close()
				st := ttlv.NewStream(c, 1<<20)
				seqBase := i * 1000
				send := func(j int) error { _, err := c.Write(c08Request(seqBase+j, sc.Reqs[j])); return err }
				recv := func(j int) error {
					var raw ttlv.Value
					if err := st.Recv(&raw); err != nil {
						return fmt.Errorf("conn %d request %d: %w", i, j, err)
					}
					n, ok := gen.FromValue(raw)
					if !ok {
						return fmt.Errorf("conn %d: undecodable response", i)
					}
					return checkResponse(n, expectation{kind: "batch", outcomes: sc.Reqs[j], seq: seqBase + j})
				}
				if sc.Pipeline {
					for j := range sc.Reqs {
						if sc.CloseAt == j {
							return
						}
						if err := send(j); err != nil {
							errs <- err
							return
						}
					}
					for j := range sc.Reqs {
						if err := recv(j); err != nil {
							errs <- err
							return
						}
					}
					return
				}
				for j := range sc.Reqs {
					if err := send(j); err != nil {
						errs <- err
						return
					}
					if sc.CloseAt == j+1 {
						return // close with the response outstanding
					}
					if err := recv(j); err != nil {
						errs <- err
						return
					}
				}
			}(i, sc)
		}
		wg.Wait()
		close(errs)
		for err := range errs {
			rec.Fail(rt, name, "stress-wrong-or-missing-response", err, scripts)
			return
		}
		// probe
		pc, err := ln.Dial()
		if err != nil {
			rec.Fail(rt, name, "probe-refused", err, scripts)
			return
		}
		pst := ttlv.NewStream(pc, 1<<20)
		_, _ = pc.Write(c08Request(999999, []string{"ok"}))
		var pv ttlv.Value
		if err := pst.Recv(&pv); err != nil {
			rec.Fail(rt, name, "probe-not-served", err, scripts)
			return
		}
		pc.Close()
		// census returns to zero (real time: poll, generous bound; expiry is reported as a leak only if it persists)
		deadline := time.Now().Add(20 * time.Second)
		for {
			cnt := census.Count("kmipserver.(*Server).handleConn", "kmipserver.(*conn).readloop", "kmipserver.(*conn).writeloop")
			total := 0
			for _, v := range cnt {
				total += v
			}
			if total == 0 {
				break
			}
			if time.Now().After(deadline) {
				rec.Fail(rt, name, "stress-goroutines-leaked", fmt.Errorf("%v goroutines remain 20 s after every client disconnected\n%s", cnt, census.Dump("kmip-go/kmipserver")), scripts)
				return
			}
			time.Sleep(5 * time.Millisecond)
		}
		if err := srv.Shutdown(); err != nil {
			rec.Fail(rt, name, "shutdown-error", err, scripts)
		}
		<-done
	})
}
