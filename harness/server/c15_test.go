package server

import (
	"time"
	"context"
	"encoding/json"
	"errors"
	"fmt"
	"strings"
	"sync"
	"sync/atomic"
	"testing"
	"testing/synctest"

	kmip "github.com/ovh/kmip-go"
	"github.com/ovh/kmip-go/kmipserver"
	"github.com/ovh/kmip-go/payloads"
	"github.com/ovh/kmip-go/ttlv"
	"pgregory.net/rapid"

	"verif/harness/evid"
	"verif/harness/memnet"
)

// c15Case: per connection a sequence of requests, each a batch of placeholder actions.
// Actions: set | setempty | endctx | read | readorid | readexplicit | nested | clear | fail | failonce | setfail | pending | sync
type c15Case struct {
	Conns  [][][]string `json:"connections"`
	Direct bool         `json:"direct_calls"` // call HandleRequest from goroutines instead of going through a Server
	// ItemMiddleware: a batch item middleware registered on the executor: "" (none) | pass | absorb (an error of the
	// handler is turned into a successful item) | retry (an error makes it run the item once more)
	ItemMiddleware string `json:"item_middleware,omitempty"`
	// MessageMiddleware: a message middleware registered on the executor (Use): "" (none) | copy (hands a copy of the
	// message to its continuation) | chunk (runs a batch item by item: one continuation call per item, each with a
	// message of its own holding that item, and merges the answers; requests that must be rejected as a whole pass
	// through untouched). The items still belong to the one request the server received.
	MessageMiddleware string `json:"message_middleware,omitempty"`
	// Operation: the operation the items are sent as: "" = Activate (the handler answers "obs=<what it observed>"), or
	// destroy | archive | recover | revoke: the same handler behind another operation, answering - as real handlers do -
	// with the identifier it resolved, i.e. with the observed placeholder itself ("<empty>" if there was none). What an
	// item stores or observes does not depend on which operation carries it.
	Operation string `json:"items_sent_as,omitempty"`
}

// c15CancelKey: (direct calls) the function that ends the request's context
type c15CancelKey struct{}
type c15DeriveKey struct{}

// c15Op is the operation in force while a case runs (one case at a time per process).
var c15Op string

// c15Payload builds the request payload carrying identifier uid for the operation in force.
func c15Payload(uid string) kmip.OperationPayload {
	switch c15Op {
	case "destroy":
		return &payloads.DestroyRequestPayload{UniqueIdentifier: uid}
	case "archive":
		return &payloads.ArchiveRequestPayload{UniqueIdentifier: uid}
	case "recover":
		return &payloads.RecoverRequestPayload{UniqueIdentifier: uid}
	case "revoke":
		return &payloads.RevokeRequestPayload{UniqueIdentifier: uid, RevocationReason: kmip.RevocationReason{RevocationReasonCode: kmip.RevocationReasonCodeCessationOfOperation}}
	}
	return &payloads.ActivateRequestPayload{UniqueIdentifier: uid}
}

// c15ReqID extracts the identifier a request payload carries.
func c15ReqID(p kmip.OperationPayload) string {
	switch x := p.(type) {
	case *payloads.ActivateRequestPayload:
		return x.UniqueIdentifier
	case *payloads.DestroyRequestPayload:
		return x.UniqueIdentifier
	case *payloads.ArchiveRequestPayload:
		return x.UniqueIdentifier
	case *payloads.RecoverRequestPayload:
		return x.UniqueIdentifier
	case *payloads.RevokeRequestPayload:
		return x.UniqueIdentifier
	}
	return ""
}

// c15RespID extracts the identifier a response payload carries, normalised to the observation it reports.
func c15RespID(p kmip.OperationPayload) (string, bool) {
	var id string
	switch x := p.(type) {
	case *payloads.ActivateResponsePayload:
		id = x.UniqueIdentifier
	case *payloads.DestroyResponsePayload:
		id = x.UniqueIdentifier
	case *payloads.ArchiveResponsePayload:
		id = x.UniqueIdentifier
	case *payloads.RecoverResponsePayload:
		id = x.UniqueIdentifier
	case *payloads.RevokeResponsePayload:
		id = x.UniqueIdentifier
	default:
		return "", false
	}
	if id == "<empty>" {
		return "", true
	}
	return strings.TrimPrefix(id, "obs="), true
}

// c15MW is the middleware in force while c15Check runs (one case at a time per process).
var c15MW string

// barrier is a reusable rendezvous of n parties built on channels (durably blocking).
type barrier struct {
	mu      sync.Mutex
	n       int
	waiting int
	release chan struct{}
	abort   chan struct{} // closed when a participant has failed: nobody waits any more
	once    sync.Once
}

func newBarrier(n int) *barrier {
	return &barrier{n: n, release: make(chan struct{}), abort: make(chan struct{})}
}

func (b *barrier) cancel() {
	if b != nil {
		b.once.Do(func() { close(b.abort) })
	}
}

func (b *barrier) wait() {
	b.mu.Lock()
	b.waiting++
	if b.waiting == b.n {
		close(b.release)
		b.release = make(chan struct{})
		b.waiting = 0
		b.mu.Unlock()
		return
	}
	ch := b.release
	b.mu.Unlock()
	select {
	case <-ch:
	case <-b.abort:
	}
}

func c15Executor(b *barrier, mw string, msgMW ...string) *kmipserver.BatchExecutor {
	exec := kmipserver.NewBatchExecutor()
	if len(msgMW) > 0 {
		switch msgMW[0] {
		case "copy":
			exec.Use(func(next kmipserver.Next, ctx context.Context, rm *kmip.RequestMessage) (*kmip.ResponseMessage, error) {
				cp := *rm
				cp.BatchItem = append([]kmip.RequestBatchItem{}, rm.BatchItem...)
				return next(ctx, &cp)
			})
		case "derive":
			exec.Use(func(next kmipserver.Next, ctx context.Context, rm *kmip.RequestMessage) (*kmip.ResponseMessage, error) {
				ctx, cancel := context.WithTimeout(context.WithValue(ctx, c15DeriveKey{}, "message"), time.Hour)
				defer cancel()
				return next(ctx, rm)
			})
		case "chunk":
			exec.Use(func(next kmipserver.Next, ctx context.Context, rm *kmip.RequestMessage) (*kmip.ResponseMessage, error) {
				if len(rm.BatchItem) < 2 || int(rm.Header.BatchCount) != len(rm.BatchItem) || rm.Header.ProtocolVersion.ProtocolVersionMajor != 1 ||
					rm.Header.BatchErrorContinuationOption == kmip.BatchErrorContinuationOptionUndo {
					return next(ctx, rm)
				}
				var out *kmip.ResponseMessage
				for i := range rm.BatchItem {
					part := *rm
					part.Header.BatchCount = 1
					part.BatchItem = rm.BatchItem[i : i+1 : i+1]
					r, err := next(ctx, &part)
					if err != nil || r == nil {
						return r, err
					}
					if out == nil {
						cp := *r
						cp.BatchItem = nil
						out = &cp
					}
					out.BatchItem = append(out.BatchItem, r.BatchItem...)
				}
				out.Header.BatchCount = int32(len(out.BatchItem))
				return out, nil
			})
		}
	}
	var calls sync.Map // item identifier -> *int32: invocations of the handler for that item
	var backend *kmipserver.BatchExecutor
	var backendOnce sync.Once
	// items marked "pending" are queued by an item middleware: it answers Operation Pending with a correlation value and
	// no error, and the handler does not run. The item has not failed and has stored nothing.
	exec.BatchItemUse(func(next kmipserver.BatchItemNext, ctx context.Context, bi *kmip.RequestBatchItem) (*kmip.ResponseBatchItem, error) {
		if strings.HasSuffix(c15ReqID(bi.RequestPayload), "#pending") {
			return &kmip.ResponseBatchItem{Operation: bi.Operation, UniqueBatchItemID: bi.UniqueBatchItemID,
				ResultStatus: kmip.ResultStatusOperationPending, AsynchronousCorrelationValue: []byte{0xA5, 0x01}}, nil
		}
		return next(ctx, bi)
	})
	switch mw {
	case "pass":
		exec.BatchItemUse(func(next kmipserver.BatchItemNext, ctx context.Context, bi *kmip.RequestBatchItem) (*kmip.ResponseBatchItem, error) {
			return next(ctx, bi)
		})
	case "derive":
		// hands a context derived from the one it received to its continuation (a value, a deadline): the usual way
		exec.BatchItemUse(func(next kmipserver.BatchItemNext, ctx context.Context, bi *kmip.RequestBatchItem) (*kmip.ResponseBatchItem, error) {
			ctx, cancel := context.WithTimeout(context.WithValue(ctx, c15DeriveKey{}, "item"), time.Hour)
			defer cancel()
			return next(ctx, bi)
		})
	case "absorb":
		exec.BatchItemUse(func(next kmipserver.BatchItemNext, ctx context.Context, bi *kmip.RequestBatchItem) (*kmip.ResponseBatchItem, error) {
			r, err := next(ctx, bi)
			if err != nil {
				r.ResponsePayload = &payloads.ActivateResponsePayload{UniqueIdentifier: "obs=<absorbed>"}
				return r, nil
			}
			return r, nil
		})
	case "retry":
		exec.BatchItemUse(func(next kmipserver.BatchItemNext, ctx context.Context, bi *kmip.RequestBatchItem) (*kmip.ResponseBatchItem, error) {
			r, err := next(ctx, bi)
			if err != nil {
				return next(ctx, bi)
			}
			return r, nil
		})
	}
	handle := func(ctx context.Context, uid string) (string, error) {
		// identifier: "<value>#<action>"
		parts := strings.SplitN(uid, "#", 2)
		val, action := parts[0], parts[1]
		obs := kmipserver.IdPlaceholder(ctx)
		switch action {
		case "set":
			kmipserver.SetIdPlaceholder(ctx, val)
		case "endctx":
			// ends the context of the request it belongs to (direct calls; elsewhere the key is absent and nothing happens)
			if f, ok := ctx.Value(c15CancelKey{}).(context.CancelFunc); ok {
				f()
			}
		case "setempty":
			// the empty string is a value like any other: it is what later items observe
			kmipserver.SetIdPlaceholder(ctx, "")
		case "readorid":
			id, err := kmipserver.GetIdOrPlaceholder(ctx, "")
			if err != nil {
				return "", err
			}
			obs = id
		case "nested":
			// the handler forwards a request of its own to a back-end executor, passing on the context it received: that
			// request starts with an empty placeholder, and nothing it stores is visible to the outer request
			backendOnce.Do(func() { backend = c15Executor(nil, "") })
			inner := kmip.NewRequestMessage(kmip.V1_4, &payloads.ActivateRequestPayload{UniqueIdentifier: "n0#read"},
				&payloads.ActivateRequestPayload{UniqueIdentifier: "in-" + val + "#set"}, &payloads.ActivateRequestPayload{UniqueIdentifier: "n2#read"})
			resp := backend.HandleRequest(ctx, &inner)
			if resp == nil || len(resp.BatchItem) != 3 {
				return "", errors.New("nested request: wrong response shape")
			}
			for k, want := range map[int]string{0: "obs=", 2: "obs=in-" + val} {
				pl, _ := resp.BatchItem[k].ResponsePayload.(*payloads.ActivateResponsePayload)
				if pl == nil || pl.UniqueIdentifier != want {
					return "", fmt.Errorf("nested request: item %d observed %+v, want %q (a request message starts with an empty placeholder of its own)", k, pl, want)
				}
			}
		case "readexplicit":
			// an item that names its object explicitly: the accessor must hand that identifier back and leave the placeholder alone
			want := "explicit-" + val
			id, err := kmipserver.GetIdOrPlaceholder(ctx, want)
			if err != nil || id != want {
				return "", fmt.Errorf("GetIdOrPlaceholder(%q) = %q, %v", want, id, err)
			}
		case "clear":
			kmipserver.ClearIdPlaceholder(ctx)
		case "fail":
			return "", errors.New("failed on purpose; observed=" + obs)
		case "failonce":
			n, _ := calls.LoadOrStore(uid, new(int32))
			if atomic.AddInt32(n.(*int32), 1) == 1 {
				return "", errors.New("failed on purpose (first run); observed=" + obs)
			}
		case "setfail":
			kmipserver.SetIdPlaceholder(ctx, val)
			return "", errors.New("failed on purpose; observed=" + obs)
		case "sync":
			if b != nil {
				b.wait()
			}
		}
		return obs, nil
	}
	// handlers of the other operations answer with the identifier itself
	echo := func(obs string) string {
		if obs == "" {
			return "<empty>"
		}
		return obs
	}
	exec.Route(kmip.OperationActivate, kmipserver.HandleFunc(func(ctx context.Context, req *payloads.ActivateRequestPayload) (*payloads.ActivateResponsePayload, error) {
		obs, err := handle(ctx, req.UniqueIdentifier)
		if err != nil {
			return nil, err
		}
		return &payloads.ActivateResponsePayload{UniqueIdentifier: "obs=" + obs}, nil
	}))
	exec.Route(kmip.OperationDestroy, kmipserver.HandleFunc(func(ctx context.Context, req *payloads.DestroyRequestPayload) (*payloads.DestroyResponsePayload, error) {
		obs, err := handle(ctx, req.UniqueIdentifier)
		if err != nil {
			return nil, err
		}
		return &payloads.DestroyResponsePayload{UniqueIdentifier: echo(obs)}, nil
	}))
	exec.Route(kmip.OperationArchive, kmipserver.HandleFunc(func(ctx context.Context, req *payloads.ArchiveRequestPayload) (*payloads.ArchiveResponsePayload, error) {
		obs, err := handle(ctx, req.UniqueIdentifier)
		if err != nil {
			return nil, err
		}
		return &payloads.ArchiveResponsePayload{UniqueIdentifier: echo(obs)}, nil
	}))
	exec.Route(kmip.OperationRecover, kmipserver.HandleFunc(func(ctx context.Context, req *payloads.RecoverRequestPayload) (*payloads.RecoverResponsePayload, error) {
		obs, err := handle(ctx, req.UniqueIdentifier)
		if err != nil {
			return nil, err
		}
		return &payloads.RecoverResponsePayload{UniqueIdentifier: echo(obs)}, nil
	}))
	exec.Route(kmip.OperationRevoke, kmipserver.HandleFunc(func(ctx context.Context, req *payloads.RevokeRequestPayload) (*payloads.RevokeResponsePayload, error) {
		obs, err := handle(ctx, req.UniqueIdentifier)
		if err != nil {
			return nil, err
		}
		return &payloads.RevokeResponsePayload{UniqueIdentifier: echo(obs)}, nil
	}))
	return exec
}

// c15Model returns, per item, the set of acceptable observations (nil = the item must fail).
func c15Model(conn, reqIdx int, actions []string) (accept [][]string) {
	mw := c15MW
	ph := ""
	afterFailure := "" // value that may still be visible after an intervening failed item (the statement does not say)
	maybe := false
	for i, a := range actions {
		a = strings.TrimSuffix(a, "+ext")
		val := fmt.Sprintf("c%dr%di%d", conn, reqIdx, i)
		obs := []string{ph}
		if maybe {
			obs = append(obs, afterFailure)
		}
		if a == "pending" {
			// answered Operation Pending by a middleware, without an error: not a failure, the placeholder stays as it is
			accept = append(accept, []string{"<pending>"})
			continue
		}
		if mw == "absorb" {
			// the middleware turns the handler's error into a successful item: nothing fails, nothing is cleared
			switch {
			case a == "fail" || a == "failonce" || (a == "readorid" && ph == "" && !maybe):
				accept = append(accept, []string{"<absorbed>"})
				continue
			case a == "setfail":
				accept = append(accept, []string{"<absorbed>"})
				ph, maybe = val, false
				continue
			}
		}
		if a == "failonce" {
			if mw == "retry" {
				// the second run of the same item succeeds and sees what the first run saw
				accept = append(accept, obs)
				continue
			}
			a = "fail"
		}
		switch a {
		case "set":
			accept = append(accept, obs)
			ph, maybe = val, false
		case "read", "sync", "readexplicit", "nested", "endctx":
			accept = append(accept, obs)
		case "readorid":
			if ph == "" && !maybe {
				accept = append(accept, nil) // must fail: nothing to fall back to
				afterFailure, maybe, ph = ph, true, ""
			} else if ph == "" && maybe {
				accept = append(accept, append([]string{"<fails>"}, afterFailure))
				ph = ""
			} else {
				accept = append(accept, obs)
			}
		case "clear", "setempty":
			accept = append(accept, obs)
			ph, maybe = "", false
		case "fail":
			accept = append(accept, nil)
			afterFailure, maybe, ph = ph, true, ""
		case "setfail":
			accept = append(accept, nil)
			afterFailure, maybe, ph = val, true, ""
		}
	}
	return
}

// isRejected: a request that the executor must reject as a whole (no handler runs).
func isRejected(actions []string) (string, bool) {
	if len(actions) >= 1 && strings.HasPrefix(actions[0], "reject:") {
		return actions[0][7:], true
	}
	return "", false
}

func c15Request(conn, reqIdx int, actions []string) *kmip.RequestMessage {
	if kind, rej := isRejected(actions); rej {
		m := kmip.NewRequestMessage(kmip.V1_4, &payloads.ActivateRequestPayload{UniqueIdentifier: fmt.Sprintf("c%dr%di0#set", conn, reqIdx)},
			&payloads.ActivateRequestPayload{UniqueIdentifier: fmt.Sprintf("c%dr%di1#read", conn, reqIdx)})
		switch kind {
		case "version":
			m.Header.ProtocolVersion = kmip.ProtocolVersion{ProtocolVersionMajor: 3, ProtocolVersionMinor: 0}
		case "count":
			m.Header.BatchCount = 7
		default:
			m.Header.BatchErrorContinuationOption = kmip.BatchErrorContinuationOptionUndo
		}
		return &m
	}
	var pls []kmip.OperationPayload
	for i, a := range actions {
		pls = append(pls, c15Payload(fmt.Sprintf("c%dr%di%d#%s", conn, reqIdx, i, strings.TrimSuffix(a, "+ext"))))
	}
	m := kmip.NewRequestMessage(kmip.V1_4, pls...)
	// optional header fields that do not change what the items do: Batch Order Option (absent / true / false by request number)
	switch (conn + reqIdx) % 3 {
	case 1:
		v := true
		m.Header.BatchOrderOption = &v
	case 2:
		v := false
		m.Header.BatchOrderOption = &v
	}
	for i, a := range actions {
		if strings.HasSuffix(a, "+ext") {
			// a non-critical message extension on the item does not change what the item does
			m.BatchItem[i].MessageExtension = &kmip.MessageExtension{VendorIdentification: "verif", CriticalityIndicator: false}
		}
	}
	return &m
}

func c15Check(conn, reqIdx int, actions []string, resp *kmip.ResponseMessage) error {
	if _, rej := isRejected(actions); rej {
		if resp == nil || len(resp.BatchItem) != 1 || resp.BatchItem[0].ResultStatus == kmip.ResultStatusSuccess {
			return fmt.Errorf("conn %d request %d: a request that must be rejected as a whole was not", conn, reqIdx)
		}
		return nil
	}
	accept := c15Model(conn, reqIdx, actions)
	if resp == nil || len(resp.BatchItem) != len(actions) {
		return fmt.Errorf("conn %d request %d: response has wrong item count", conn, reqIdx)
	}
	for i := range actions {
		it := resp.BatchItem[i]
		if accept[i] == nil {
			if it.ResultStatus == kmip.ResultStatusSuccess {
				return fmt.Errorf("conn %d request %d item %d (%s) must fail but succeeded", conn, reqIdx, i, actions[i])
			}
			continue
		}
		if len(accept[i]) == 1 && accept[i][0] == "<pending>" {
			if it.ResultStatus != kmip.ResultStatusOperationPending {
				return fmt.Errorf("conn %d request %d item %d: the middleware's Operation Pending answer came back as %v", conn, reqIdx, i, it.ResultStatus)
			}
			continue
		}
		if it.ResultStatus != kmip.ResultStatusSuccess {
			ok := false
			for _, a := range accept[i] {
				if a == "<fails>" {
					ok = true
				}
			}
			if !ok {
				return fmt.Errorf("conn %d request %d item %d (%s) failed: %s", conn, reqIdx, i, actions[i], it.ResultMessage)
			}
			continue
		}
		obs, hasPayload := c15RespID(it.ResponsePayload)
		if !hasPayload {
			return fmt.Errorf("conn %d request %d item %d: no payload", conn, reqIdx, i)
		}
		ok := false
		for _, a := range accept[i] {
			if a == obs {
				ok = true
			}
		}
		if !ok {
			kind := "wrong value"
			if obs != "" && !strings.HasPrefix(obs, fmt.Sprintf("c%dr%di", conn, reqIdx)) {
				kind = "value of ANOTHER request"
			}
			return fmt.Errorf("conn %d request %d item %d (%s) observed placeholder %q (%s), the model allows %q", conn, reqIdx, i, actions[i], obs, kind, accept[i])
		}
	}
	return nil
}

func syncCount(c c15Case) int {
	n := 0
	for _, req := range c.Conns[0] {
		for _, a := range req {
			if a == "sync" {
				n++
			}
		}
	}
	return n
}

func c15Run(t *testing.T, c c15Case) (sig string, err error) {
	defer evid.DeadlockWatch("C15", "TestC15Placeholder", c, "kmip-go/kmipserver")()
	b := newBarrier(len(c.Conns))
	if syncCount(c) == 0 {
		b = nil
	}
	c15MW = c.ItemMiddleware
	c15Op = c.Operation
	exec := c15Executor(b, c.ItemMiddleware, c.MessageMiddleware)
	var mu sync.Mutex
	var first error
	record := func(e error) {
		mu.Lock()
		if first == nil {
			first = e
		}
		mu.Unlock()
		b.cancel()
	}
	if c.Direct {
		var wg sync.WaitGroup
		for ci, reqs := range c.Conns {
			wg.Add(1)
			go func(ci int, reqs [][]string) {
				defer wg.Done()
				for ri, actions := range reqs {
					var resp *kmip.ResponseMessage
					// the caller's context can be ended from inside a handler (action "endctx": a client that goes away, a deadline that
					// runs out while the batch is being processed); what the items store and observe does not depend on it
					rctx, rcancel := context.WithCancel(context.Background())
					rctx = context.WithValue(rctx, c15CancelKey{}, rcancel)
					if perr := safely(func() error { resp = exec.HandleRequest(rctx, c15Request(ci, ri, actions)); return nil }); perr != nil {
						rcancel()
						record(perr)
						return
					}
					rcancel()
					if e := c15Check(ci, ri, actions, resp); e != nil {
						record(e)
						return
					}
				}
			}(ci, reqs)
		}
		wg.Wait()
	} else {
		perr := safely(func() error {
			synctest.Test(t, func(st *testing.T) {
				ln := memnet.NewListener()
				srv := kmipserver.NewServer(ln, exec)
				go func() { _ = srv.Serve() }()
				var wg sync.WaitGroup
				for ci, reqs := range c.Conns {
					wg.Add(1)
					go func(ci int, reqs [][]string) {
						defer wg.Done()
						cc, err := ln.Dial()
						if err != nil {
							record(err)
							return
						}
						defer cc.Close()
						st := ttlv.NewStream(cc, 1<<20)
						for ri, actions := range reqs {
							var resp kmip.ResponseMessage
							if err := st.Roundtrip(c15Request(ci, ri, actions), &resp); err != nil {
								record(fmt.Errorf("conn %d request %d: %w", ci, ri, err))
								return
							}
							if e := c15Check(ci, ri, actions, &resp); e != nil {
								record(e)
								return
							}
						}
					}(ci, reqs)
				}
				wg.Wait()
				synctest.Wait()
				_ = srv.Shutdown()
				synctest.Wait()
			})
			return nil
		})
		if perr != nil && first == nil {
			return "bubble-panic", perr
		}
	}
	if first != nil {
		s := "wrong-observation"
		if strings.Contains(first.Error(), "ANOTHER request") {
			s = "placeholder-leaks-across-requests"
		} else if strings.Contains(first.Error(), "panic") {
			s = "panic"
		}
		return s, first
	}
	return "", nil
}

func TestC15Placeholder(t *testing.T) {
	const name = "TestC15Placeholder"
	rec := evid.New("C15", name, "1..4 connections (through a real Server over an in-memory listener in a synctest bubble) or 2..6 goroutines calling HandleRequest directly, each issuing 0..2 requests that are rejected at message level (unsupported version, batch count mismatch, Undo) followed by 1..4 requests of 1..6 placeholder actions (set / set the empty string / end the request's context (direct calls) / read / read-or-id / read with an explicit identifier / forward a nested request to a back-end executor / clear / fail / set-then-fail / fail on the first run only, each item optionally carrying a non-critical message extension), the items being sent as Activate, Destroy, Archive, Recover or Revoke requests (handlers of the latter answer with the identifier they resolved, i.e. the observed placeholder itself); the executor has no batch item middleware, a pass-through one, one that turns a handler error into a successful item, or one that runs a failed item once more, and optionally a message middleware that hands on a copy of the message or that runs the batch item by item (one continuation call and one message per item, answers merged); "+
		"rendezvous items inside the first request of every connection force the requests to overlap in time at chosen items; values are unique per request; oracle: per-request placeholder model (empty at start, set visible to later items, never a foreign value); "+
		"non-trivial = set followed by read in a request that overlaps another one, or a second request on a connection after a set; distinct by case").Attach(t)
	if rp := evid.LoadReplay(name); rp != nil {
		var c c15Case
		if err := json.Unmarshal(rp.Case, &c); err != nil {
			t.Fatal(err)
		}
		if sig, err := c15Run(t, c); err != nil {
			t.Fatalf("VERIF-FAIL property=C15 test=%s sig=%s replay=: %v", name, sig, err)
		}
		return
	}
	actions := []string{"set", "set", "read", "read", "readorid", "readorid", "readexplicit", "nested", "clear", "setempty", "fail", "setfail", "failonce", "endctx", "pending"}
	rapid.Check(t, func(rt *rapid.T) {
		c := c15Case{Direct: rapid.Bool().Draw(rt, "direct"), ItemMiddleware: rapid.SampledFrom([]string{"", "", "pass", "derive", "absorb", "retry"}).Draw(rt, "item-middleware"),
			MessageMiddleware: rapid.SampledFrom([]string{"", "", "copy", "chunk", "derive"}).Draw(rt, "message-middleware"),
			Operation:         rapid.SampledFrom([]string{"", "", "", "destroy", "destroy", "archive", "recover", "revoke"}).Draw(rt, "operation")}
		nconn := rapid.IntRange(1, 4).Draw(rt, "connections")
		if c.Direct {
			nconn = rapid.IntRange(2, 6).Draw(rt, "goroutines")
		}
		syncs := 0
		if nconn > 1 {
			syncs = rapid.IntRange(0, 3).Draw(rt, "syncs")
		}
		nt := false
		for ci := 0; ci < nconn; ci++ {
			nreq := rapid.IntRange(1, 4).Draw(rt, "requests")
			var reqs [][]string
			// prologue: requests rejected at message level (unsupported version, batch count mismatch, Undo)
			for k := rapid.SampledFrom([]int{0, 0, 1, 1, 2}).Draw(rt, "rejected"); k > 0; k-- {
				reqs = append(reqs, []string{"reject:" + rapid.SampledFrom([]string{"version", "count", "undo"}).Draw(rt, "rejectkind")})
			}
			pro := len(reqs)
			for ri := pro; ri < pro+nreq; ri++ {
				n := rapid.IntRange(1, 6).Draw(rt, "items")
				var as []string
				for i := 0; i < n; i++ {
					a := rapid.SampledFrom(actions).Draw(rt, "action")
					if rapid.IntRange(0, 4).Draw(rt, "ext") == 0 {
						a += "+ext"
					}
					as = append(as, a)
				}
				if ri == pro {
					// interleave exactly `syncs` rendezvous items at drawn positions
					for s := 0; s < syncs; s++ {
						p := rapid.IntRange(0, len(as)).Draw(rt, "syncpos")
						as = append(as[:p:p], append([]string{"sync"}, as[p:]...)...)
					}
				}
				sawSet := false
				for _, a := range as {
					a = strings.TrimSuffix(a, "+ext")
					if a == "set" {
						sawSet = true
					}
					if sawSet && (a == "read" || a == "readorid") && (syncs > 0 || ri > pro) {
						nt = true
					}
				}
				if ri > pro {
					for _, a := range reqs[ri-1] {
						if strings.TrimSuffix(a, "+ext") == "set" {
							nt = true
						}
					}
				}
				reqs = append(reqs, as)
			}
			c.Conns = append(c.Conns, reqs)
		}
		key, _ := json.Marshal(c)
		rec.Case(nt, key, fmt.Sprintf("direct=%v", c.Direct), fmt.Sprintf("syncs=%d", syncs), "item-middleware="+c.ItemMiddleware, "message-middleware="+c.MessageMiddleware, "operation="+c.Operation)
		if nt && rec.WantSample() && len(key) < 1200 {
			rec.Sample(c)
		}
		if sig, err := c15Run(t, c); err != nil {
			rec.Fail(rt, name, sig, err, c)
		}
	})
}
