// Package refwalk is the reference encoder: from a Go KMIP message and a
// protocol version it builds the TTLV tree that a correct encoder must emit.
// It shares the struct *definitions* with the library (field order, omitempty
// flags) but none of its encoder code: tag numbers come from the pinned tag
// table, version gating from the pinned version table, and the custom-encoded
// types are described by hand-written rules.
package refwalk

import (
	"fmt"
	"math/big"
	"reflect"
	"strconv"
	"strings"
	"time"

	kmip "github.com/ovh/kmip-go"
	"github.com/ovh/kmip-go/ttlv"

	"verif/harness/pins"
	"verif/harness/ttlvref"
)

// Version is a protocol version used for gating; nil means "no gating".
type Version struct{ Major, Minor int }

type Walker struct {
	Ver *Version
	// NoGate disables version gating even though Ver is set (used to build
	// "later-version elements present on the wire" inputs for C05).
	NoGate bool
	// Unpinned collects fields whose tag could not be resolved through the pins.
	Unpinned []string
}

func tagOf(name string) (int, bool) {
	if strings.HasPrefix(name, "0x") {
		n, err := strconv.ParseInt(name[2:], 16, 32)
		return int(n), err == nil
	}
	t, ok := pins.Tags[name]
	return t, ok
}

func mustTag(name string) int {
	t, ok := pins.Tags[name]
	if !ok {
		panic("refwalk: pinned tag table has no " + name)
	}
	return t
}

var (
	tTime     = reflect.TypeFor[time.Time]()
	tDuration = reflect.TypeFor[time.Duration]()
	tBigInt   = reflect.TypeFor[big.Int]()
	tValue    = reflect.TypeFor[ttlv.Value]()
	tStruct   = reflect.TypeFor[ttlv.Struct]()
	tReqItem  = reflect.TypeFor[kmip.RequestBatchItem]()
	tRespItem = reflect.TypeFor[kmip.ResponseBatchItem]()
	tCredVal  = reflect.TypeFor[kmip.CredentialValue]()
	tKeyValue = reflect.TypeFor[kmip.KeyValue]()
	tKeyMat   = reflect.TypeFor[kmip.KeyMaterial]()
	tUnknown  = reflect.TypeFor[kmip.UnknownPayload]()
)

// Message builds the expected tree of a RequestMessage / ResponseMessage
// (value or pointer). The gating version is taken from the message header
// unless w.Ver is already set.
func (w *Walker) Message(msg any) (*ttlvref.Node, error) {
	v := reflect.ValueOf(msg)
	for v.Kind() == reflect.Pointer {
		v = v.Elem()
	}
	if w.Ver == nil {
		h := v.FieldByName("Header")
		if h.IsValid() {
			pv := h.FieldByName("ProtocolVersion").Interface().(kmip.ProtocolVersion)
			w.Ver = &Version{int(pv.ProtocolVersionMajor), int(pv.ProtocolVersionMinor)}
		}
	}
	tag, ok := pins.Tags[v.Type().Name()]
	if !ok {
		return nil, fmt.Errorf("no pinned tag for %s", v.Type().Name())
	}
	ns, err := w.Emit(tag, v)
	if err != nil {
		return nil, err
	}
	if len(ns) != 1 {
		return nil, fmt.Errorf("message produced %d nodes", len(ns))
	}
	return ns[0], nil
}

// Any builds the expected tree of a value using its type's default tag (by type name).
func (w *Walker) Any(x any) (*ttlvref.Node, error) {
	v := reflect.ValueOf(x)
	for v.Kind() == reflect.Pointer {
		if v.IsNil() {
			return nil, fmt.Errorf("nil")
		}
		v = v.Elem()
	}
	tag, ok := pins.Tags[v.Type().Name()]
	if !ok {
		return nil, fmt.Errorf("no pinned tag for %s", v.Type().Name())
	}
	ns, err := w.Emit(tag, v)
	if err != nil {
		return nil, err
	}
	if len(ns) != 1 {
		return nil, fmt.Errorf("value produced %d nodes", len(ns))
	}
	return ns[0], nil
}

func (w *Walker) gated(structName, field string) bool {
	if w.Ver == nil || w.NoGate {
		return false
	}
	maj, min := pins.FirstVersion(structName, field)
	if maj == 0 && min == 0 {
		return false
	}
	return !pins.VersionAtLeast(w.Ver.Major, w.Ver.Minor, maj, min)
}

// Emit returns the nodes a value contributes under the given tag (0..n nodes).
func (w *Walker) Emit(tag int, v reflect.Value) ([]*ttlvref.Node, error) {
	if !v.IsValid() {
		return nil, nil
	}
	switch v.Kind() {
	case reflect.Pointer, reflect.Interface:
		if v.IsNil() {
			return nil, nil
		}
		return w.Emit(tag, v.Elem())
	}
	t := v.Type()
	one := func(n *ttlvref.Node) ([]*ttlvref.Node, error) { return []*ttlvref.Node{n}, nil }
	switch t {
	case tTime:
		return one(&ttlvref.Node{Tag: tag, Type: ttlvref.DateTime, I: v.Interface().(time.Time).Unix()})
	case tDuration:
		d := time.Duration(v.Int())
		if d < 0 {
			return nil, fmt.Errorf("negative interval outside the domain")
		}
		return one(&ttlvref.Node{Tag: tag, Type: ttlvref.Interval, I: int64(d / time.Second)})
	case tBigInt:
		b := v.Interface().(big.Int)
		return one(&ttlvref.Node{Tag: tag, Type: ttlvref.BigInteger, Big: new(big.Int).Set(&b)})
	case tValue:
		return w.genericValue(tag, v.Interface().(ttlv.Value))
	case tStruct:
		n := &ttlvref.Node{Tag: tag, Type: ttlvref.Structure}
		for _, f := range v.Interface().(ttlv.Struct) {
			k, err := w.genericValue(f.Tag, f)
			if err != nil {
				return nil, err
			}
			n.Kids = append(n.Kids, k...)
		}
		return one(n)
	case tUnknown:
		return w.Emit(tag, v.FieldByName("Fields"))
	case tReqItem:
		return w.requestItem(tag, v)
	case tRespItem:
		return w.responseItem(v)
	case tCredVal, tKeyValue, tKeyMat:
		// choice types: every populated alternative is written under the same tag
		var out []*ttlvref.Node
		for i := 0; i < t.NumField(); i++ {
			ns, err := w.Emit(tag, v.Field(i))
			if err != nil {
				return nil, err
			}
			out = append(out, ns...)
		}
		return out, nil
	}
	switch v.Kind() {
	case reflect.Uint32:
		return one(&ttlvref.Node{Tag: tag, Type: ttlvref.Enumeration, I: int64(v.Uint())})
	case reflect.Int8, reflect.Int16, reflect.Int32:
		return one(&ttlvref.Node{Tag: tag, Type: ttlvref.Integer, I: v.Int()})
	case reflect.Uint8, reflect.Uint16:
		return one(&ttlvref.Node{Tag: tag, Type: ttlvref.Integer, I: int64(v.Uint())})
	case reflect.Int64:
		return one(&ttlvref.Node{Tag: tag, Type: ttlvref.LongInteger, I: v.Int()})
	case reflect.Bool:
		n := &ttlvref.Node{Tag: tag, Type: ttlvref.Boolean}
		if v.Bool() {
			n.I = 1
		}
		return one(n)
	case reflect.String:
		return one(&ttlvref.Node{Tag: tag, Type: ttlvref.TextString, B: []byte(v.String())})
	case reflect.Slice:
		if t.Elem().Kind() == reflect.Uint8 {
			return one(&ttlvref.Node{Tag: tag, Type: ttlvref.ByteString, B: append([]byte{}, v.Bytes()...)})
		}
		var out []*ttlvref.Node
		for i := 0; i < v.Len(); i++ {
			ns, err := w.Emit(tag, v.Index(i))
			if err != nil {
				return nil, err
			}
			out = append(out, ns...)
		}
		return out, nil
	case reflect.Struct:
		n := &ttlvref.Node{Tag: tag, Type: ttlvref.Structure}
		for i := 0; i < t.NumField(); i++ {
			f := t.Field(i)
			if !f.IsExported() {
				continue
			}
			opts := strings.Split(f.Tag.Get("ttlv"), ",")
			name := opts[0]
			if name == "-" {
				continue
			}
			omitempty := false
			for _, o := range opts[1:] {
				if o == "omitempty" {
					omitempty = true
				}
			}
			fv := v.Field(i)
			if w.gated(t.Name(), f.Name) {
				continue
			}
			if omitempty && fv.IsZero() {
				continue
			}
			ftag, ok := w.fieldTag(t, f, name, fv)
			if !ok {
				if fv.Kind() == reflect.Interface && fv.IsNil() {
					continue
				}
				w.Unpinned = append(w.Unpinned, t.Name()+"."+f.Name)
				return nil, fmt.Errorf("cannot resolve tag of %s.%s through the pins", t.Name(), f.Name)
			}
			ns, err := w.Emit(ftag, fv)
			if err != nil {
				return nil, err
			}
			n.Kids = append(n.Kids, ns...)
		}
		return one(n)
	}
	return nil, fmt.Errorf("refwalk: unsupported kind %s (%s)", v.Kind(), t)
}

func baseTypeName(t reflect.Type) string {
	for t.Kind() == reflect.Pointer || (t.Kind() == reflect.Slice && t.Elem().Kind() != reflect.Uint8) {
		t = t.Elem()
	}
	return t.Name()
}

func (w *Walker) fieldTag(st reflect.Type, f reflect.StructField, name string, fv reflect.Value) (int, bool) {
	if name != "" {
		return tagOf(name)
	}
	if t, ok := pins.Tags[f.Name]; ok {
		return t, true
	}
	if t, ok := pins.Tags[baseTypeName(f.Type)]; ok {
		return t, true
	}
	if fv.Kind() == reflect.Interface && !fv.IsNil() {
		e := fv.Elem()
		for e.Kind() == reflect.Pointer {
			e = e.Elem()
		}
		t, ok := pins.Tags[e.Type().Name()]
		return t, ok
	}
	return 0, false
}

func (w *Walker) genericValue(tag int, val ttlv.Value) ([]*ttlvref.Node, error) {
	n := &ttlvref.Node{Tag: tag}
	switch x := val.Value.(type) {
	case int32:
		n.Type, n.I = ttlvref.Integer, int64(x)
	case int64:
		n.Type, n.I = ttlvref.LongInteger, x
	case *big.Int:
		n.Type, n.Big = ttlvref.BigInteger, new(big.Int).Set(x)
	case bool:
		n.Type = ttlvref.Boolean
		if x {
			n.I = 1
		}
	case []byte:
		n.Type, n.B = ttlvref.ByteString, append([]byte{}, x...)
	case time.Time:
		n.Type, n.I = ttlvref.DateTime, x.Unix()
	case ttlv.Enum:
		n.Type, n.I = ttlvref.Enumeration, int64(uint32(x))
	case time.Duration:
		n.Type, n.I = ttlvref.Interval, int64(x/time.Second)
	case string:
		n.Type, n.B = ttlvref.TextString, []byte(x)
	case ttlv.Struct:
		n.Type = ttlvref.Structure
		for _, f := range x {
			k, err := w.genericValue(f.Tag, f)
			if err != nil {
				return nil, err
			}
			n.Kids = append(n.Kids, k...)
		}
	default:
		return nil, fmt.Errorf("generic value holds %T", val.Value)
	}
	return []*ttlvref.Node{n}, nil
}

func (w *Walker) requestItem(tag int, v reflect.Value) ([]*ttlvref.Node, error) {
	it := v.Interface().(kmip.RequestBatchItem)
	n := &ttlvref.Node{Tag: tag, Type: ttlvref.Structure}
	n.Kids = append(n.Kids, &ttlvref.Node{Tag: mustTag("Operation"), Type: ttlvref.Enumeration, I: int64(uint32(it.Operation))})
	if len(it.UniqueBatchItemID) > 0 {
		n.Kids = append(n.Kids, &ttlvref.Node{Tag: mustTag("UniqueBatchItemID"), Type: ttlvref.ByteString, B: append([]byte{}, it.UniqueBatchItemID...)})
	}
	ns, err := w.Emit(mustTag("RequestPayload"), reflect.ValueOf(it.RequestPayload))
	if err != nil {
		return nil, err
	}
	n.Kids = append(n.Kids, ns...)
	ns, err = w.Emit(mustTag("MessageExtension"), reflect.ValueOf(it.MessageExtension))
	if err != nil {
		return nil, err
	}
	n.Kids = append(n.Kids, ns...)
	return []*ttlvref.Node{n}, nil
}

// StrictResultReason selects the KMIP rule for the Result Reason element
// (present iff populated, i.e. non-zero, or when the status is Operation Failed,
// where the specification requires it).
func (w *Walker) responseItem(v reflect.Value) ([]*ttlvref.Node, error) {
	it := v.Interface().(kmip.ResponseBatchItem)
	n := &ttlvref.Node{Tag: mustTag("BatchItem"), Type: ttlvref.Structure}
	if it.Operation != 0 {
		n.Kids = append(n.Kids, &ttlvref.Node{Tag: mustTag("Operation"), Type: ttlvref.Enumeration, I: int64(uint32(it.Operation))})
	}
	if len(it.UniqueBatchItemID) > 0 {
		n.Kids = append(n.Kids, &ttlvref.Node{Tag: mustTag("UniqueBatchItemID"), Type: ttlvref.ByteString, B: append([]byte{}, it.UniqueBatchItemID...)})
	}
	n.Kids = append(n.Kids, &ttlvref.Node{Tag: mustTag("ResultStatus"), Type: ttlvref.Enumeration, I: int64(uint32(it.ResultStatus))})
	if it.ResultReason != 0 || it.ResultStatus == kmip.ResultStatusOperationFailed {
		n.Kids = append(n.Kids, &ttlvref.Node{Tag: mustTag("ResultReason"), Type: ttlvref.Enumeration, I: int64(uint32(it.ResultReason))})
	}
	if it.ResultMessage != "" {
		n.Kids = append(n.Kids, &ttlvref.Node{Tag: mustTag("ResultMessage"), Type: ttlvref.TextString, B: []byte(it.ResultMessage)})
	}
	if len(it.AsynchronousCorrelationValue) > 0 {
		n.Kids = append(n.Kids, &ttlvref.Node{Tag: mustTag("AsynchronousCorrelationValue"), Type: ttlvref.ByteString, B: append([]byte{}, it.AsynchronousCorrelationValue...)})
	}
	ns, err := w.Emit(mustTag("ResponsePayload"), reflect.ValueOf(it.ResponsePayload))
	if err != nil {
		return nil, err
	}
	n.Kids = append(n.Kids, ns...)
	ns, err = w.Emit(mustTag("MessageExtension"), reflect.ValueOf(it.MessageExtension))
	if err != nil {
		return nil, err
	}
	n.Kids = append(n.Kids, ns...)
	return []*ttlvref.Node{n}, nil
}
