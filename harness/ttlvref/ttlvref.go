// Package ttlvref is an independent implementation of the KMIP 9.1 binary
// TTLV format. It imports nothing from the library under test: it is the
// reference that the library's encoder and decoder are compared against.
package ttlvref

import (
	"encoding/hex"
	"errors"
	"fmt"
	"math/big"
	"strings"
)

// Item types (KMIP 1.4 section 9.1.1.2).
const (
	Structure   = 1
	Integer     = 2
	LongInteger = 3
	BigInteger  = 4
	Enumeration = 5
	Boolean     = 6
	TextString  = 7
	ByteString  = 8
	DateTime    = 9
	Interval    = 10
)

var TypeNames = map[int]string{
	1: "Structure", 2: "Integer", 3: "LongInteger", 4: "BigInteger", 5: "Enumeration",
	6: "Boolean", 7: "TextString", 8: "ByteString", 9: "DateTime", 10: "Interval",
}

// Node is one TTLV item. Exactly one of the value fields is meaningful
// depending on Type:
//
//	Structure   -> Kids
//	Integer     -> I (int32 range), Enumeration/Interval -> I (uint32 range)
//	LongInteger/DateTime -> I (int64)
//	Boolean     -> I (0/1; in lenient mode the raw 64 bit value != 0 => 1) and RawBool
//	BigInteger  -> Big
//	TextString/ByteString -> B
type Node struct {
	Tag  int
	Type int
	I    int64
	Big  *big.Int
	B    []byte
	Kids []*Node

	// RawLen is the length field as found on the wire (parser only).
	RawLen int
	// NonCanonical is set by the lenient parser when the item deviates from the
	// canonical form (non-zero padding, boolean other than 0/1, over-long big integer).
	NonCanonical bool
	// EndMarker: extent mode stopped at a child with tag 000000.
	EndMarker bool
}

// Mode selects how strict Parse is.
type Mode int

const (
	// Strict: everything KMIP 9.1 requires, zero padding, boolean 0/1, minimal?? (big
	// integers may be longer than minimal but must be a multiple of 8 and >= 8).
	Strict Mode = iota
	// Lenient: accepts any padding bytes, any boolean value, big integers of any
	// multiple-of-8 length. Fixed widths are still enforced.
	Lenient
	// Extent: checks only what "stays inside the declared extent" means: complete
	// headers, type in 1..10, value+padding inside the parent, parent inside the input.
	// Fixed-width types may carry any length (value decoded from what is there when
	// the length is exact, otherwise left zero and flagged NonCanonical).
	Extent
)

func pad8(n int) int { return (8 - n%8) % 8 }

// Parse parses exactly one item that must span the whole input.
func Parse(b []byte, mode Mode) (*Node, error) {
	n, used, err := parseItem(b, mode, 0)
	if err != nil {
		return nil, err
	}
	if used != len(b) {
		return nil, fmt.Errorf("trailing bytes: item uses %d of %d", used, len(b))
	}
	return n, nil
}

// ParseSeq parses a sequence of items filling the whole input.
func ParseSeq(b []byte, mode Mode) ([]*Node, error) {
	var out []*Node
	for len(b) > 0 {
		n, used, err := parseItem(b, mode, 0)
		if err != nil {
			return nil, err
		}
		out = append(out, n)
		b = b[used:]
	}
	return out, nil
}

// ItemLen returns the total encoded length (header + padded value) announced by
// the 8 byte header at the start of b.
func ItemLen(b []byte) (int, error) {
	if len(b) < 8 {
		return 0, errors.New("short header")
	}
	l := int(b[4])<<24 | int(b[5])<<16 | int(b[6])<<8 | int(b[7])
	return 8 + l + pad8(l), nil
}

const maxDepth = 10000

func parseItem(b []byte, mode Mode, depth int) (*Node, int, error) {
	if depth > maxDepth {
		return nil, 0, errors.New("too deep")
	}
	if len(b) < 8 {
		return nil, 0, fmt.Errorf("incomplete header: %d bytes", len(b))
	}
	n := &Node{}
	n.Tag = int(b[0])<<16 | int(b[1])<<8 | int(b[2])
	n.Type = int(b[3])
	if n.Type < 1 || n.Type > 10 {
		return nil, 0, fmt.Errorf("type %d out of range", n.Type)
	}
	l := int(b[4])<<24 | int(b[5])<<16 | int(b[6])<<8 | int(b[7])
	n.RawLen = l
	total := 8 + l + pad8(l)
	if total > len(b) {
		return nil, 0, fmt.Errorf("item of tag %06X announces %d value bytes (+pad) but only %d remain", n.Tag, l, len(b)-8)
	}
	val := b[8 : 8+l]
	padding := b[8+l : total]
	if mode == Strict {
		for _, p := range padding {
			if p != 0 {
				return nil, 0, fmt.Errorf("non-zero padding in tag %06X", n.Tag)
			}
		}
	} else {
		for _, p := range padding {
			if p != 0 {
				n.NonCanonical = true
			}
		}
	}
	be := func(v []byte) uint64 {
		var x uint64
		for _, c := range v {
			x = x<<8 | uint64(c)
		}
		return x
	}
	fixed := func(w int) (bool, error) {
		if l == w {
			return true, nil
		}
		if mode == Extent {
			n.NonCanonical = true
			return false, nil
		}
		return false, fmt.Errorf("tag %06X type %s has length %d, want %d", n.Tag, TypeNames[n.Type], l, w)
	}
	switch n.Type {
	case Structure:
		rest := val
		for len(rest) > 0 {
			if mode == Extent && len(rest) >= 3 && rest[0] == 0 && rest[1] == 0 && rest[2] == 0 {
				// tag 000000 is the library's documented end-of-data marker: a generic structure
				// decode stops there and never looks at the rest of the structure's content.
				n.NonCanonical = true
				n.EndMarker = true
				break
			}
			k, used, err := parseItem(rest, mode, depth+1)
			if err != nil {
				return nil, 0, fmt.Errorf("in %06X: %w", n.Tag, err)
			}
			n.Kids = append(n.Kids, k)
			rest = rest[used:]
		}
	case Integer:
		ok, err := fixed(4)
		if err != nil {
			return nil, 0, err
		}
		if ok {
			n.I = int64(int32(uint32(be(val))))
		}
	case Enumeration, Interval:
		ok, err := fixed(4)
		if err != nil {
			return nil, 0, err
		}
		if ok {
			n.I = int64(uint32(be(val)))
		}
	case LongInteger, DateTime:
		ok, err := fixed(8)
		if err != nil {
			return nil, 0, err
		}
		if ok {
			n.I = int64(be(val))
		}
	case Boolean:
		ok, err := fixed(8)
		if err != nil {
			return nil, 0, err
		}
		if ok {
			raw := be(val)
			switch {
			case raw == 0:
				n.I = 0
			case raw == 1:
				n.I = 1
			default:
				if mode == Strict {
					return nil, 0, fmt.Errorf("boolean %06X has value %x", n.Tag, raw)
				}
				n.NonCanonical = true
				// KMIP says 1 is true; the library looks at the last byte only.
				if val[7] != 0 {
					n.I = 1
				}
			}
		}
	case BigInteger:
		if l%8 != 0 || l == 0 {
			if mode == Extent {
				n.NonCanonical = true
				if l == 0 {
					n.Big = new(big.Int)
					break
				}
			} else {
				return nil, 0, fmt.Errorf("big integer %06X has length %d", n.Tag, l)
			}
		}
		n.Big = FromTwos(val)
		if len(ToTwos(n.Big, 8)) != l {
			n.NonCanonical = true
		}
	case TextString, ByteString:
		n.B = append([]byte{}, val...)
	}
	return n, total, nil
}

// FromTwos decodes a big-endian two's complement integer (own arithmetic:
// value = unsigned - 2^(8*len) when the top bit is set).
func FromTwos(v []byte) *big.Int {
	x := new(big.Int).SetBytes(v)
	if len(v) > 0 && v[0]&0x80 != 0 {
		m := new(big.Int).Lsh(big.NewInt(1), uint(8*len(v)))
		x.Sub(x, m)
	}
	return x
}

// ToTwos encodes x as minimal big-endian two's complement, sign-extended to a
// multiple of `mult` bytes (at least mult bytes).
func ToTwos(x *big.Int, mult int) []byte {
	// find the smallest n (multiple of mult, >= mult) with -2^(8n-1) <= x < 2^(8n-1)
	n := mult
	for {
		lim := new(big.Int).Lsh(big.NewInt(1), uint(8*n-1))
		neg := new(big.Int).Neg(lim)
		if x.Cmp(lim) < 0 && x.Cmp(neg) >= 0 {
			break
		}
		n += mult
	}
	y := new(big.Int).Set(x)
	if y.Sign() < 0 {
		y.Add(y, new(big.Int).Lsh(big.NewInt(1), uint(8*n)))
	}
	raw := y.Bytes()
	out := make([]byte, n)
	copy(out[n-len(raw):], raw)
	return out
}

// Write encodes a tree canonically.
func Write(n *Node) []byte {
	return appendItem(nil, n)
}

func WriteSeq(ns []*Node) []byte {
	var b []byte
	for _, n := range ns {
		b = appendItem(b, n)
	}
	return b
}

func appendHeader(b []byte, tag, typ, l int) []byte {
	return append(b, byte(tag>>16), byte(tag>>8), byte(tag), byte(typ), byte(l>>24), byte(l>>16), byte(l>>8), byte(l))
}

func appendBE(b []byte, x uint64, w int) []byte {
	for i := w - 1; i >= 0; i-- {
		b = append(b, byte(x>>(8*uint(i))))
	}
	return b
}

func appendItem(b []byte, n *Node) []byte {
	switch n.Type {
	case Structure:
		var body []byte
		for _, k := range n.Kids {
			body = appendItem(body, k)
		}
		b = appendHeader(b, n.Tag, n.Type, len(body))
		return append(b, body...)
	case Integer, Enumeration, Interval:
		b = appendHeader(b, n.Tag, n.Type, 4)
		b = appendBE(b, uint64(uint32(n.I)), 4)
		return append(b, 0, 0, 0, 0)
	case LongInteger, DateTime:
		b = appendHeader(b, n.Tag, n.Type, 8)
		return appendBE(b, uint64(n.I), 8)
	case Boolean:
		b = appendHeader(b, n.Tag, n.Type, 8)
		v := uint64(0)
		if n.I != 0 {
			v = 1
		}
		return appendBE(b, v, 8)
	case BigInteger:
		raw := ToTwos(n.Big, 8)
		b = appendHeader(b, n.Tag, n.Type, len(raw))
		return append(b, raw...)
	case TextString, ByteString:
		b = appendHeader(b, n.Tag, n.Type, len(n.B))
		b = append(b, n.B...)
		for i := 0; i < pad8(len(n.B)); i++ {
			b = append(b, 0)
		}
		return b
	}
	panic(fmt.Sprintf("ttlvref: bad node type %d", n.Type))
}

// Equal compares two trees by tag, type and value (not by wire quirks).
func Equal(a, b *Node) bool {
	return Diff(a, b) == ""
}

// Diff returns "" when the trees are equal, else a description of the first difference.
func Diff(a, b *Node) string {
	return diff(a, b, "")
}

func diff(a, b *Node, path string) string {
	if a == nil || b == nil {
		if a == b {
			return ""
		}
		return fmt.Sprintf("%s: one side missing", path)
	}
	p := fmt.Sprintf("%s/%06X", path, a.Tag)
	if a.Tag != b.Tag {
		return fmt.Sprintf("%s: tag %06X vs %06X", path, a.Tag, b.Tag)
	}
	if a.Type != b.Type {
		return fmt.Sprintf("%s: type %s vs %s", p, TypeNames[a.Type], TypeNames[b.Type])
	}
	switch a.Type {
	case Structure:
		for i := 0; i < len(a.Kids) || i < len(b.Kids); i++ {
			if i >= len(a.Kids) {
				return fmt.Sprintf("%s: right has extra child #%d %s", p, i, b.Kids[i].Short())
			}
			if i >= len(b.Kids) {
				return fmt.Sprintf("%s: left has extra child #%d %s", p, i, a.Kids[i].Short())
			}
			if d := diff(a.Kids[i], b.Kids[i], fmt.Sprintf("%s[%d]", p, i)); d != "" {
				return d
			}
		}
	case BigInteger:
		if a.Big.Cmp(b.Big) != 0 {
			return fmt.Sprintf("%s: big %s vs %s", p, a.Big.Text(16), b.Big.Text(16))
		}
	case TextString, ByteString:
		if string(a.B) != string(b.B) {
			return fmt.Sprintf("%s: bytes %x vs %x", p, a.B, b.B)
		}
	default:
		if a.I != b.I {
			return fmt.Sprintf("%s: value %d vs %d", p, a.I, b.I)
		}
	}
	return ""
}

// Short renders a one-line description of the node.
func (n *Node) Short() string {
	switch n.Type {
	case Structure:
		return fmt.Sprintf("%06X Structure(%d kids)", n.Tag, len(n.Kids))
	case BigInteger:
		return fmt.Sprintf("%06X BigInteger %s", n.Tag, n.Big.Text(16))
	case TextString:
		return fmt.Sprintf("%06X TextString %q", n.Tag, n.B)
	case ByteString:
		return fmt.Sprintf("%06X ByteString %s", n.Tag, hex.EncodeToString(n.B))
	}
	return fmt.Sprintf("%06X %s %d", n.Tag, TypeNames[n.Type], n.I)
}

// String renders the tree, indented.
func (n *Node) String() string {
	var sb strings.Builder
	n.render(&sb, 0)
	return sb.String()
}

func (n *Node) render(sb *strings.Builder, ind int) {
	sb.WriteString(strings.Repeat("  ", ind))
	sb.WriteString(n.Short())
	sb.WriteByte('\n')
	for _, k := range n.Kids {
		k.render(sb, ind+1)
	}
}

// Walk calls f on every node, depth first, parents first.
func (n *Node) Walk(f func(*Node, int)) { n.walk(f, 0) }
func (n *Node) walk(f func(*Node, int), d int) {
	f(n, d)
	for _, k := range n.Kids {
		k.walk(f, d+1)
	}
}

// Count returns the number of nodes.
func (n *Node) Count() int {
	c := 0
	n.Walk(func(*Node, int) { c++ })
	return c
}

// Clone deep-copies a tree.
func (n *Node) Clone() *Node {
	c := *n
	if n.Big != nil {
		c.Big = new(big.Int).Set(n.Big)
	}
	c.B = append([]byte(nil), n.B...)
	c.Kids = nil
	for _, k := range n.Kids {
		c.Kids = append(c.Kids, k.Clone())
	}
	return &c
}
