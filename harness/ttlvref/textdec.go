package ttlvref

import (
	"bytes"
	"encoding/hex"
	"encoding/json"
	"encoding/xml"
	"fmt"
	"io"
	"math/big"
	"strconv"
	"strings"
	"time"
)

// Resolver supplies the (pinned) registry to the independent text parsers.
type Resolver struct {
	TagByName  func(name string) (int, bool)
	EnumByName func(enumTag int, name string) (uint32, bool)
	MaskFlag   func(maskTag int, name string) (int32, bool)
}

// Elem is a generic document element (XML element or JSON object) before interpretation.
type Elem struct {
	Name  string // XML element name / JSON "tag"
	TagAt string // XML tag attribute
	Type  string
	Value string
	// JSON only: the raw value when it is not a string (number / bool)
	JSONNum  string
	JSONBool *bool
	HasValue bool
	Kids     []*Elem
}

// ParseXMLElems parses a document into element trees (all top-level elements).
func ParseXMLElems(data []byte) ([]*Elem, error) {
	d := xml.NewDecoder(bytes.NewReader(data))
	var stack []*Elem
	var roots []*Elem
	for {
		tok, err := d.Token()
		if err == io.EOF {
			break
		}
		if err != nil {
			return nil, err
		}
		switch e := tok.(type) {
		case xml.StartElement:
			n := &Elem{Name: e.Name.Local}
			for _, a := range e.Attr {
				switch a.Name.Local {
				case "tag":
					n.TagAt = a.Value
				case "type":
					n.Type = a.Value
				case "value":
					n.Value, n.HasValue = a.Value, true
				}
			}
			if len(stack) > 0 {
				p := stack[len(stack)-1]
				p.Kids = append(p.Kids, n)
			} else {
				roots = append(roots, n)
			}
			stack = append(stack, n)
		case xml.EndElement:
			if len(stack) == 0 {
				return nil, fmt.Errorf("unbalanced end element")
			}
			stack = stack[:len(stack)-1]
		}
	}
	if len(stack) != 0 {
		return nil, fmt.Errorf("unclosed element")
	}
	return roots, nil
}

// ParseJSONElem parses one JSON TTLV document.
func ParseJSONElem(data []byte) (*Elem, error) {
	d := json.NewDecoder(bytes.NewReader(data))
	d.UseNumber()
	var doc any
	if err := d.Decode(&doc); err != nil {
		return nil, err
	}
	if d.More() {
		return nil, fmt.Errorf("trailing JSON data")
	}
	return jsonElem(doc)
}

func jsonElem(v any) (*Elem, error) {
	m, ok := v.(map[string]any)
	if !ok {
		return nil, fmt.Errorf("element is not an object")
	}
	n := &Elem{}
	tag, ok := m["tag"].(string)
	if !ok {
		return nil, fmt.Errorf("element without string tag")
	}
	n.Name = tag
	if t, present := m["type"]; present {
		ts, ok := t.(string)
		if !ok {
			return nil, fmt.Errorf("type is not a string")
		}
		n.Type = ts
	}
	val, present := m["value"]
	if !present {
		return nil, fmt.Errorf("element %s without value", tag)
	}
	switch x := val.(type) {
	case []any:
		if n.Type != "" && n.Type != "Structure" {
			return nil, fmt.Errorf("array value for type %s", n.Type)
		}
		n.Type = "Structure"
		for _, k := range x {
			ke, err := jsonElem(k)
			if err != nil {
				return nil, err
			}
			n.Kids = append(n.Kids, ke)
		}
	case string:
		n.Value, n.HasValue = x, true
	case json.Number:
		n.JSONNum, n.HasValue = x.String(), true
	case bool:
		n.JSONBool, n.HasValue = &x, true
	default:
		return nil, fmt.Errorf("element %s has a value of kind %T", tag, val)
	}
	return n, nil
}

var typeByName = map[string]int{"Structure": 1, "Integer": 2, "LongInteger": 3, "BigInteger": 4, "Enumeration": 5, "Boolean": 6,
	"TextString": 7, "ByteString": 8, "DateTime": 9, "Interval": 10}

const tagAttributeValue = 0x42000B
const tagAttributeName = 0x42000A

func squeeze(s string) string {
	var b strings.Builder
	for _, r := range s {
		if r >= 'a' && r <= 'z' || r >= 'A' && r <= 'Z' || r >= '0' && r <= '9' {
			b.WriteRune(r)
		}
	}
	return b.String()
}

// ToNode interprets an element tree as a TTLV tree. json selects the JSON lexical rules.
func (r Resolver) ToNode(e *Elem, isJSON bool) (*Node, error) {
	return r.toNode(e, isJSON, 0)
}

func parseHexTag(s string) (int, bool) {
	if !strings.HasPrefix(s, "0x") {
		return 0, false
	}
	v, err := strconv.ParseUint(s[2:], 16, 24)
	return int(v), err == nil
}

func (r Resolver) toNode(e *Elem, isJSON bool, ctx int) (*Node, error) {
	n := &Node{}
	switch {
	case !isJSON && e.Name == "TTLV":
		t, ok := parseHexTag(e.TagAt)
		if !ok {
			return nil, fmt.Errorf("bad tag attribute %q", e.TagAt)
		}
		n.Tag = t
	case strings.HasPrefix(e.Name, "0x"):
		t, ok := parseHexTag(e.Name)
		if !ok {
			return nil, fmt.Errorf("bad hex tag %q", e.Name)
		}
		n.Tag = t
	default:
		t, ok := r.TagByName(e.Name)
		if !ok {
			return nil, fmt.Errorf("unknown tag name %q", e.Name)
		}
		n.Tag = t
	}
	ty := 1
	if e.Type != "" {
		var ok bool
		if ty, ok = typeByName[e.Type]; !ok {
			return nil, fmt.Errorf("unknown type %q", e.Type)
		}
	}
	n.Type = ty
	scope := n.Tag
	if n.Tag == tagAttributeValue && ctx != 0 {
		scope = ctx
	}
	if ty == Structure {
		if e.HasValue && !isJSON {
			return nil, fmt.Errorf("structure %s with a value attribute", e.Name)
		}
		// attribute name context for the AttributeValue sibling
		kctx := 0
		for _, k := range e.Kids {
			kn, err := r.toNode(k, isJSON, kctx)
			if err != nil {
				return nil, fmt.Errorf("%s/%w", e.Name, err)
			}
			if kn.Tag == tagAttributeName && kn.Type == TextString {
				if t, ok := r.TagByName(squeeze(string(kn.B))); ok {
					kctx = t
				}
			}
			n.Kids = append(n.Kids, kn)
		}
		return n, nil
	}
	if !e.HasValue {
		return nil, fmt.Errorf("%s: scalar without value", e.Name)
	}
	val := e.Value
	num := func(bits int, signed bool) (int64, error) {
		s := val
		if e.JSONNum != "" {
			s = e.JSONNum
		}
		if strings.HasPrefix(s, "0x") {
			u, err := strconv.ParseUint(s[2:], 16, bits)
			if err != nil {
				return 0, err
			}
			if bits == 32 && signed {
				return int64(int32(uint32(u))), nil
			}
			return int64(u), nil
		}
		if signed {
			return strconv.ParseInt(s, 10, bits)
		}
		u, err := strconv.ParseUint(s, 10, bits)
		return int64(u), err
	}
	var err error
	switch ty {
	case Integer:
		if e.JSONNum != "" {
			n.I, err = num(32, true)
			break
		}
		var toks []string
		if isJSON {
			toks = strings.Split(val, "|")
		} else {
			toks = strings.Fields(val)
		}
		acc := int32(0)
		for _, tk := range toks {
			tk = strings.TrimSpace(tk)
			if tk == "" {
				continue
			}
			if strings.HasPrefix(tk, "0x") {
				u, perr := strconv.ParseUint(tk[2:], 16, 32)
				if perr != nil {
					return nil, fmt.Errorf("%s: %v", e.Name, perr)
				}
				acc |= int32(uint32(u))
				continue
			}
			if v, perr := strconv.ParseInt(tk, 10, 32); perr == nil {
				acc |= int32(v)
				continue
			}
			f, ok := r.MaskFlag(scope, tk)
			if !ok {
				return nil, fmt.Errorf("%s: unknown mask flag %q", e.Name, tk)
			}
			acc |= f
		}
		n.I = int64(acc)
	case LongInteger:
		n.I, err = num(64, true)
	case Interval:
		n.I, err = num(32, false)
	case Enumeration:
		s := val
		if e.JSONNum != "" {
			s = e.JSONNum
		}
		if strings.HasPrefix(s, "0x") {
			var u uint64
			u, err = strconv.ParseUint(s[2:], 16, 32)
			n.I = int64(u)
		} else if u, perr := strconv.ParseUint(s, 10, 32); perr == nil {
			n.I = int64(u)
		} else {
			v, ok := r.EnumByName(scope, s)
			if !ok {
				return nil, fmt.Errorf("%s: unknown enumeration name %q (scope %06X)", e.Name, s, scope)
			}
			n.I = int64(v)
		}
	case Boolean:
		switch {
		case e.JSONBool != nil:
			if *e.JSONBool {
				n.I = 1
			}
		case strings.EqualFold(val, "true"):
			n.I = 1
		case strings.EqualFold(val, "false"):
		case strings.HasPrefix(val, "0x"):
			u, perr := strconv.ParseUint(val[2:], 16, 64)
			err = perr
			if u != 0 {
				n.I = 1
			}
		default:
			err = fmt.Errorf("bad boolean %q", val)
		}
	case BigInteger:
		if e.JSONNum != "" {
			b, ok := new(big.Int).SetString(e.JSONNum, 10)
			if !ok {
				return nil, fmt.Errorf("bad big integer number")
			}
			n.Big = b
			break
		}
		s := strings.TrimPrefix(val, "0x")
		raw, herr := hex.DecodeString(s)
		if herr != nil || len(raw) == 0 {
			return nil, fmt.Errorf("%s: bad big integer hex %q", e.Name, val)
		}
		n.Big = FromTwos(raw)
	case TextString:
		if e.JSONNum != "" || e.JSONBool != nil {
			return nil, fmt.Errorf("text string with non-string value")
		}
		n.B = []byte(val)
	case ByteString:
		n.B, err = hex.DecodeString(val)
		if n.B == nil {
			n.B = []byte{}
		}
	case DateTime:
		var t time.Time
		t, err = time.Parse(time.RFC3339, val)
		n.I = t.Unix()
	}
	if err != nil {
		return nil, fmt.Errorf("%s: %v", e.Name, err)
	}
	return n, nil
}

// WriteElemXML re-serialises an element tree as XML (used to cut single messages out of a vector file).
func WriteElemXML(e *Elem) []byte {
	var b bytes.Buffer
	writeElemXML(&b, e)
	return b.Bytes()
}

func writeElemXML(b *bytes.Buffer, e *Elem) {
	b.WriteString("<" + e.Name)
	if e.TagAt != "" {
		fmt.Fprintf(b, ` tag="%s"`, xmlAttr(e.TagAt))
	}
	if e.Type != "" {
		fmt.Fprintf(b, ` type="%s"`, xmlAttr(e.Type))
	}
	if e.HasValue {
		fmt.Fprintf(b, ` value="%s"`, xmlAttr(e.Value))
	}
	if len(e.Kids) == 0 && e.Type != "" {
		b.WriteString("/>")
		return
	}
	b.WriteString(">")
	for _, k := range e.Kids {
		writeElemXML(b, k)
	}
	b.WriteString("</" + e.Name + ">")
}
