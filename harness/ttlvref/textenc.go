package ttlvref

import (
	"bytes"
	"encoding/hex"
	"encoding/json"
	"encoding/xml"
	"fmt"
	"strconv"
	"strings"
	"time"
)

// Names resolves a tag number to its registered name ("" when unregistered).
type Names func(tag int) string

// WriteXML renders the tree in the KMIP XML encoding (profiles 5.4), written
// independently of the library: numbers in decimal, enumerations in hex,
// integers (also masks) as numbers, dates as RFC 3339 in UTC.
func WriteXML(n *Node, names Names) []byte {
	var b bytes.Buffer
	writeXML(&b, n, names)
	return b.Bytes()
}

func xmlAttr(s string) string {
	var b bytes.Buffer
	_ = xml.EscapeText(&b, []byte(s))
	return b.String()
}

func scalarText(n *Node) string {
	switch n.Type {
	case Integer, LongInteger, Interval:
		return strconv.FormatInt(n.I, 10)
	case Enumeration:
		return fmt.Sprintf("0x%08X", uint32(n.I))
	case Boolean:
		if n.I != 0 {
			return "true"
		}
		return "false"
	case BigInteger:
		return strings.ToUpper(hex.EncodeToString(ToTwos(n.Big, 8)))
	case TextString:
		return string(n.B)
	case ByteString:
		return strings.ToUpper(hex.EncodeToString(n.B))
	case DateTime:
		return time.Unix(n.I, 0).UTC().Format(time.RFC3339)
	}
	panic("scalarText")
}

func writeXML(b *bytes.Buffer, n *Node, names Names) {
	name := names(n.Tag)
	el := name
	attrs := ""
	if name == "" {
		el = "TTLV"
		attrs = fmt.Sprintf(` tag="0x%06X"`, n.Tag)
	}
	if n.Type == Structure {
		fmt.Fprintf(b, "<%s%s>", el, attrs)
		for _, k := range n.Kids {
			writeXML(b, k, names)
		}
		fmt.Fprintf(b, "</%s>", el)
		return
	}
	fmt.Fprintf(b, `<%s%s type="%s" value="%s"/>`, el, attrs, TypeNames[n.Type], xmlAttr(scalarText(n)))
}

// WriteJSON renders the tree in the KMIP JSON encoding (profiles 5.5).
func WriteJSON(n *Node, names Names) []byte {
	var b bytes.Buffer
	writeJSON(&b, n, names)
	return b.Bytes()
}

func jstr(s string) string {
	var b bytes.Buffer
	e := json.NewEncoder(&b)
	e.SetEscapeHTML(false)
	_ = e.Encode(s)
	return strings.TrimSuffix(b.String(), "\n")
}

func writeJSON(b *bytes.Buffer, n *Node, names Names) {
	name := names(n.Tag)
	if name == "" {
		name = fmt.Sprintf("0x%06X", n.Tag)
	}
	if n.Type == Structure {
		fmt.Fprintf(b, `{"tag":%s,"value":[`, jstr(name))
		for i, k := range n.Kids {
			if i > 0 {
				b.WriteByte(',')
			}
			writeJSON(b, k, names)
		}
		b.WriteString("]}")
		return
	}
	var val string
	const p52 = int64(1) << 52
	switch n.Type {
	case Integer, Interval:
		val = strconv.FormatInt(n.I, 10)
	case LongInteger:
		if n.I >= p52 || n.I <= -p52 {
			val = fmt.Sprintf(`"0x%016x"`, uint64(n.I))
		} else {
			val = strconv.FormatInt(n.I, 10)
		}
	case BigInteger:
		val = `"0x` + hex.EncodeToString(ToTwos(n.Big, 8)) + `"`
	case Boolean:
		val = scalarText(n)
	default:
		val = jstr(scalarText(n))
	}
	fmt.Fprintf(b, `{"tag":%s,"type":"%s","value":%s}`, jstr(name), TypeNames[n.Type], val)
}
