// Package vendortypes holds Go types as a vendor extension package would declare them: enumerations and masks of its
// own, registered at run time under the vendor's own tags, and called - as Go types in another package may be - like
// tags of the standard registry.
package vendortypes

// State is a vendor enumeration (the standard registry has a tag called "State" too).
type State uint32

// ObjectType is a vendor enumeration (the standard registry has a tag called "ObjectType" too).
type ObjectType uint32

// StorageStatusMask is a vendor mask (the standard registry has a tag called "StorageStatusMask" too).
type StorageStatusMask int32
