package gen

import (
	"reflect"
	"time"

	"github.com/ovh/kmip-go/ttlv"
)

// Relocate places the date values found in v (a pointer to a message, payload or generic value) into the locations
// selected by zones (see InZone), cycling through the list in the order the dates are met. The instants, and with them
// every encoding's meaning, stay what they were: a decoded value only ever holds dates in Local, this gives a value
// the other shapes an application's own dates have.
func Relocate(v any, zones []int) int {
	if len(zones) == 0 {
		return 0
	}
	n := 0
	var walk func(rv reflect.Value)
	walk = func(rv reflect.Value) {
		switch rv.Kind() {
		case reflect.Pointer, reflect.Interface:
			if rv.IsNil() {
				return
			}
			if rv.Kind() == reflect.Interface {
				// a date held in an interface (generic values): replace the interface's content
				if t, ok := rv.Interface().(time.Time); ok && rv.CanSet() {
					rv.Set(reflect.ValueOf(InZone(t, zones[n%len(zones)])))
					n++
					return
				}
				if tv, ok := rv.Interface().(ttlv.Struct); ok && rv.CanSet() {
					cp := append(ttlv.Struct{}, tv...)
					walk(reflect.ValueOf(&cp).Elem())
					rv.Set(reflect.ValueOf(cp))
					return
				}
				if rv.Elem().Kind() != reflect.Pointer {
					return
				}
			}
			walk(rv.Elem())
		case reflect.Struct:
			if rv.Type() == tTime {
				if rv.CanSet() {
					rv.Set(reflect.ValueOf(InZone(rv.Interface().(time.Time), zones[n%len(zones)])))
					n++
				}
				return
			}
			if rv.Type() == tBigInt {
				return
			}
			for i := 0; i < rv.NumField(); i++ {
				if rv.Type().Field(i).IsExported() {
					walk(rv.Field(i))
				}
			}
		case reflect.Slice, reflect.Array:
			if rv.Type().Elem().Kind() == reflect.Uint8 {
				return
			}
			for i := 0; i < rv.Len(); i++ {
				walk(rv.Index(i))
			}
		}
	}
	walk(reflect.ValueOf(v))
	return n
}
