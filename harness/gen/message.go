package gen

import (
	"fmt"
	"math/big"
	"reflect"
	"sort"
	"strings"
	"time"

	kmip "github.com/ovh/kmip-go"
	"github.com/ovh/kmip-go/payloads"
	"github.com/ovh/kmip-go/ttlv"
	"pgregory.net/rapid"

	"verif/harness/pins"
)

// OpEntry pairs an operation code with constructors of its payload types.
type OpEntry struct {
	Op   kmip.Operation
	Req  func() kmip.OperationPayload
	Resp func() kmip.OperationPayload
}

func op[Rq, Rs any, PRq interface {
	*Rq
	kmip.OperationPayload
}, PRs interface {
	*Rs
	kmip.OperationPayload
}](o kmip.Operation) OpEntry {
	return OpEntry{o, func() kmip.OperationPayload { return PRq(new(Rq)) }, func() kmip.OperationPayload { return PRs(new(Rs)) }}
}

// Ops is the harness' own table of the 27 implemented operations (typed, not read from the library registry).
var Ops = []OpEntry{
	op[payloads.CreateRequestPayload, payloads.CreateResponsePayload](kmip.OperationCreate),
	op[payloads.CreateKeyPairRequestPayload, payloads.CreateKeyPairResponsePayload](kmip.OperationCreateKeyPair),
	op[payloads.RegisterRequestPayload, payloads.RegisterResponsePayload](kmip.OperationRegister),
	op[payloads.RekeyRequestPayload, payloads.RekeyResponsePayload](kmip.OperationReKey),
	op[payloads.LocateRequestPayload, payloads.LocateResponsePayload](kmip.OperationLocate),
	op[payloads.GetRequestPayload, payloads.GetResponsePayload](kmip.OperationGet),
	op[payloads.GetAttributesRequestPayload, payloads.GetAttributesResponsePayload](kmip.OperationGetAttributes),
	op[payloads.GetAttributeListRequestPayload, payloads.GetAttributeListResponsePayload](kmip.OperationGetAttributeList),
	op[payloads.AddAttributeRequestPayload, payloads.AddAttributeResponsePayload](kmip.OperationAddAttribute),
	op[payloads.ModifyAttributeRequestPayload, payloads.ModifyAttributeResponsePayload](kmip.OperationModifyAttribute),
	op[payloads.DeleteAttributeRequestPayload, payloads.DeleteAttributeResponsePayload](kmip.OperationDeleteAttribute),
	op[payloads.ObtainLeaseRequestPayload, payloads.ObtainLeaseResponsePayload](kmip.OperationObtainLease),
	op[payloads.GetUsageAllocationRequestPayload, payloads.GetUsageAllocationResponsePayload](kmip.OperationGetUsageAllocation),
	op[payloads.ActivateRequestPayload, payloads.ActivateResponsePayload](kmip.OperationActivate),
	op[payloads.RevokeRequestPayload, payloads.RevokeResponsePayload](kmip.OperationRevoke),
	op[payloads.DestroyRequestPayload, payloads.DestroyResponsePayload](kmip.OperationDestroy),
	op[payloads.ArchiveRequestPayload, payloads.ArchiveResponsePayload](kmip.OperationArchive),
	op[payloads.RecoverRequestPayload, payloads.RecoverResponsePayload](kmip.OperationRecover),
	op[payloads.QueryRequestPayload, payloads.QueryResponsePayload](kmip.OperationQuery),
	op[payloads.RekeyKeyPairRequestPayload, payloads.RekeyKeyPairResponsePayload](kmip.OperationReKeyKeyPair),
	op[payloads.DiscoverVersionsRequestPayload, payloads.DiscoverVersionsResponsePayload](kmip.OperationDiscoverVersions),
	op[payloads.EncryptRequestPayload, payloads.EncryptResponsePayload](kmip.OperationEncrypt),
	op[payloads.DecryptRequestPayload, payloads.DecryptResponsePayload](kmip.OperationDecrypt),
	op[payloads.SignRequestPayload, payloads.SignResponsePayload](kmip.OperationSign),
	op[payloads.SignatureVerifyRequestPayload, payloads.SignatureVerifyResponsePayload](kmip.OperationSignatureVerify),
	op[payloads.ImportRequestPayload, payloads.ImportResponsePayload](kmip.OperationImport),
	op[payloads.ExportRequestPayload, payloads.ExportResponsePayload](kmip.OperationExport),
}

// UnimplementedOps are operation codes that the registry names but has no payload types for.
var UnimplementedOps = []kmip.Operation{
	kmip.OperationDeriveKey, kmip.OperationCertify, kmip.OperationReCertify, kmip.OperationCheck, kmip.OperationValidate,
	kmip.OperationCancel, kmip.OperationPoll, kmip.OperationNotify, kmip.OperationPut, kmip.OperationMAC, kmip.OperationMACVerify,
	kmip.OperationRNGRetrieve, kmip.OperationRNGSeed, kmip.OperationHash, kmip.OperationCreateSplitKey, kmip.OperationJoinSplitKey,
}

// Objects is the harness' own table of the 9 managed object types.
var Objects = []struct {
	Type kmip.ObjectType
	New  func() kmip.Object
}{
	{kmip.ObjectTypeCertificate, func() kmip.Object { return &kmip.Certificate{} }},
	{kmip.ObjectTypeSymmetricKey, func() kmip.Object { return &kmip.SymmetricKey{} }},
	{kmip.ObjectTypePublicKey, func() kmip.Object { return &kmip.PublicKey{} }},
	{kmip.ObjectTypePrivateKey, func() kmip.Object { return &kmip.PrivateKey{} }},
	{kmip.ObjectTypeSplitKey, func() kmip.Object { return &kmip.SplitKey{} }},
	{kmip.ObjectTypeTemplate, func() kmip.Object { return &kmip.Template{} }},
	{kmip.ObjectTypeSecretData, func() kmip.Object { return &kmip.SecretData{} }},
	{kmip.ObjectTypeOpaqueObject, func() kmip.Object { return &kmip.OpaqueObject{} }},
	{kmip.ObjectTypePGPKey, func() kmip.Object { return &kmip.PGPKey{} }},
}

// goTypes resolves the Go type names used in pins/attributes.json.
var goTypes = map[string]reflect.Type{
	"string": reflect.TypeFor[string](), "int32": reflect.TypeFor[int32](), "bool": reflect.TypeFor[bool](),
	"time.Time": reflect.TypeFor[time.Time](), "time.Duration": reflect.TypeFor[time.Duration](),
	"kmip.Name": reflect.TypeFor[kmip.Name](), "kmip.ObjectType": reflect.TypeFor[kmip.ObjectType](),
	"kmip.CryptographicAlgorithm":         reflect.TypeFor[kmip.CryptographicAlgorithm](),
	"kmip.CryptographicParameters":        reflect.TypeFor[kmip.CryptographicParameters](),
	"kmip.CryptographicDomainParameters":  reflect.TypeFor[kmip.CryptographicDomainParameters](),
	"kmip.CertificateType":                reflect.TypeFor[kmip.CertificateType](),
	"kmip.Digest":                         reflect.TypeFor[kmip.Digest](),
	"kmip.CryptographicUsageMask":         reflect.TypeFor[kmip.CryptographicUsageMask](),
	"kmip.State":                          reflect.TypeFor[kmip.State](),
	"kmip.RevocationReason":               reflect.TypeFor[kmip.RevocationReason](),
	"kmip.Link":                           reflect.TypeFor[kmip.Link](),
	"kmip.CertificateIdentifier":          reflect.TypeFor[kmip.CertificateIdentifier](),
	"kmip.CertificateSubject":             reflect.TypeFor[kmip.CertificateSubject](),
	"kmip.CertificateIssuer":              reflect.TypeFor[kmip.CertificateIssuer](),
	"kmip.UsageLimits":                    reflect.TypeFor[kmip.UsageLimits](),
	"kmip.ApplicationSpecificInformation": reflect.TypeFor[kmip.ApplicationSpecificInformation](),
	"kmip.X_509CertificateIdentifier":     reflect.TypeFor[kmip.X_509CertificateIdentifier](),
	"kmip.X_509CertificateSubject":        reflect.TypeFor[kmip.X_509CertificateSubject](),
	"kmip.X_509CertificateIssuer":         reflect.TypeFor[kmip.X_509CertificateIssuer](),
	"kmip.DigitalSignatureAlgorithm":      reflect.TypeFor[kmip.DigitalSignatureAlgorithm](),
	"kmip.AlternativeName":                reflect.TypeFor[kmip.AlternativeName](),
	"kmip.KeyValueLocation":               reflect.TypeFor[kmip.KeyValueLocation](),
	"kmip.RNGParameters":                  reflect.TypeFor[kmip.RNGParameters](),
}

// AttrGoType returns the pinned Go type of a standard attribute.
func AttrGoType(name string) (reflect.Type, bool) {
	tn, ok := pins.Attributes[name]
	if !ok {
		return nil, false
	}
	t, ok := goTypes[tn]
	if !ok {
		panic("gen: pinned attribute type " + tn + " has no Go type in the harness table")
	}
	return t, true
}

var StdAttrNames = func() []string {
	var out []string
	for n := range pins.Attributes {
		out = append(out, n)
	}
	sort.Strings(out)
	return out
}()

// byte-material key formats, transparent formats with a struct, and formats the library has no struct for.
var (
	byteFormats = []kmip.KeyFormatType{kmip.KeyFormatTypeRaw, kmip.KeyFormatTypeOpaque, kmip.KeyFormatTypePKCS_1, kmip.KeyFormatTypePKCS_8, kmip.KeyFormatTypeX_509, kmip.KeyFormatTypeECPrivateKey}
	structFmts  = []kmip.KeyFormatType{kmip.KeyFormatTypeTransparentSymmetricKey, kmip.KeyFormatTypeTransparentRSAPrivateKey, kmip.KeyFormatTypeTransparentRSAPublicKey,
		kmip.KeyFormatTypeTransparentECDSAPrivateKey, kmip.KeyFormatTypeTransparentECDSAPublicKey, kmip.KeyFormatTypeTransparentECPrivateKey, kmip.KeyFormatTypeTransparentECPublicKey}
	// AllKeyFormats: the 13 formats with a material representation in the library.
	AllKeyFormats = append(append([]kmip.KeyFormatType{}, byteFormats...), structFmts...)
)

// MsgOpts tunes the message generator.
type MsgOpts struct {
	Alphabet     string // utf8 | json | xml | ascii
	TextSafe     bool   // dates within years 1..9999
	PopulateAll  bool   // populate every optional element
	MaxItems     int
	NoUnknownOps bool
	// ForceVersion fixes the header version when non-nil.
	ForceVersion *kmip.ProtocolVersion
	// AllowGated: leave elements populated that the pinned version table says are later than the header version
	// (default false: they are cleared, so that the message is valid at its version).
	AllowGated bool
	// RegisteredTagsOnly: generic values only use registered tags (needed when the message goes through a text
	// encoding and back, because unregistered tags are written as hex and come back identical anyway this is
	// not required; kept false).
	Labels func(...string)
	// OnlyOps: batch items use these operations only (and no unknown ones) when non-empty.
	OnlyOps []kmip.Operation
}

type G struct {
	T     *rapid.T
	O     MsgOpts
	Ver   kmip.ProtocolVersion
	depth int
	n     int
	want  string // directed generation: struct type that must occur (C05)
	// lastDate: the instant of the date drawn last (one date in four repeats it, usually in another location:
	// equal values next to each other are what value-keyed shortcuts trip over)
	lastDate    int64
	hasLastDate bool
}

func (g *G) label(l ...string) {
	if g.O.Labels != nil {
		g.O.Labels(l...)
	}
}

func (g *G) lbl(s string) string { g.n++; return fmt.Sprintf("%s#%d", s, g.n) }

func (g *G) coin(label string, num, den int) bool {
	if g.O.PopulateAll {
		return true
	}
	return rapid.IntRange(1, den).Draw(g.T, g.lbl(label)) <= num
}

var Versions = []kmip.ProtocolVersion{kmip.V1_0, kmip.V1_1, kmip.V1_2, kmip.V1_3, kmip.V1_4}

// Request draws a well-formed request message.
func Request(t *rapid.T, o MsgOpts) *kmip.RequestMessage {
	g := newG(t, o)
	m := &kmip.RequestMessage{}
	g.fillStruct(reflect.ValueOf(&m.Header).Elem())
	m.Header.ProtocolVersion = g.Ver
	n := rapid.IntRange(0, g.maxItems()).Draw(t, "items")
	m.Header.BatchCount = int32(n)
	for i := 0; i < n; i++ {
		m.BatchItem = append(m.BatchItem, g.requestItem(i))
	}
	g.finish(reflect.ValueOf(m).Elem())
	return m
}

// Response draws a well-formed response message.
func Response(t *rapid.T, o MsgOpts) *kmip.ResponseMessage {
	g := newG(t, o)
	m := &kmip.ResponseMessage{}
	g.fillStruct(reflect.ValueOf(&m.Header).Elem())
	m.Header.ProtocolVersion = g.Ver
	n := rapid.IntRange(0, g.maxItems()).Draw(t, "items")
	m.Header.BatchCount = int32(n)
	for i := 0; i < n; i++ {
		m.BatchItem = append(m.BatchItem, g.responseItem(i))
	}
	g.finish(reflect.ValueOf(m).Elem())
	return m
}

func (g *G) maxItems() int {
	if g.O.MaxItems > 0 {
		return g.O.MaxItems
	}
	return 3
}

func newG(t *rapid.T, o MsgOpts) *G {
	if o.Alphabet == "" {
		o.Alphabet = "utf8"
	}
	g := &G{T: t, O: o}
	if o.ForceVersion != nil {
		g.Ver = *o.ForceVersion
	} else {
		g.Ver = rapid.SampledFrom(Versions).Draw(t, "version")
	}
	g.label(fmt.Sprintf("version=%d.%d", g.Ver.ProtocolVersionMajor, g.Ver.ProtocolVersionMinor))
	return g
}

func (g *G) finish(v reflect.Value) {
	if !g.O.AllowGated {
		StripGated(v, g.Ver)
	}
}

// NewG exposes the generator state for callers that want single payloads/objects.
func NewG(t *rapid.T, o MsgOpts) *G { return newG(t, o) }

func (g *G) opChoice() (OpEntry, bool) {
	if len(g.O.OnlyOps) > 0 {
		op := rapid.SampledFrom(g.O.OnlyOps).Draw(g.T, g.lbl("onlyop"))
		for _, e := range Ops {
			if e.Op == op {
				return e, true
			}
		}
	}
	if !g.O.NoUnknownOps && rapid.IntRange(0, 11).Draw(g.T, g.lbl("unknownop")) == 0 {
		var code kmip.Operation
		if rapid.Bool().Draw(g.T, g.lbl("namedunimpl")) {
			code = rapid.SampledFrom(UnimplementedOps).Draw(g.T, g.lbl("op"))
		} else {
			code = kmip.Operation(rapid.Uint32Range(0x2C, 0xFFFFFFFF).Draw(g.T, g.lbl("op")))
		}
		return OpEntry{Op: code}, false
	}
	return rapid.SampledFrom(Ops).Draw(g.T, g.lbl("op")), true
}

func (g *G) unknownPayload(code kmip.Operation) kmip.OperationPayload {
	k := rapid.IntRange(0, 3).Draw(g.T, g.lbl("ufields"))
	var fields []ttlv.Value
	for i := 0; i < k; i++ {
		fields = append(fields, g.genericValue(0))
	}
	g.label("op=unknown")
	return kmip.NewUnknownPayload(code, fields...)
}

func (g *G) batchID(i int) []byte {
	switch rapid.IntRange(0, 2).Draw(g.T, g.lbl("idkind")) {
	case 0:
		return nil
	case 1:
		return []byte{byte(i + 1)}
	default:
		b := Bytes(g.T, g.lbl("id"), 12)
		return append(b, byte(i)) // unique within the batch
	}
}

func (g *G) requestItem(i int) kmip.RequestBatchItem {
	e, known := g.opChoice()
	it := kmip.RequestBatchItem{Operation: e.Op, UniqueBatchItemID: g.batchID(i)}
	if known {
		it.RequestPayload = e.Req()
		g.fillPayload(it.RequestPayload)
		g.label("req=" + reflect.TypeOf(it.RequestPayload).Elem().Name())
	} else {
		it.RequestPayload = g.unknownPayload(e.Op)
	}
	if g.coin("ext", 1, 4) {
		it.MessageExtension = g.messageExtension()
	}
	return it
}

func (g *G) messageExtension() *kmip.MessageExtension {
	me := &kmip.MessageExtension{VendorIdentification: Text(g.T, g.lbl("vendor"), g.O.Alphabet, 12), CriticalityIndicator: rapid.Bool().Draw(g.T, g.lbl("crit"))}
	k := rapid.IntRange(0, 3).Draw(g.T, g.lbl("extfields"))
	for i := 0; i < k; i++ {
		me.VendorExtension = append(me.VendorExtension, g.genericValue(0))
	}
	g.label("message-extension")
	return me
}

var (
	resultStatuses = []kmip.ResultStatus{kmip.ResultStatusSuccess, kmip.ResultStatusOperationFailed, kmip.ResultStatusOperationPending, kmip.ResultStatusOperationUndone}
)

func (g *G) responseItem(i int) kmip.ResponseBatchItem {
	it := kmip.ResponseBatchItem{UniqueBatchItemID: g.batchID(i)}
	it.ResultStatus = rapid.SampledFrom(resultStatuses).Draw(g.T, g.lbl("status"))
	if rapid.IntRange(0, 15).Draw(g.T, g.lbl("oddstatus")) == 0 {
		it.ResultStatus = kmip.ResultStatus(g.enumValue(reflect.TypeFor[kmip.ResultStatus]()))
	}
	if it.ResultStatus != kmip.ResultStatusSuccess || rapid.IntRange(0, 5).Draw(g.T, g.lbl("reasononsuccess")) == 0 {
		if rapid.IntRange(0, 3).Draw(g.T, g.lbl("noreason")) != 0 {
			it.ResultReason = kmip.ResultReason(g.enumValue(reflect.TypeFor[kmip.ResultReason]()))
		}
		if g.coin("msg", 1, 2) {
			it.ResultMessage = Text(g.T, g.lbl("resultmsg"), g.O.Alphabet, 30)
		}
	}
	if g.coin("async", 1, 6) {
		it.AsynchronousCorrelationValue = Bytes(g.T, g.lbl("acv"), 12)
	}
	// an item carries a payload only together with its operation
	if g.coin("hasop", 5, 6) {
		e, known := g.opChoice()
		it.Operation = e.Op
		if g.coin("haspayload", 4, 5) {
			if known {
				it.ResponsePayload = e.Resp()
				g.fillPayload(it.ResponsePayload)
				g.label("resp=" + reflect.TypeOf(it.ResponsePayload).Elem().Name())
			} else {
				it.ResponsePayload = g.unknownPayload(e.Op)
			}
		}
	}
	if g.coin("ext", 1, 4) {
		it.MessageExtension = g.messageExtension()
	}
	return it
}

// Payload draws a populated payload of the given operation entry.
func (g *G) Payload(e OpEntry, response bool) kmip.OperationPayload {
	var p kmip.OperationPayload
	if response {
		p = e.Resp()
	} else {
		p = e.Req()
	}
	g.fillPayload(p)
	if !g.O.AllowGated {
		StripGated(reflect.ValueOf(p).Elem(), g.Ver)
	}
	return p
}

func (g *G) fillPayload(p kmip.OperationPayload) {
	switch pl := p.(type) {
	case *payloads.GetResponsePayload:
		pl.UniqueIdentifier = Text(g.T, g.lbl("uid"), g.O.Alphabet, 20)
		pl.Object = g.Object()
		pl.ObjectType = pl.Object.ObjectType()
	case *payloads.RegisterRequestPayload:
		g.fillStruct(reflect.ValueOf(&pl.TemplateAttribute).Elem())
		pl.Object = g.Object()
		pl.ObjectType = pl.Object.ObjectType()
	case *payloads.ExportResponsePayload:
		pl.UniqueIdentifier = Text(g.T, g.lbl("uid"), g.O.Alphabet, 20)
		pl.Attribute = g.attributes(3)
		pl.Object = g.Object()
		pl.ObjectType = pl.Object.ObjectType()
	case *payloads.ImportRequestPayload:
		pl.UniqueIdentifier = Text(g.T, g.lbl("uid"), g.O.Alphabet, 20)
		pl.ReplaceExisting = rapid.Bool().Draw(g.T, g.lbl("replace"))
		if g.coin("kwt", 1, 2) {
			pl.KeyWrapType = kmip.KeyWrapType(g.enumValue(reflect.TypeFor[kmip.KeyWrapType]()))
		}
		pl.Object = g.Object()
		// the object type attribute decides which object follows: first such attribute must name the object's type
		before := g.attributesExcluding(2, "Object Type")
		after := g.attributes(2)
		pl.Attribute = append(before, kmip.Attribute{AttributeName: kmip.AttributeNameObjectType, AttributeValue: pl.Object.ObjectType()})
		if rapid.Bool().Draw(g.T, g.lbl("objtypeidx")) {
			idx := int32(0)
			pl.Attribute[len(pl.Attribute)-1].AttributeIndex = &idx
		}
		pl.Attribute = append(pl.Attribute, after...)
	default:
		g.fillStruct(reflect.ValueOf(p).Elem())
	}
}

// Object draws a managed object of any of the 9 types.
func (g *G) Object() kmip.Object {
	e := rapid.SampledFrom(Objects).Draw(g.T, g.lbl("objtype"))
	o := e.New()
	g.label("object=" + reflect.TypeOf(o).Elem().Name())
	g.fillStruct(reflect.ValueOf(o).Elem())
	return o
}

func (g *G) attributes(max int) []kmip.Attribute {
	return g.attributesExcluding(max, "")
}

func (g *G) attributesExcluding(max int, excl string) []kmip.Attribute {
	n := rapid.IntRange(0, max).Draw(g.T, g.lbl("nattr"))
	if g.O.PopulateAll && n == 0 {
		n = 1
	}
	var out []kmip.Attribute
	for i := 0; i < n; i++ {
		a := g.Attribute()
		if excl != "" && string(a.AttributeName) == excl {
			continue
		}
		out = append(out, a)
	}
	return out
}

// Attribute draws an attribute whose value type is consistent with its name.
func (g *G) Attribute() kmip.Attribute {
	a := kmip.Attribute{}
	if g.coin("attridx", 1, 3) {
		idx := Int32(g.T, g.lbl("idx"))
		a.AttributeIndex = &idx
	}
	switch rapid.IntRange(0, 9).Draw(g.T, g.lbl("attrclass")) {
	case 0: // custom
		pfx := rapid.SampledFrom([]string{"x-", "y-"}).Draw(g.T, g.lbl("pfx"))
		a.AttributeName = kmip.AttributeName(pfx + Text(g.T, g.lbl("cname"), g.O.Alphabet, 10))
		v := g.genericValue(0)
		v.Tag = kmip.TagAttributeValue
		a.AttributeValue = v
		if _, isStruct := v.Value.(ttlv.Struct); !isStruct && v.Value != nil && g.coin("barevalue", 1, 3) {
			// the way applications set a custom attribute: the plain Go value (a string, a number, a ttlv.Enum, ...), not
			// the generic wrapper a decoder produces
			a.AttributeValue = v.Value
		}
		g.label("attr=custom")
	case 1: // arbitrary unknown name; half of the time a near miss of a standard name (other case, extra blank, a prefix)
		name := Text(g.T, g.lbl("uname"), g.O.Alphabet, 14)
		if rapid.Bool().Draw(g.T, g.lbl("nearmiss")) {
			std := rapid.SampledFrom(StdAttrNames).Draw(g.T, g.lbl("near"))
			switch rapid.IntRange(0, 4).Draw(g.T, g.lbl("nearkind")) {
			case 0:
				name = strings.ToLower(std)
			case 1:
				name = strings.ToUpper(std)
			case 2:
				name = std[:1] + strings.ToLower(std[1:])
			case 3:
				name = std + " "
			default:
				name = std[:len(std)-1]
			}
		}
		if _, std := pins.Attributes[name]; std {
			name += "?"
		}
		a.AttributeName = kmip.AttributeName(name)
		v := g.genericValue(0)
		v.Tag = kmip.TagAttributeValue
		a.AttributeValue = v
		g.label("attr=unknown")
	default:
		name := rapid.SampledFrom(StdAttrNames).Draw(g.T, g.lbl("aname"))
		if g.want != "" && rapid.Bool().Draw(g.T, g.lbl("wantattr")) {
			for _, n := range StdAttrNames {
				if at, _ := AttrGoType(n); Reach(at)[g.want] {
					name = n
					break
				}
			}
		}
		a.AttributeName = kmip.AttributeName(name)
		ty, _ := AttrGoType(name)
		v := reflect.New(ty).Elem()
		g.fillValue(v, false)
		a.AttributeValue = v.Interface()
		g.label("attr=" + name)
	}
	return a
}

func (g *G) genericValue(depth int) ttlv.Value {
	o := DefaultTreeOpts()
	o.Alphabet = g.O.Alphabet
	o.TextSafe = g.O.TextSafe
	o.MaxDepth = 3
	o.MaxFanout = 3
	n := tree(g.T, o, depth, false)
	return ToValue(n)
}

// enumType / maskType registries: which named Go types are enumerations / masks, and under which pinned tag.
func enumTag(t reflect.Type) (int, bool) {
	if t.Kind() != reflect.Uint32 || t.PkgPath() == "" {
		return 0, false
	}
	tag, ok := pins.Tags[t.Name()]
	return tag, ok
}

func (g *G) enumValue(t reflect.Type) uint32 {
	tag, _ := enumTag(t)
	vals := pins.Enums[tag]
	switch c := rapid.IntRange(0, 9).Draw(g.T, g.lbl("enumclass")); {
	case c == 0:
		g.label("enum=unnamed")
		return rapid.SampledFrom([]uint32{0x80000001, 0xFFFFFFFF, 0x7FFFFFFF, 0x80000000, 0x000000FF, 0x0000FFFF}).Draw(g.T, g.lbl("enum"))
	case c == 1:
		return rapid.Uint32Range(1, 0xFFFFFFFF).Draw(g.T, g.lbl("enum"))
	case len(vals) > 0:
		keys := make([]uint32, 0, len(vals))
		for k := range vals {
			keys = append(keys, k)
		}
		sort.Slice(keys, func(i, j int) bool { return keys[i] < keys[j] })
		return rapid.SampledFrom(keys).Draw(g.T, g.lbl("enum"))
	default:
		return rapid.Uint32Range(1, 64).Draw(g.T, g.lbl("enum"))
	}
}

func isMask(t reflect.Type) bool {
	if t.Kind() != reflect.Int32 || t.PkgPath() == "" {
		return false
	}
	tag, ok := pins.Tags[t.Name()]
	if !ok {
		return false
	}
	_, ok = pins.Masks[tag]
	return ok
}

func (g *G) maskValue(t reflect.Type) int32 {
	tag := pins.Tags[t.Name()]
	nflags := len(pins.Masks[tag])
	switch rapid.IntRange(0, 6).Draw(g.T, g.lbl("maskclass")) {
	case 0:
		g.label("mask=bit31")
		return int32(-0x80000000) | rapid.Int32Range(0, 0xFFFFF).Draw(g.T, g.lbl("mask"))
	case 1:
		g.label("mask=unnamed-bits")
		return rapid.Int32Range(0, 0x7FFFFFFF).Draw(g.T, g.lbl("mask"))
	case 2:
		return Int32(g.T, g.lbl("mask"))
	default:
		return rapid.Int32Range(0, int32(1)<<uint(nflags)-1).Draw(g.T, g.lbl("mask"))
	}
}

var (
	tTime      = reflect.TypeFor[time.Time]()
	tDuration  = reflect.TypeFor[time.Duration]()
	tBigInt    = reflect.TypeFor[big.Int]()
	tValue     = reflect.TypeFor[ttlv.Value]()
	tTStruct   = reflect.TypeFor[ttlv.Struct]()
	tAttribute = reflect.TypeFor[kmip.Attribute]()
	tKeyBlock  = reflect.TypeFor[kmip.KeyBlock]()
	tCred      = reflect.TypeFor[kmip.Credential]()
	tAttrName  = reflect.TypeFor[kmip.AttributeName]()
)

// fillStruct populates every exported field of a struct.
func (g *G) fillStruct(v reflect.Value) {
	t := v.Type()
	switch t {
	case tKeyBlock:
		g.keyBlock(v.Addr().Interface().(*kmip.KeyBlock))
		return
	case tCred:
		g.credential(v.Addr().Interface().(*kmip.Credential))
		return
	case tAttribute:
		v.Set(reflect.ValueOf(g.Attribute()))
		return
	}
	for i := 0; i < t.NumField(); i++ {
		f := t.Field(i)
		if !f.IsExported() {
			continue
		}
		tagopts := f.Tag.Get("ttlv")
		if strings.HasPrefix(tagopts, "-") {
			continue
		}
		optional := strings.Contains(tagopts, "omitempty")
		fv := v.Field(i)
		if f.Name == "ServerInformation" && fv.Type() == reflect.PointerTo(tValue) {
			if g.coin("srvinfo", 1, 2) {
				val := g.genericValue(0)
				val.Tag = kmip.TagServerInformation
				fv.Set(reflect.ValueOf(&val))
			}
			continue
		}
		g.fillValue(fv, optional)
	}
}

// fillValue populates one value. optional: the element may be left zero.
func (g *G) fillValue(v reflect.Value, optional bool) {
	t := v.Type()
	if optional && !g.coin("opt", 1, 2) {
		return
	}
	g.depth++
	defer func() { g.depth-- }()
	switch t {
	case tTime:
		var sec int64
		if g.hasLastDate && rapid.IntRange(0, 3).Draw(g.T, g.lbl("samedate")) == 0 {
			sec = g.lastDate
		} else {
			sec = DateSec(g.T, g.lbl("date"), g.O.TextSafe)
		}
		g.lastDate, g.hasLastDate = sec, true
		v.Set(reflect.ValueOf(InZone(time.Unix(sec, 0), rapid.IntRange(0, 79).Draw(g.T, g.lbl("zone")))))
		return
	case tDuration:
		v.SetInt(IntervalSec(g.T, g.lbl("ival")) * int64(time.Second))
		return
	case tBigInt:
		v.Set(reflect.ValueOf(*BigInt(g.T, g.lbl("big"))))
		return
	case tTStruct:
		k := rapid.IntRange(0, 3).Draw(g.T, g.lbl("sfields"))
		s := ttlv.Struct{}
		for i := 0; i < k; i++ {
			s = append(s, g.genericValue(0))
		}
		v.Set(reflect.ValueOf(s))
		return
	case tValue:
		v.Set(reflect.ValueOf(g.genericValue(0)))
		return
	case tAttrName:
		if rapid.IntRange(0, 4).Draw(g.T, g.lbl("anameclass")) == 0 {
			v.SetString("x-" + Text(g.T, g.lbl("aname"), g.O.Alphabet, 8))
		} else {
			v.SetString(rapid.SampledFrom(StdAttrNames).Draw(g.T, g.lbl("aname")))
		}
		return
	}
	if _, ok := enumTag(t); ok {
		v.SetUint(uint64(g.enumValue(t)))
		return
	}
	if isMask(t) {
		v.SetInt(int64(g.maskValue(t)))
		return
	}
	switch t.Kind() {
	case reflect.Pointer:
		if !g.coin("ptr", 3, 5) {
			return
		}
		if t.Elem() == tBigInt {
			v.Set(reflect.ValueOf(BigInt(g.T, g.lbl("big"))))
			return
		}
		p := reflect.New(t.Elem())
		g.fillValue(p.Elem(), false)
		v.Set(p)
	case reflect.Slice:
		if t.Elem().Kind() == reflect.Uint8 {
			b := Bytes(g.T, g.lbl("bytes"), 40)
			if optional && len(b) == 0 {
				b = []byte{0}
			}
			v.SetBytes(b)
			return
		}
		max := 3
		if g.depth > 6 {
			max = 1
		}
		n := rapid.IntRange(0, max).Draw(g.T, g.lbl("slice"))
		if g.O.PopulateAll && n == 0 {
			n = 1
		}
		s := reflect.MakeSlice(t, 0, n)
		for i := 0; i < n; i++ {
			e := reflect.New(t.Elem()).Elem()
			g.fillValue(e, false)
			s = reflect.Append(s, e)
		}
		if n > 0 {
			v.Set(s)
		}
	case reflect.Struct:
		g.fillStruct(v)
	case reflect.Int32, reflect.Int16, reflect.Int8:
		x := Int32(g.T, g.lbl("i32"))
		if optional && x == 0 {
			x = 1
		}
		v.SetInt(int64(x))
	case reflect.Int64:
		x := Int64(g.T, g.lbl("i64"))
		if optional && x == 0 {
			x = 1
		}
		v.SetInt(x)
	case reflect.Bool:
		b := rapid.Bool().Draw(g.T, g.lbl("bool"))
		if optional {
			b = true
		}
		v.SetBool(b)
	case reflect.String:
		s := Text(g.T, g.lbl("str"), g.O.Alphabet, 24)
		if optional && s == "" {
			s = "s"
		}
		v.SetString(s)
	case reflect.Interface:
		// interfaces are populated by the owning structure's rule (payloads, objects, attribute values)
		panic("gen: interface field " + t.String() + " reached without an owner rule")
	default:
		panic("gen: unsupported kind " + t.String())
	}
}

func (g *G) credential(c *kmip.Credential) {
	switch rapid.IntRange(0, 2).Draw(g.T, g.lbl("credkind")) {
	case 0:
		c.CredentialType = kmip.CredentialTypeUsernameAndPassword
		c.CredentialValue.UserPassword = &kmip.CredentialValueUserPassword{}
		g.fillStruct(reflect.ValueOf(c.CredentialValue.UserPassword).Elem())
	case 1:
		c.CredentialType = kmip.CredentialTypeDevice
		c.CredentialValue.Device = &kmip.CredentialValueDevice{}
		g.fillStruct(reflect.ValueOf(c.CredentialValue.Device).Elem())
	default:
		c.CredentialType = kmip.CredentialTypeAttestation
		c.CredentialValue.Attestation = &kmip.CredentialValueAttestation{}
		g.fillStruct(reflect.ValueOf(c.CredentialValue.Attestation).Elem())
	}
	g.label(fmt.Sprintf("credential=%d", c.CredentialType))
}

// otherFormats are registered key formats for which the library has no material struct.
var otherFormats = []kmip.KeyFormatType{kmip.KeyFormatTypeTransparentDSAPrivateKey, kmip.KeyFormatTypeTransparentDSAPublicKey,
	kmip.KeyFormatTypeTransparentDHPrivateKey, kmip.KeyFormatTypeTransparentDHPublicKey, kmip.KeyFormatType(0x80000001)}

func (g *G) keyBlock(kb *kmip.KeyBlock) {
	if g.coin("comp", 1, 3) {
		kb.KeyCompressionType = kmip.KeyCompressionType(g.enumValue(reflect.TypeFor[kmip.KeyCompressionType]()))
	}
	if g.coin("alg", 1, 2) {
		kb.CryptographicAlgorithm = kmip.CryptographicAlgorithm(g.enumValue(reflect.TypeFor[kmip.CryptographicAlgorithm]()))
	}
	if g.coin("len", 1, 2) {
		kb.CryptographicLength = rapid.Int32Range(1, 8192).Draw(g.T, g.lbl("cryptolen"))
	}
	mode := rapid.IntRange(0, 9).Draw(g.T, g.lbl("kvmode"))
	if g.O.PopulateAll && mode < 2 {
		mode = 5
	}
	if (g.want == "KeyWrappingData" || g.want == "CryptographicParameters") && mode > 2 && rapid.Bool().Draw(g.T, g.lbl("wantwrapped")) {
		mode = 1
	}
	switch {
	case mode == 0: // metadata only: no key value; any format
		kb.KeyFormatType = rapid.SampledFrom(append(append([]kmip.KeyFormatType{}, AllKeyFormats...), otherFormats...)).Draw(g.T, g.lbl("fmt"))
		g.label("keyvalue=absent")
	case mode == 1 || mode == 2: // wrapped: byte string key value + wrapping data; any format
		kb.KeyFormatType = rapid.SampledFrom(append(append([]kmip.KeyFormatType{}, AllKeyFormats...), otherFormats...)).Draw(g.T, g.lbl("fmt"))
		w := Bytes(g.T, g.lbl("wrapped"), 48)
		kb.KeyValue = &kmip.KeyValue{Wrapped: &w}
		kb.KeyWrappingData = &kmip.KeyWrappingData{}
		g.fillStruct(reflect.ValueOf(kb.KeyWrappingData).Elem())
		g.label("keyvalue=wrapped")
	default:
		kb.KeyFormatType = rapid.SampledFrom(AllKeyFormats).Draw(g.T, g.lbl("fmt"))
		pk := &kmip.PlainKeyValue{}
		km := &pk.KeyMaterial
		switch kb.KeyFormatType {
		case kmip.KeyFormatTypeTransparentSymmetricKey:
			km.TransparentSymmetricKey = &kmip.TransparentSymmetricKey{}
			g.fillStruct(reflect.ValueOf(km.TransparentSymmetricKey).Elem())
		case kmip.KeyFormatTypeTransparentRSAPrivateKey:
			km.TransparentRSAPrivateKey = &kmip.TransparentRSAPrivateKey{}
			g.fillStruct(reflect.ValueOf(km.TransparentRSAPrivateKey).Elem())
		case kmip.KeyFormatTypeTransparentRSAPublicKey:
			km.TransparentRSAPublicKey = &kmip.TransparentRSAPublicKey{}
			g.fillStruct(reflect.ValueOf(km.TransparentRSAPublicKey).Elem())
		case kmip.KeyFormatTypeTransparentECDSAPrivateKey:
			km.TransparentECDSAPrivateKey = &kmip.TransparentECDSAPrivateKey{}
			g.fillStruct(reflect.ValueOf(km.TransparentECDSAPrivateKey).Elem())
		case kmip.KeyFormatTypeTransparentECDSAPublicKey:
			km.TransparentECDSAPublicKey = &kmip.TransparentECDSAPublicKey{}
			g.fillStruct(reflect.ValueOf(km.TransparentECDSAPublicKey).Elem())
		case kmip.KeyFormatTypeTransparentECPrivateKey:
			km.TransparentECPrivateKey = &kmip.TransparentECPrivateKey{}
			g.fillStruct(reflect.ValueOf(km.TransparentECPrivateKey).Elem())
		case kmip.KeyFormatTypeTransparentECPublicKey:
			km.TransparentECPublicKey = &kmip.TransparentECPublicKey{}
			g.fillStruct(reflect.ValueOf(km.TransparentECPublicKey).Elem())
		default:
			b := Bytes(g.T, g.lbl("material"), 64)
			km.Bytes = &b
		}
		pk.Attribute = g.attributes(2)
		kb.KeyValue = &kmip.KeyValue{Plain: pk}
		g.label("keyvalue=plain")
	}
	g.label(fmt.Sprintf("keyformat=0x%X", uint32(kb.KeyFormatType)))
}

// StripGated clears every field that the pinned version table introduces after ver.
func StripGated(v reflect.Value, ver kmip.ProtocolVersion) {
	switch v.Kind() {
	case reflect.Pointer, reflect.Interface:
		if v.IsNil() {
			return
		}
		if v.Kind() == reflect.Interface {
			e := v.Elem()
			if e.Kind() == reflect.Pointer {
				StripGated(e, ver)
			} else if e.Kind() == reflect.Struct || e.Kind() == reflect.Slice {
				// value held in an interface is not addressable: copy, strip, set back
				c := reflect.New(e.Type()).Elem()
				c.Set(e)
				StripGated(c, ver)
				if v.CanSet() {
					v.Set(c)
				}
			}
			return
		}
		StripGated(v.Elem(), ver)
	case reflect.Slice:
		if v.Type().Elem().Kind() == reflect.Uint8 {
			return
		}
		for i := 0; i < v.Len(); i++ {
			StripGated(v.Index(i), ver)
		}
	case reflect.Struct:
		t := v.Type()
		if t == tTime || t == tBigInt || t == tValue {
			return
		}
		for i := 0; i < t.NumField(); i++ {
			f := t.Field(i)
			if !f.IsExported() {
				continue
			}
			maj, min := pins.FirstVersion(t.Name(), f.Name)
			if (maj != 0 || min != 0) && !pins.VersionAtLeast(int(ver.ProtocolVersionMajor), int(ver.ProtocolVersionMinor), maj, min) {
				if v.Field(i).CanSet() {
					v.Field(i).SetZero()
				}
				continue
			}
			StripGated(v.Field(i), ver)
		}
	}
}

// ---------------------------------------------------------------------------
// Directed generation for the version-gating check (C05)

var (
	tObjectIface = reflect.TypeFor[kmip.Object]()
	tAnyIface    = reflect.TypeFor[any]()
)

// Reach returns the names of the struct types reachable from t through fields,
// pointers, slices, attribute values and managed objects.
func Reach(t reflect.Type) map[string]bool {
	out := map[string]bool{}
	reach(t, out)
	return out
}

func reach(t reflect.Type, out map[string]bool) {
	for t.Kind() == reflect.Pointer || t.Kind() == reflect.Slice {
		t = t.Elem()
	}
	switch t.Kind() {
	case reflect.Interface:
		if t == tObjectIface {
			for _, o := range Objects {
				reach(reflect.TypeOf(o.New()), out)
			}
		}
		return
	case reflect.Struct:
	default:
		return
	}
	if t == tTime || t == tBigInt || t == tValue || out[t.Name()] {
		return
	}
	out[t.Name()] = true
	if t == tAttribute {
		for _, n := range StdAttrNames {
			at, _ := AttrGoType(n)
			reach(at, out)
		}
		return
	}
	if t == tKeyBlock {
		reach(reflect.TypeFor[kmip.PlainKeyValue](), out)
		reach(reflect.TypeFor[kmip.KeyWrappingData](), out)
	}
	for i := 0; i < t.NumField(); i++ {
		if t.Field(i).IsExported() {
			reach(t.Field(i).Type, out)
		}
	}
}

// PopulatedRows walks a message and reports which version-gated rows
// ("Struct.Field") are populated (non-zero) somewhere in it.
func PopulatedRows(msg any) map[string]bool {
	out := map[string]bool{}
	populated(reflect.ValueOf(msg), out)
	return out
}

func populated(v reflect.Value, out map[string]bool) {
	if !v.IsValid() {
		return
	}
	switch v.Kind() {
	case reflect.Pointer, reflect.Interface:
		if !v.IsNil() {
			populated(v.Elem(), out)
		}
	case reflect.Slice:
		if v.Type().Elem().Kind() != reflect.Uint8 {
			for i := 0; i < v.Len(); i++ {
				populated(v.Index(i), out)
			}
		}
	case reflect.Struct:
		t := v.Type()
		if t == tTime || t == tBigInt || t == tValue {
			return
		}
		for i := 0; i < t.NumField(); i++ {
			f := t.Field(i)
			if !f.IsExported() {
				continue
			}
			if maj, min := pins.FirstVersion(t.Name(), f.Name); maj != 0 || min != 0 {
				fv := v.Field(i)
				zero := fv.IsZero()
				if fv.Kind() == reflect.Slice && fv.Len() == 0 {
					zero = true
				}
				if !zero {
					out[t.Name()+"."+f.Name] = true
				}
			}
			populated(v.Field(i), out)
		}
	}
}

// Directed draws a message forced to contain the structure `want` (a struct
// type name owning a version-gated field), leaving later-version fields populated.
func Directed(t *rapid.T, want string, ver kmip.ProtocolVersion, o MsgOpts) (msg any, isRequest bool) {
	o.AllowGated = true
	o.ForceVersion = &ver
	o.NoUnknownOps = true
	g := newG(t, o)
	g.want = want
	// candidate (op, direction) pairs whose payload reaches the wanted struct
	type cand struct {
		e    OpEntry
		resp bool
	}
	var cands []cand
	for _, e := range Ops {
		if Reach(reflect.TypeOf(e.Req()))[want] {
			cands = append(cands, cand{e, false})
		}
		if Reach(reflect.TypeOf(e.Resp()))[want] {
			cands = append(cands, cand{e, true})
		}
	}
	var c cand
	switch want {
	case "RequestHeader", "Authentication":
		c = cand{rapid.SampledFrom(Ops).Draw(t, "op"), false}
	case "ResponseHeader":
		c = cand{rapid.SampledFrom(Ops).Draw(t, "op"), true}
	default:
		if len(cands) == 0 {
			panic("gen: nothing reaches " + want)
		}
		c = cands[rapid.IntRange(0, len(cands)-1).Draw(t, "cand")]
	}
	if c.resp {
		m := &kmip.ResponseMessage{}
		g.fillStruct(reflect.ValueOf(&m.Header).Elem())
		m.Header.ProtocolVersion = g.Ver
		n := rapid.IntRange(1, 2).Draw(t, "items")
		m.Header.BatchCount = int32(n)
		if lead := discoverLead(t); lead != nil {
			// a Discover Versions item listing other versions comes first: versions carried as data must not change the gating
			m.BatchItem = append(m.BatchItem, kmip.ResponseBatchItem{UniqueBatchItemID: g.batchID(n), Operation: kmip.OperationDiscoverVersions,
				ResponsePayload: &payloads.DiscoverVersionsResponsePayload{ProtocolVersion: lead}})
			m.Header.BatchCount++
			g.label("discover-versions-item-first")
		}
		for i := 0; i < n; i++ {
			it := kmip.ResponseBatchItem{UniqueBatchItemID: g.batchID(i), Operation: c.e.Op, ResponsePayload: c.e.Resp()}
			g.fillPayload(it.ResponsePayload)
			m.BatchItem = append(m.BatchItem, it)
		}
		return m, false
	}
	m := &kmip.RequestMessage{}
	g.fillStruct(reflect.ValueOf(&m.Header).Elem())
	m.Header.ProtocolVersion = g.Ver
	n := rapid.IntRange(1, 2).Draw(t, "items")
	m.Header.BatchCount = int32(n)
	if lead := discoverLead(t); lead != nil {
		m.BatchItem = append(m.BatchItem, kmip.RequestBatchItem{UniqueBatchItemID: g.batchID(n), Operation: kmip.OperationDiscoverVersions,
			RequestPayload: &payloads.DiscoverVersionsRequestPayload{ProtocolVersion: lead}})
		m.Header.BatchCount++
		g.label("discover-versions-item-first")
	}
	for i := 0; i < n; i++ {
		it := kmip.RequestBatchItem{UniqueBatchItemID: g.batchID(i), Operation: c.e.Op, RequestPayload: c.e.Req()}
		g.fillPayload(it.RequestPayload)
		m.BatchItem = append(m.BatchItem, it)
	}
	return m, true
}

// discoverLead draws, one time in four, the version list of a leading Discover Versions item.
func discoverLead(t *rapid.T) []kmip.ProtocolVersion {
	if rapid.IntRange(0, 3).Draw(t, "discover-lead") != 0 {
		return nil
	}
	return rapid.SliceOfN(rapid.SampledFrom(Versions), 1, 3).Draw(t, "lead-versions")
}

// CryptoParams draws a fully populated CryptographicParameters (fields of versions 1.0, 1.2 and 1.4).
func CryptoParams(t *rapid.T) *kmip.CryptographicParameters {
	g := newG(t, MsgOpts{Alphabet: "xml", TextSafe: true, PopulateAll: true, AllowGated: true})
	cp := &kmip.CryptographicParameters{}
	g.fillStruct(reflect.ValueOf(cp).Elem())
	return cp
}
