// Package gen holds the rapid generators shared by the checks.
package gen

import (
	"fmt"
	"math"
	"math/big"
	"time"

	"github.com/ovh/kmip-go/ttlv"
	"pgregory.net/rapid"

	"verif/harness/ttlvref"
)

// TreeOpts tunes the generic tree generator.
type TreeOpts struct {
	MaxDepth  int
	MaxFanout int
	// TextSafe: dates limited to years 1..9999 (needed as soon as a text encoding is involved).
	TextSafe bool
	// Alphabet for text strings: "utf8" (any valid UTF-8), "json" (any Unicode scalar), "xml" (XML 1.0 Char).
	Alphabet string
	// RegisteredTagsOnly restricts tags to a given list (for text encodings that name tags).
	Tags []int
}

func DefaultTreeOpts() TreeOpts { return TreeOpts{MaxDepth: 5, MaxFanout: 6, Alphabet: "utf8"} }

// Tag draws a TTLV tag: mostly from the two KMIP ranges, sometimes any non-zero 24 bit value.
func Tag(t *rapid.T, o TreeOpts) int {
	if len(o.Tags) > 0 {
		return rapid.SampledFrom(o.Tags).Draw(t, "tag")
	}
	switch rapid.IntRange(0, 9).Draw(t, "tagclass") {
	case 0:
		return rapid.IntRange(1, 0xFFFFFF).Draw(t, "tag")
	case 1, 2:
		return 0x540000 + rapid.IntRange(0, 0xFFFF).Draw(t, "tag")
	default:
		return 0x420000 + rapid.IntRange(1, 0x200).Draw(t, "tag")
	}
}

// Int32 is boundary biased.
func Int32(t *rapid.T, label string) int32 {
	switch rapid.IntRange(0, 5).Draw(t, label+"class") {
	case 0:
		return rapid.SampledFrom([]int32{0, 1, -1, math.MaxInt32, math.MinInt32, math.MaxInt32 - 1, math.MinInt32 + 1, 255, 256, -256, 65535, 65536}).Draw(t, label)
	default:
		return rapid.Int32().Draw(t, label)
	}
}

// Int64 is boundary biased, including both sides of +-2^52 (JSON threshold).
func Int64(t *rapid.T, label string) int64 {
	const p52 = int64(1) << 52
	switch rapid.IntRange(0, 6).Draw(t, label+"class") {
	case 0:
		return rapid.SampledFrom([]int64{0, 1, -1, math.MaxInt64, math.MinInt64, math.MaxInt64 - 1, math.MinInt64 + 1,
			p52, p52 - 1, p52 + 1, -p52, -p52 + 1, -p52 - 1, 1 << 53, -(1 << 53), 1<<53 + 1, math.MaxInt32, math.MinInt32, 1 << 32}).Draw(t, label)
	case 1:
		return p52 + rapid.Int64Range(-3, 3).Draw(t, label)
	case 2:
		return -p52 + rapid.Int64Range(-3, 3).Draw(t, label)
	default:
		return rapid.Int64().Draw(t, label)
	}
}

// BigInt draws big integers whose magnitudes sit around byte and 8-byte boundaries, both signs.
func BigInt(t *rapid.T, label string) *big.Int {
	var x *big.Int
	switch rapid.IntRange(0, 8).Draw(t, label+"class") {
	case 8:
		// the sizes of RSA moduli and private exponents: 2^(8k) +- d and 2^(8k-1) +- d for 2048 .. 16384 bits
		k := rapid.SampledFrom([]int{255, 256, 257, 511, 512, 513, 520, 1024, 2048}).Draw(t, label+"K")
		sh := uint(8 * k)
		if rapid.Bool().Draw(t, label+"half") {
			sh--
		}
		x = new(big.Int).Lsh(big.NewInt(1), sh)
		x.Add(x, big.NewInt(rapid.Int64Range(-2, 2).Draw(t, label+"d")))
	case 0:
		x = big.NewInt(rapid.Int64Range(-2, 2).Draw(t, label))
	case 1:
		x = big.NewInt(Int64(t, label))
	case 2, 3:
		// 2^(8k) + d, 2^(8k-1) + d
		k := rapid.IntRange(1, 40).Draw(t, label+"k")
		sh := uint(8 * k)
		if rapid.Bool().Draw(t, label+"half") {
			sh--
		}
		x = new(big.Int).Lsh(big.NewInt(1), sh)
		x.Add(x, big.NewInt(rapid.Int64Range(-2, 2).Draw(t, label+"d")))
	case 4:
		// 2^(64k +- 1) +- d
		k := rapid.IntRange(1, 8).Draw(t, label+"k")
		sh := uint(64*k + rapid.IntRange(-1, 1).Draw(t, label+"o"))
		x = new(big.Int).Lsh(big.NewInt(1), sh)
		x.Add(x, big.NewInt(rapid.Int64Range(-2, 2).Draw(t, label+"d")))
	default:
		n := rapid.IntRange(1, 70).Draw(t, label+"n")
		raw := rapid.SliceOfN(rapid.Byte(), n, n).Draw(t, label)
		x = new(big.Int).SetBytes(raw)
	}
	if rapid.Bool().Draw(t, label+"neg") {
		x.Neg(x)
	}
	return x
}

// Bytes draws byte strings with lengths hitting every residue mod 8 and 0.
func Bytes(t *rapid.T, label string, max int) []byte {
	n := 0
	switch rapid.IntRange(0, 4).Draw(t, label+"lenclass") {
	case 0:
		n = 0
	case 1:
		n = rapid.IntRange(1, 17).Draw(t, label+"len")
	default:
		n = rapid.IntRange(0, max).Draw(t, label+"len")
	}
	return rapid.SliceOfN(rapid.Byte(), n, n).Draw(t, label)
}

func xmlChar(r rune) bool {
	return r == 0x9 || r == 0xA || r == 0xD || r >= 0x20 && r <= 0xD7FF || r >= 0xE000 && r <= 0xFFFD || r >= 0x10000 && r <= 0x10FFFF
}

var (
	interestingRunes = []rune{'<', '>', '&', '"', '\'', '\t', '\n', '\r', '\\', '/', 0x7f, 0x80, 0x9f, 0xa0, 0x2028, 0x2029, 0xfffd, 0xe000, 0xd7ff, 0x10000, 0x10ffff, 0xe0001, 'é', '漢', ' ', '|'}
	controlRunes     = []rune{0, 1, 7, 8, 0xb, 0xc, 0xe, 0x1b, 0x1f, 0xfffe, 0xffff}
)

// Text draws a text string from the alphabet.
func Text(t *rapid.T, label string, alphabet string, max int) string {
	if alphabet == "bytes" {
		// (binary only) a Go string is a byte sequence: one text in three holds bytes that are no valid UTF-8 - lone
		// continuation bytes, truncated sequences, Latin-1 - which the wire carries as they are
		if rapid.IntRange(0, 2).Draw(t, label+"rawbytes") == 0 {
			b := rapid.SliceOfN(rapid.SampledFrom([]byte{0x80, 0xBF, 0xC3, 0xE2, 0x82, 0xF0, 0xFF, 0xFE, 0xE9, 'a', 'b', ' ', 0x00}), 1, 24).Draw(t, label+"raw")
			return string(b)
		}
		alphabet = "utf8"
	}
	n := 0
	switch rapid.IntRange(0, 4).Draw(t, label+"lenclass") {
	case 0:
		n = 0
	case 1:
		n = rapid.IntRange(1, 9).Draw(t, label+"len")
	default:
		n = rapid.IntRange(0, max).Draw(t, label+"len")
	}
	rs := make([]rune, 0, n)
	for i := 0; i < n; i++ {
		var r rune
		switch rapid.IntRange(0, 9).Draw(t, label+"rc") {
		case 0, 1:
			r = rapid.SampledFrom(interestingRunes).Draw(t, label+"r")
		case 2:
			if alphabet == "xml" || alphabet == "ascii" {
				r = rapid.SampledFrom(interestingRunes).Draw(t, label+"r")
			} else {
				r = rapid.SampledFrom(controlRunes).Draw(t, label+"r")
			}
		case 3:
			r = rapid.Rune().Draw(t, label+"r")
		default:
			r = rune(rapid.IntRange(0x20, 0x7e).Draw(t, label+"r"))
		}
		if r >= 0xD800 && r <= 0xDFFF {
			r = 'S'
		}
		if alphabet == "xml" && !xmlChar(r) {
			r = 'X'
		}
		if alphabet == "ascii" && (r < 0x20 || r > 0x7e) {
			r = 'A'
		}
		rs = append(rs, r)
	}
	return string(rs)
}

// yearRange: seconds for 0001-01-01T00:00:00Z .. 9999-12-31T23:59:59Z
const (
	minTextSec = -62135596800
	maxTextSec = 253402300799
)

// DateSec draws whole-second unix times.
func DateSec(t *rapid.T, label string, textSafe bool) int64 {
	lo, hi := int64(math.MinInt64), int64(math.MaxInt64)
	if textSafe {
		// keep one day of margin: the library formats in the local zone
		lo, hi = minTextSec+86400, maxTextSec-86400
	}
	switch rapid.IntRange(0, 4).Draw(t, label+"class") {
	case 0:
		special := []int64{0, 1, -1, lo, hi, 1700000000, 2147483647, 2147483648, -2147483649}
		if !textSafe {
			// the first and last second of years 1..9999 (the first one is what Go's unset time.Time holds) and their neighbours
			special = append(special, minTextSec, minTextSec-1, minTextSec+1, maxTextSec, maxTextSec+1)
		}
		return rapid.SampledFrom(special).Draw(t, label)
	case 1:
		return rapid.Int64Range(0, 4102444800).Draw(t, label)
	default:
		return rapid.Int64Range(lo, hi).Draw(t, label)
	}
}

// zoneOffsetsMin: offsets from UTC, in minutes, of the fixed zones date values are placed in (whole minutes only: the
// RFC 3339 forms the text encodings use cannot express more). A time.Time denotes the same instant in every location.
var zoneOffsetsMin = []int{-720, -480, -210, -1, 1, 60, 330, 345, 540, 840}

// InZone returns the instant t in the location selected by k: Local for most k, else UTC or a fixed zone.
func InZone(t time.Time, k int) time.Time {
	if k < 0 {
		k = -k
	}
	switch k % 8 {
	case 5:
		return t.UTC()
	case 6, 7:
		off := zoneOffsetsMin[(k/8)%len(zoneOffsetsMin)]
		return t.In(time.FixedZone(fmt.Sprintf("z%+d", off), off*60))
	}
	return t
}

// IntervalSec draws interval seconds in [0, 2^32).
func IntervalSec(t *rapid.T, label string) int64 {
	switch rapid.IntRange(0, 3).Draw(t, label+"class") {
	case 0:
		return rapid.SampledFrom([]int64{0, 1, 3600, math.MaxInt32, math.MaxInt32 + 1, math.MaxUint32, math.MaxUint32 - 1}).Draw(t, label)
	default:
		return rapid.Int64Range(0, math.MaxUint32).Draw(t, label)
	}
}

// Tree draws a generic TTLV tree as a reference node.
func Tree(t *rapid.T, o TreeOpts) *ttlvref.Node {
	return tree(t, o, 0, true)
}

func tree(t *rapid.T, o TreeOpts, depth int, root bool) *ttlvref.Node {
	n := &ttlvref.Node{Tag: Tag(t, o)}
	typ := rapid.IntRange(1, 10).Draw(t, "type")
	if depth >= o.MaxDepth && typ == ttlvref.Structure {
		typ = ttlvref.Integer
	}
	if root && rapid.IntRange(0, 3).Draw(t, "rootstruct") > 0 {
		typ = ttlvref.Structure
	}
	n.Type = typ
	switch typ {
	case ttlvref.Structure:
		k := 0
		if rapid.IntRange(0, 5).Draw(t, "emptystruct") > 0 {
			k = rapid.IntRange(1, o.MaxFanout).Draw(t, "fanout")
		}
		for i := 0; i < k; i++ {
			n.Kids = append(n.Kids, tree(t, o, depth+1, false))
		}
	case ttlvref.Integer:
		n.I = int64(Int32(t, "int"))
	case ttlvref.LongInteger:
		n.I = Int64(t, "long")
	case ttlvref.BigInteger:
		n.Big = BigInt(t, "big")
	case ttlvref.Enumeration:
		n.I = int64(uint32(Int32(t, "enum")))
	case ttlvref.Boolean:
		if rapid.Bool().Draw(t, "bool") {
			n.I = 1
		}
	case ttlvref.TextString:
		n.B = []byte(Text(t, "text", o.Alphabet, 40))
	case ttlvref.ByteString:
		n.B = Bytes(t, "bytes", 70)
	case ttlvref.DateTime:
		n.I = DateSec(t, "date", o.TextSafe)
	case ttlvref.Interval:
		n.I = IntervalSec(t, "interval")
	}
	return n
}

// ToValue converts a reference node into the library's generic value (adapter
// code: no codec logic).
func ToValue(n *ttlvref.Node) ttlv.Value {
	v := ttlv.Value{Tag: n.Tag}
	switch n.Type {
	case ttlvref.Structure:
		// (an empty structure is the nil slice for odd tags, the empty non-nil one for even tags: both are the Go value
		// of "no children" - what `var kids ttlv.Struct` or a loop that appended nothing leaves behind)
		var s ttlv.Struct
		if n.Tag%2 == 0 {
			s = ttlv.Struct{}
		}
		for _, k := range n.Kids {
			s = append(s, ToValue(k))
		}
		v.Value = s
	case ttlvref.Integer:
		v.Value = int32(n.I)
	case ttlvref.LongInteger:
		v.Value = n.I
	case ttlvref.BigInteger:
		v.Value = new(big.Int).Set(n.Big)
	case ttlvref.Enumeration:
		v.Value = ttlv.Enum(uint32(n.I))
	case ttlvref.Boolean:
		v.Value = n.I != 0
	case ttlvref.TextString:
		v.Value = string(n.B)
	case ttlvref.ByteString:
		if len(n.B) == 0 && n.Tag%2 == 1 {
			v.Value = []byte(nil) // an empty byte string may be the nil slice just as well
		} else {
			v.Value = append([]byte{}, n.B...)
		}
	case ttlvref.DateTime:
		v.Value = InZone(time.Unix(n.I, 0), int(n.I%1000003))
	case ttlvref.Interval:
		v.Value = time.Duration(n.I) * time.Second
	}
	return v
}

// ToValueShared is ToValue with every byte string a sub-slice of one common buffer, laid out one behind the
// other in encounter order (as an application cutting nonce || ciphertext || tag or several key parts out of one
// block would pass them): each slice has spare capacity that is the next value's memory. It returns the buffer
// so that the caller can verify that encoding left it untouched.
func ToValueShared(n *ttlvref.Node) (ttlv.Value, []byte) {
	var arena []byte
	var collect func(x *ttlvref.Node)
	collect = func(x *ttlvref.Node) {
		if x.Type == ttlvref.ByteString {
			arena = append(arena, x.B...)
		}
		for _, k := range x.Kids {
			collect(k)
		}
	}
	collect(n)
	arena = append(arena, 0xEE, 0xEE, 0xEE, 0xEE, 0xEE, 0xEE, 0xEE, 0xEE) // sentinel behind the last value
	off := 0
	var build func(x *ttlvref.Node) ttlv.Value
	build = func(x *ttlvref.Node) ttlv.Value {
		switch x.Type {
		case ttlvref.Structure:
			s := ttlv.Struct{}
			for _, k := range x.Kids {
				s = append(s, build(k))
			}
			return ttlv.Value{Tag: x.Tag, Value: s}
		case ttlvref.ByteString:
			b := arena[off : off+len(x.B)]
			off += len(x.B)
			return ttlv.Value{Tag: x.Tag, Value: b}
		}
		return ToValue(x)
	}
	return build(n), arena
}

// FromValue converts the library's generic value into a reference node.
// ok=false when the value holds something the generic form cannot hold.
func FromValue(v ttlv.Value) (*ttlvref.Node, bool) {
	n := &ttlvref.Node{Tag: v.Tag}
	switch x := v.Value.(type) {
	case ttlv.Struct:
		n.Type = ttlvref.Structure
		for _, k := range x {
			kn, ok := FromValue(k)
			if !ok {
				return nil, false
			}
			n.Kids = append(n.Kids, kn)
		}
	case int32:
		n.Type, n.I = ttlvref.Integer, int64(x)
	case int64:
		n.Type, n.I = ttlvref.LongInteger, x
	case *big.Int:
		if x == nil {
			return nil, false
		}
		n.Type, n.Big = ttlvref.BigInteger, new(big.Int).Set(x)
	case ttlv.Enum:
		n.Type, n.I = ttlvref.Enumeration, int64(uint32(x))
	case bool:
		n.Type = ttlvref.Boolean
		if x {
			n.I = 1
		}
	case string:
		n.Type, n.B = ttlvref.TextString, []byte(x)
	case []byte:
		n.Type, n.B = ttlvref.ByteString, append([]byte{}, x...)
	case time.Time:
		n.Type, n.I = ttlvref.DateTime, x.Unix()
	case time.Duration:
		n.Type, n.I = ttlvref.Interval, int64(x/time.Second)
	default:
		return nil, false
	}
	return n, true
}
