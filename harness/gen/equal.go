package gen

import (
	"fmt"
	"math/big"
	"reflect"
	"time"

	kmip "github.com/ovh/kmip-go"
	"github.com/ovh/kmip-go/ttlv"
)

var tGenericValue = reflect.TypeFor[ttlv.Value]()

// Diff compares two messages (or any two values of the same type) by content:
// nil and empty slices are equal, times compare by instant, big integers by
// value, interface values by dynamic type and content, unexported fields are
// ignored except that unknown payloads must report the same operation.
// It returns "" when equal, else the path of the first difference.
func Diff(a, b any) string {
	return diffVal(reflect.ValueOf(a), reflect.ValueOf(b), "")
}

func diffVal(a, b reflect.Value, path string) string {
	if !a.IsValid() || !b.IsValid() {
		if a.IsValid() == b.IsValid() {
			return ""
		}
		return path + ": one side invalid"
	}
	if a.Type() != b.Type() {
		return fmt.Sprintf("%s: type %s vs %s", path, a.Type(), b.Type())
	}
	t := a.Type()
	switch t {
	case tTime:
		x, y := a.Interface().(time.Time), b.Interface().(time.Time)
		if !x.Equal(y) {
			return fmt.Sprintf("%s: time %v vs %v", path, x, y)
		}
		return ""
	case tBigInt:
		x, y := a.Interface().(big.Int), b.Interface().(big.Int)
		if x.Cmp(&y) != 0 {
			return fmt.Sprintf("%s: big %s vs %s", path, x.Text(16), y.Text(16))
		}
		return ""
	}
	switch a.Kind() {
	case reflect.Pointer:
		if a.IsNil() || b.IsNil() {
			if a.IsNil() == b.IsNil() {
				return ""
			}
			return fmt.Sprintf("%s: nil=%v vs nil=%v", path, a.IsNil(), b.IsNil())
		}
		if up, ok := a.Interface().(*kmip.UnknownPayload); ok {
			if up.Operation() != b.Interface().(*kmip.UnknownPayload).Operation() {
				return path + ": unknown payload operation differs"
			}
		}
		return diffVal(a.Elem(), b.Elem(), path)
	case reflect.Interface:
		if a.IsNil() || b.IsNil() {
			if a.IsNil() == b.IsNil() {
				return ""
			}
			return fmt.Sprintf("%s: nil=%v vs nil=%v", path, a.IsNil(), b.IsNil())
		}
		ae, be := a.Elem(), b.Elem()
		// a custom attribute value set as a plain Go value comes back wrapped in a generic value under the tag
		// Attribute Value: same content
		if (ae.Type() == tGenericValue) != (be.Type() == tGenericValue) {
			unwrap := func(x reflect.Value) reflect.Value {
				if x.Type() == tGenericValue {
					if v := x.Interface().(ttlv.Value); v.Tag == kmip.TagAttributeValue && v.Value != nil {
						return reflect.ValueOf(v.Value)
					}
				}
				return x
			}
			ae, be = unwrap(ae), unwrap(be)
		}
		return diffVal(ae, be, path)
	case reflect.Slice:
		if a.Len() != b.Len() {
			return fmt.Sprintf("%s: len %d vs %d", path, a.Len(), b.Len())
		}
		for i := 0; i < a.Len(); i++ {
			if d := diffVal(a.Index(i), b.Index(i), fmt.Sprintf("%s[%d]", path, i)); d != "" {
				return d
			}
		}
		return ""
	case reflect.Struct:
		for i := 0; i < t.NumField(); i++ {
			if !t.Field(i).IsExported() {
				continue
			}
			if d := diffVal(a.Field(i), b.Field(i), path+"."+t.Field(i).Name); d != "" {
				return d
			}
		}
		return ""
	case reflect.Bool:
		if a.Bool() != b.Bool() {
			return fmt.Sprintf("%s: %v vs %v", path, a.Bool(), b.Bool())
		}
	case reflect.Int, reflect.Int8, reflect.Int16, reflect.Int32, reflect.Int64:
		if a.Int() != b.Int() {
			return fmt.Sprintf("%s: %d vs %d", path, a.Int(), b.Int())
		}
	case reflect.Uint, reflect.Uint8, reflect.Uint16, reflect.Uint32, reflect.Uint64:
		if a.Uint() != b.Uint() {
			return fmt.Sprintf("%s: %d vs %d", path, a.Uint(), b.Uint())
		}
	case reflect.String:
		if a.String() != b.String() {
			return fmt.Sprintf("%s: %q vs %q", path, a.String(), b.String())
		}
	default:
		return fmt.Sprintf("%s: unsupported kind %s", path, a.Kind())
	}
	return ""
}
