package codec

import "math/big"

type big_ = big.Int

func newBig(x int64) *big.Int { return big.NewInt(x) }
