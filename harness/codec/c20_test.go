package codec

import (
	"bytes"
	"crypto/sha256"
	"encoding/hex"
	"encoding/json"
	"fmt"
	"math/big"
	"os"
	"os/exec"
	"path/filepath"
	"reflect"
	"strings"
	"sync"
	"testing"
	"time"

	kmip "github.com/ovh/kmip-go"
	"github.com/ovh/kmip-go/payloads"
	"github.com/ovh/kmip-go/ttlv"
	"pgregory.net/rapid"

	"verif/harness/evid"
	"verif/harness/gen"
	"verif/harness/refwalk"
	"verif/harness/ttlvref"
)

// A job: decode a binary message into its Go type, then produce all four encodings and the
// binary re-encoding of the XML and JSON round trips.
type c20Job struct {
	// request | response | value | cparams (a header-less typed value: no version applies) |
	// failing (a request that is made unencodable in the child - a negative interval in an appended item - and
	// whose encodings, as well as truncated decodes, are attempted and recovered: calls that fail are part of a history too)
	Kind string `json:"kind"`
	Hex  string `json:"hex"`
	// Expect: the binary encoding the reference encoder predicts for the decoded value (every child must produce it)
	Expect string `json:"expect_binary_hex,omitempty"`
	// Zones: once decoded in the child, the dates of the value are placed in these locations in turn (gen.Relocate):
	// same instants, same binary encoding, but the Go value an application would hold (UTC, fixed zones) rather than
	// what a decoder produces (always Local)
	Zones []int `json:"date_locations,omitempty"`
}

type c20Plan struct {
	Jobs       []c20Job `json:"jobs"`
	Goroutines int      `json:"goroutines"`
	Perm       []int    `json:"permutation"`    // order in which the concurrent child starts the jobs
	Prefix     []int    `json:"history_prefix"` // jobs the history child runs first (results discarded)
	// SharedInput: jobs whose input bytes exist once in the concurrent child: the job itself and three more goroutines
	// decode that one slice at the same time (an input is only read: sharing it between decoders is ordinary use)
	SharedInput []int `json:"jobs_decoded_from_one_shared_slice,omitempty"`
}

// c20PlainVersion is an application's own structure that carries a protocol version as plain data (no set-version
// option) followed by a field restricted to 1.4 and later: without a header of its own nothing sets the encoder's
// version, so every populated field is written. Its fields have the same Go types and options as fields of the
// library's own structures - apart from set-version.
type c20PlainVersion struct {
	ProtocolVersion kmip.ProtocolVersion
	IVLength        int32 `ttlv:",omitempty,version=v1.4.."`
}

var c20RegisterOnce sync.Once

func c20Register() {
	c20RegisterOnce.Do(func() {
		ttlv.RegisterHideTag(0x420094)
		ttlv.RegisterTag("VerifPlainVersion", 0x540140, reflect.TypeFor[c20PlainVersion]())
	})
}

func c20Fresh(kind string) any {
	c20Register()
	switch kind {
	case "plainversion":
		return &c20PlainVersion{}
	case "request", "failing":
		return &kmip.RequestMessage{}
	case "response":
		return &kmip.ResponseMessage{}
	case "cparams":
		return &kmip.CryptographicParameters{}
	}
	return &ttlv.Value{}
}

type c20Encoders struct {
	bin, xml, json, text ttlv.Encoder
	reuse                bool
}

func (e *c20Encoders) encode(which string, v any) []byte {
	if !e.reuse {
		switch which {
		case "xml":
			return ttlv.MarshalXML(v)
		case "json":
			return ttlv.MarshalJSON(v)
		case "text":
			// the hiding text form (Unique Identifier is registered as a tag to hide in every child)
			return ttlv.MarshalText(v, true)
		}
		return ttlv.MarshalTTLV(v)
	}
	var enc *ttlv.Encoder
	switch which {
	case "xml":
		enc = &e.xml
	case "json":
		enc = &e.json
	case "text":
		enc = &e.text
	default:
		enc = &e.bin
	}
	enc.Clear()
	enc.Any(v)
	return append([]byte{}, enc.Bytes()...)
}

// c20Exec runs one job and returns the digest of everything it produced (or the error text).
func c20Exec(j c20Job, e *c20Encoders, shared ...[]byte) (digest string) {
	defer func() {
		if r := recover(); r != nil {
			digest = fmt.Sprintf("panic: %v", r)
		}
	}()
	raw, _ := hex.DecodeString(j.Hex)
	if len(shared) > 0 && shared[0] != nil {
		raw = shared[0]
	}
	v := c20Fresh(j.Kind)
	if err := ttlv.UnmarshalTTLV(raw, v); err != nil {
		return "decode error: " + err.Error()
	}
	gen.Relocate(v, j.Zones)
	if j.Kind == "failing" {
		return c20Failing(v.(*kmip.RequestMessage), raw, e)
	}
	h := sha256.New()
	bin := e.encode("binary", v)
	if j.Expect != "" && hex.EncodeToString(bin) != j.Expect {
		return "binary-differs-from-reference:" + hex.EncodeToString(bin)
	}
	x := e.encode("xml", v)
	js := e.encode("json", v)
	tx := e.encode("text", v)
	for _, b := range [][]byte{bin, x, js, tx} {
		fmt.Fprintf(h, "%d:", len(b))
		h.Write(b)
	}
	vx := c20Fresh(j.Kind)
	if err := ttlv.UnmarshalXML(x, vx); err != nil {
		fmt.Fprintf(h, "xmlerr:%s", err)
		if j.Expect != "" {
			return "text-round-trip-broken:xml decode: " + err.Error()
		}
	} else {
		b := e.encode("binary", vx)
		if j.Expect != "" && !bytes.Equal(b, bin) {
			return "text-round-trip-broken:xml gives " + hex.EncodeToString(b)
		}
		h.Write(b)
	}
	vj := c20Fresh(j.Kind)
	if err := ttlv.UnmarshalJSON(js, vj); err != nil {
		fmt.Fprintf(h, "jsonerr:%s", err)
		if j.Expect != "" {
			return "text-round-trip-broken:json decode: " + err.Error()
		}
	} else {
		b := e.encode("binary", vj)
		if j.Expect != "" && !bytes.Equal(b, bin) {
			return "text-round-trip-broken:json gives " + hex.EncodeToString(b)
		}
		h.Write(b)
	}
	return hex.EncodeToString(h.Sum(nil))
}

// c20UntaggedObject is a managed object type nobody registered a tag for.
type c20UntaggedObject struct {
	Data []byte `ttlv:"0x540131"`
}

func (*c20UntaggedObject) ObjectType() kmip.ObjectType { return kmip.ObjectType(0x8C7F0001) }

// c20Failing makes calls that fail: the message gets an item the encoders refuse half-way through the
// document (a negative interval), and truncated documents are decoded. Every failure is recovered, as a
// server's or a caller's recover would; the digest says which calls failed.
func c20Failing(m *kmip.RequestMessage, raw []byte, e *c20Encoders) string {
	good := map[string][]byte{}
	for _, enc := range []string{"xml", "json"} {
		good[enc] = e.encode(enc, m)
	}
	m.BatchItem = append(m.BatchItem, kmip.RequestBatchItem{Operation: kmip.OperationCreate, RequestPayload: &payloads.CreateRequestPayload{
		ObjectType: kmip.ObjectTypeSymmetricKey,
		TemplateAttribute: kmip.TemplateAttribute{Attribute: []kmip.Attribute{
			{AttributeName: kmip.AttributeNameCryptographicLength, AttributeValue: int32(256)},
			{AttributeName: kmip.AttributeNameLeaseTime, AttributeValue: -time.Hour},
		}},
	}})
	m.Header.BatchCount++
	out := "failing:"
	for _, enc := range []string{"json", "xml", "binary", "text", "json"} {
		func() {
			defer func() {
				if recover() != nil {
					out += enc + "=panic;"
				}
			}()
			e.encode(enc, m)
			out += enc + "=ok;"
		}()
	}
	// a document abandoned before its first leaf is written: nested structures are open, nothing else has happened yet
	early := ttlv.Value{Tag: 0x420078, Value: ttlv.Struct{{Tag: 0x420077, Value: ttlv.Struct{{Tag: 0x42004A, Value: -time.Second}}}}}
	for _, enc := range []string{"xml", "json", "text", "binary"} {
		func() {
			defer func() {
				if recover() != nil {
					out += "early-" + enc + "=panic;"
				}
			}()
			e.encode(enc, early)
			out += "early-" + enc + "=ok;"
		}()
	}
	// an object whose Go type has no tag cannot be encoded: not the first time, and not the second time either
	// (whatever an earlier message with a proper object left behind)
	getResp := func(obj kmip.Object) *kmip.ResponseMessage {
		return &kmip.ResponseMessage{Header: kmip.ResponseHeader{ProtocolVersion: kmip.V1_4, BatchCount: 1}, BatchItem: []kmip.ResponseBatchItem{{Operation: kmip.OperationGet,
			ResponsePayload: &payloads.GetResponsePayload{ObjectType: kmip.ObjectTypeSecretData, UniqueIdentifier: "id", Object: obj}}}}
	}
	e.encode("binary", getResp(&kmip.SecretData{SecretDataType: kmip.SecretDataTypePassword, KeyBlock: kmip.KeyBlock{KeyFormatType: kmip.KeyFormatTypeOpaque}}))
	bad := getResp(&c20UntaggedObject{})
	out += "untagged-object="
	for i := 0; i < 2; i++ {
		func() {
			defer func() {
				if recover() != nil {
					out += "panic,"
				}
			}()
			e.encode("binary", bad)
			out += "ok,"
		}()
	}
	out += ";"
	if len(raw) > 16 {
		out += fmt.Sprintf("binary-decode-failed=%v;", ttlv.UnmarshalTTLV(raw[:len(raw)-5], &kmip.RequestMessage{}) != nil)
	}
	out += fmt.Sprintf("xml-decode-failed=%v;", ttlv.UnmarshalXML(good["xml"][:len(good["xml"])/2], &kmip.RequestMessage{}) != nil)
	out += fmt.Sprintf("json-decode-failed=%v;", ttlv.UnmarshalJSON(good["json"][:len(good["json"])/2], &kmip.RequestMessage{}) != nil)
	return out
}

// TestC20Child is the body of the child processes (no-op unless VERIF_C20_MODE is set).
func TestC20Child(t *testing.T) {
	mode := os.Getenv("VERIF_C20_MODE")
	if mode == "" {
		t.Skip("child entry point")
	}
	raw, err := os.ReadFile(os.Getenv("VERIF_C20_PLAN"))
	if err != nil {
		t.Fatal(err)
	}
	var p c20Plan
	if err := json.Unmarshal(raw, &p); err != nil {
		t.Fatal(err)
	}
	out := make([]string, len(p.Jobs))
	switch mode {
	case "sequential":
		e := &c20Encoders{}
		for i, j := range p.Jobs {
			out[i] = c20Exec(j, e)
		}
	case "concurrent":
		// cold start: all goroutines are released together so that the per-type plans are built under contention
		start := make(chan struct{})
		var wg sync.WaitGroup
		work := make(chan int, len(p.Jobs))
		for _, i := range p.Perm {
			work <- i
		}
		close(work)
		sharedIn := map[int][]byte{}
		extra := map[int][]string{}
		for _, i := range p.SharedInput {
			if i >= 0 && i < len(p.Jobs) && sharedIn[i] == nil {
				sharedIn[i], _ = hex.DecodeString(p.Jobs[i].Hex)
				extra[i] = make([]string, 3)
				for k := 0; k < 3; k++ {
					wg.Add(1)
					go func(i, k int) {
						defer wg.Done()
						<-start
						extra[i][k] = c20Exec(p.Jobs[i], &c20Encoders{}, sharedIn[i])
					}(i, k)
				}
			}
		}
		for g := 0; g < p.Goroutines; g++ {
			wg.Add(1)
			go func() {
				defer wg.Done()
				e := &c20Encoders{}
				<-start
				for i := range work {
					out[i] = c20Exec(p.Jobs[i], e, sharedIn[i])
				}
			}()
		}
		close(start)
		wg.Wait()
		for i, in := range sharedIn {
			if fresh, _ := hex.DecodeString(p.Jobs[i].Hex); !bytes.Equal(fresh, in) {
				out[i] = "the shared input slice was modified by the decoders"
			}
			for k, d := range extra[i] {
				if d != out[i] {
					out[i] = fmt.Sprintf("decoders of one shared input disagree: %s vs %s (extra decoder %d)", out[i], d, k)
				}
			}
		}
	case "history":
		e := &c20Encoders{reuse: true, bin: ttlv.NewTTLVEncoder(), xml: ttlv.NewXMLEncoder(), json: ttlv.NewJSONEncoder(), text: ttlv.NewTextEncoder(true)}
		// the history child also decodes every input into ONE destination per kind that it keeps using (an application's
		// reused message variable): what a later, fresh decode returns does not depend on that
		reused := map[string]any{}
		redecode := func(j c20Job) (problem string) {
			defer func() { _ = recover() }()
			if j.Kind == "failing" {
				return ""
			}
			d, ok := reused[j.Kind]
			if !ok {
				d = c20Fresh(j.Kind)
				reused[j.Kind] = d
			}
			// messages: the variable is reset the thrifty way, keeping the capacity of its item list (x.BatchItem = x.BatchItem[:0]);
			// what is decoded into it then equals what a fresh variable gets
			resetKept := false
			switch x := d.(type) {
			case *kmip.RequestMessage:
				*x = kmip.RequestMessage{BatchItem: x.BatchItem[:0]}
				resetKept = true
			case *kmip.ResponseMessage:
				*x = kmip.ResponseMessage{BatchItem: x.BatchItem[:0]}
				resetKept = true
			}
			raw, _ := hex.DecodeString(j.Hex)
			err := ttlv.UnmarshalTTLV(raw, d)
			if resetKept && err == nil {
				fresh := c20Fresh(j.Kind)
				raw2, _ := hex.DecodeString(j.Hex)
				if ttlv.UnmarshalTTLV(raw2, fresh) == nil {
					if diff := gen.Diff(fresh, d); diff != "" {
						return "decoded into a reset variable that kept its item capacity, the message differs from a fresh decode: " + diff
					}
				}
			}
			return ""
		}
		for _, i := range p.Prefix {
			_ = redecode(p.Jobs[i])
			_ = c20Exec(p.Jobs[i], e)
		}
		// reversed order, on the same reused encoders
		for i := len(p.Jobs) - 1; i >= 0; i-- {
			problem := redecode(p.Jobs[i])
			out[i] = c20Exec(p.Jobs[i], e)
			if problem != "" {
				out[i] = problem
			}
		}
	}
	b, _ := json.Marshal(out)
	fmt.Printf("C20DIGESTS %s\n", b)
}

func c20RunChild(mode, planPath string) ([]string, string, error) {
	cmd := exec.Command(os.Args[0], "-test.run", "^TestC20Child$", "-test.count=1", "-test.v")
	cmd.Env = append(os.Environ(), "VERIF_C20_MODE="+mode, "VERIF_C20_PLAN="+planPath, "VERIF_EVID_DIR=", "GORACE=halt_on_error=1 exitcode=66")
	var buf bytes.Buffer
	cmd.Stdout, cmd.Stderr = &buf, &buf
	err := cmd.Run()
	outS := buf.String()
	if strings.Contains(outS, "WARNING: DATA RACE") {
		return nil, outS, fmt.Errorf("data race reported in the %s child", mode)
	}
	if err != nil {
		return nil, outS, fmt.Errorf("%s child failed: %v", mode, err)
	}
	for _, line := range strings.Split(outS, "\n") {
		if strings.HasPrefix(line, "C20DIGESTS ") {
			var d []string
			if jerr := json.Unmarshal([]byte(strings.TrimPrefix(line, "C20DIGESTS ")), &d); jerr != nil {
				return nil, outS, jerr
			}
			return d, outS, nil
		}
	}
	return nil, outS, fmt.Errorf("%s child printed no digests", mode)
}

func c20Run(p c20Plan, dir string) (sig string, err error) {
	raw, _ := json.Marshal(p)
	planPath := filepath.Join(dir, fmt.Sprintf("plan-%x.json", sha256.Sum256(raw))[:40])
	if werr := os.WriteFile(planPath, raw, 0o644); werr != nil {
		return "harness", werr
	}
	defer os.Remove(planPath)
	ref, out, err := c20RunChild("sequential", planPath)
	if err != nil {
		return "sequential-child-failed", fmt.Errorf("%w\n%s", err, tail(out))
	}
	for i, d := range ref {
		if strings.HasPrefix(d, "binary-differs-from-reference:") {
			return "result-depends-on-history", fmt.Errorf("job %d (%s): the sequential child (jobs in list order, one process) encodes %s, the reference encoder predicts %s for this value alone", i, p.Jobs[i].Kind, d[30:], p.Jobs[i].Expect)
		}
		if p.Jobs[i].Kind == "failing" && !strings.HasPrefix(d, "failing:") {
			return "harness-failing-job", fmt.Errorf("job %d: the failing-calls job did not run to its end: %s", i, d)
		}
		if strings.HasPrefix(d, "failing:") && !strings.Contains(d, "untagged-object=panic,panic,;") {
			return "result-depends-on-history", fmt.Errorf("job %d (failing calls): encoding an object whose type has no tag must fail every time it is tried, the sequential child reports %s", i, d)
		}
		if strings.HasPrefix(d, "text-round-trip-broken:") {
			return "result-depends-on-history", fmt.Errorf("job %d (%s %s): in the sequential child (jobs in list order, one process) the XML/JSON document of this value no longer decodes to the same binary encoding: %s", i, p.Jobs[i].Kind, p.Jobs[i].Hex, d[23:])
		}
	}
	for _, mode := range []string{"concurrent", "history"} {
		got, out, err := c20RunChild(mode, planPath)
		if err != nil {
			s := mode + "-child-failed"
			if strings.Contains(err.Error(), "data race") {
				s = "data-race"
			}
			return s, fmt.Errorf("%w\n%s", err, tail(out))
		}
		for i := range ref {
			if got[i] != ref[i] {
				return "result-depends-on-" + mode, fmt.Errorf("job %d (%s %s...) gives %s in the %s child but %s sequentially in a fresh process", i, p.Jobs[i].Kind, p.Jobs[i].Hex[:min(40, len(p.Jobs[i].Hex))], got[i], mode, ref[i])
			}
		}
	}
	return "", nil
}

func tail(s string) string {
	if len(s) > 3000 {
		return s[len(s)-3000:]
	}
	return s
}

func TestC20History(t *testing.T) {
	const name = "TestC20History"
	rec := evid.New("C20", name, "work lists of 2..14 encode/decode jobs (requests and responses of versions 1.0..1.4 and, one in five, of a foreign version 0.x/2.x/3.x, generic values, an application structure that carries a protocol version as plain data, header-less typed values - CryptographicParameters with later-version fields - of mixed versions, one job in three with its dates placed in UTC / fixed zones after decoding (one date in four repeating the instant of the previous one), and jobs whose calls fail: a request made unencodable by a negative interval, truncated documents) executed by three fresh child processes of the test binary: sequentially (reference), "+
		"concurrently from a cold start with G in {2,8,32} goroutines released together in a drawn permutation, the input bytes of some jobs (always those of a structure of long big integers of both signs and of a Register request carrying a transparent RSA public key) existing once and being decoded by four goroutines at the same time, and on one reused, cleared encoder per encoding after a drawn prefix of unrelated jobs and in reverse order (that child also decodes every input into one destination per kind that it keeps using); "+
		"oracle: per-job digest of the four encodings and of the binary re-encoding after the XML and JSON round trips is identical across the children, every child's binary encoding equals the one the reference encoder predicts for the value alone, and in every child the XML and JSON documents of a typed message decode back to that binary encoding; the race-built variant additionally fails on any reported data race; "+
		"non-trivial = the list holds messages of at least two different protocol versions or two different kinds; distinct by plan").Attach(t)
	dir := t.TempDir()
	if rp := evid.LoadReplay(name); rp != nil {
		var p c20Plan
		if err := json.Unmarshal(rp.Case, &p); err != nil {
			t.Fatal(err)
		}
		if sig, err := c20Run(p, dir); err != nil {
			t.Fatalf("VERIF-FAIL property=C20 test=%s sig=%s replay=: %v", name, sig, err)
		}
		return
	}
	rapid.Check(t, func(rt *rapid.T) {
		lo, hi := 2, 14
		if raceEnabled {
			// race-instrumented children start slowly: fewer, larger cases
			lo, hi = 12, 40
		}
		n := rapid.IntRange(lo, hi).Draw(rt, "jobs")
		p := c20Plan{Goroutines: rapid.SampledFrom([]int{2, 8, 32}).Draw(rt, "goroutines")}
		versions := map[string]bool{}
		kinds := map[string]bool{}
		failing := 0
		// half of the lists concentrate on one or two operations (those carrying managed objects first): many messages
		// then share their cached per-type plans while their dynamic content (object types, attribute values) differs
		// in half of the lists the messages keep fields of later versions populated (the reference encoder gates them,
		// as C05 checks in isolation): a version that leaks from one message into another then changes bytes
		mo := gen.MsgOpts{Alphabet: "xml", TextSafe: true, MaxItems: 2, AllowGated: rapid.Bool().Draw(rt, "allowgated")}
		focus := "none"
		if rapid.Bool().Draw(rt, "focus") {
			pool := []kmip.Operation{kmip.OperationRegister, kmip.OperationGet, kmip.OperationImport, kmip.OperationExport, kmip.OperationRegister, kmip.OperationGet}
			for _, e := range gen.Ops {
				pool = append(pool, e.Op)
			}
			mo.OnlyOps = rapid.SliceOfN(rapid.SampledFrom(pool), 1, 2).Draw(rt, "focusops")
			focus = fmt.Sprint(mo.OnlyOps)
		}
		for i := 0; i < n; i++ {
			var j c20Job
			switch rapid.IntRange(0, 6).Draw(rt, "kind") {
			case 6:
				// an application structure sharing field types with the headers (see c20PlainVersion)
				minor := rapid.IntRange(0, 4).Draw(rt, "plainminor")
				tr := &ttlvref.Node{Tag: 0x540140, Type: ttlvref.Structure, Kids: []*ttlvref.Node{
					{Tag: 0x420069, Type: ttlvref.Structure, Kids: []*ttlvref.Node{{Tag: 0x42006A, Type: ttlvref.Integer, I: 1}, {Tag: 0x42006B, Type: ttlvref.Integer, I: int64(minor)}}},
					{Tag: 0x4200CD, Type: ttlvref.Integer, I: int64(rapid.IntRange(1, 64).Draw(rt, "ivlen"))}}}
				j = c20Job{Kind: "plainversion", Hex: hex.EncodeToString(ttlvref.Write(tr)), Expect: hex.EncodeToString(ttlvref.Write(tr))}
			case 5:
				m := gen.Request(rt, mo)
				w := &refwalk.Walker{}
				tr, err := w.Message(m)
				if err != nil {
					rt.Fatalf("harness: %v", err)
				}
				j = c20Job{Kind: "failing", Hex: hex.EncodeToString(ttlvref.Write(tr))}
				failing++
			case 0:
				to := gen.DefaultTreeOpts()
				to.TextSafe, to.Alphabet, to.MaxDepth = true, "xml", 3
				if rapid.Bool().Draw(rt, "headerless") {
					// a typed value without a header of its own: no protocol version applies, every populated field is written
					cp := gen.CryptoParams(rt)
					w := &refwalk.Walker{}
					tr, err := w.Any(cp)
					if err != nil {
						rt.Fatalf("harness: %v", err)
					}
					j = c20Job{Kind: "cparams", Hex: hex.EncodeToString(ttlvref.Write(tr)), Expect: hex.EncodeToString(ttlvref.Write(tr))}
				} else {
					j = c20Job{Kind: "value", Hex: hex.EncodeToString(ttlvref.Write(gen.Tree(rt, to)))}
				}
			case 1, 2:
				m := gen.Request(rt, mo)
				foreignVersion(rt, &m.Header.ProtocolVersion)
				w := &refwalk.Walker{}
				tr, err := w.Message(m)
				if err != nil {
					rt.Fatalf("harness: %v", err)
				}
				j = c20Job{Kind: "request", Hex: hex.EncodeToString(ttlvref.Write(tr)), Expect: hex.EncodeToString(ttlvref.Write(tr))}
				versions[m.Header.ProtocolVersion.String()] = true
			default:
				m := gen.Response(rt, mo)
				foreignVersion(rt, &m.Header.ProtocolVersion)
				w := &refwalk.Walker{}
				tr, err := w.Message(m)
				if err != nil {
					rt.Fatalf("harness: %v", err)
				}
				j = c20Job{Kind: "response", Hex: hex.EncodeToString(ttlvref.Write(tr)), Expect: hex.EncodeToString(ttlvref.Write(tr))}
				versions[m.Header.ProtocolVersion.String()] = true
			}
			kinds[j.Kind] = true
			if rapid.IntRange(0, 2).Draw(rt, "relocate") == 0 {
				j.Zones = rapid.SliceOfN(rapid.IntRange(0, 79), 1, 4).Draw(rt, "zones")
			}
			p.Jobs = append(p.Jobs, j)
		}
		if rapid.IntRange(0, 2).Draw(rt, "bigjob") != 2 {
			// a generic structure of big integers of both signs, some of them long (decoding them takes long enough for
			// concurrent decoders of one input to overlap); always decoded from one shared slice
			tr := &ttlvref.Node{Tag: 0x540150, Type: ttlvref.Structure}
			for k := rapid.IntRange(1, 3).Draw(rt, "nbig"); k > 0; k-- {
				ln := rapid.SampledFrom([]int{8, 16, 264, 264, 4096, 4096, 32768}).Draw(rt, "biglen")
				raw := make([]byte, ln)
				fill := rapid.SliceOfN(rapid.Byte(), 8, 8).Draw(rt, "bigfill")
				for x := range raw {
					raw[x] = fill[x%8] + byte(x/8)
				}
				v := new(big.Int).SetBytes(raw)
				if rapid.IntRange(0, 2).Draw(rt, "negative") != 0 {
					v.Neg(v)
				}
				tr.Kids = append(tr.Kids, &ttlvref.Node{Tag: 0x540151, Type: ttlvref.BigInteger, Big: v})
			}
			p.Jobs = append(p.Jobs, c20Job{Kind: "value", Hex: hex.EncodeToString(ttlvref.Write(tr))})
			p.SharedInput = append(p.SharedInput, len(p.Jobs)-1)
			n = len(p.Jobs)
		}
		if rapid.IntRange(0, 2).Draw(rt, "rsajob") != 2 {
			// a Register request for an RSA public key in the transparent format (its modulus and exponent are big integer
			// VALUE fields, not pointers), long enough for concurrent encodings to overlap; executed four times at once in
			// the concurrent child like the job above
			raw := make([]byte, rapid.SampledFrom([]int{128, 256, 512, 4096}).Draw(rt, "modlen"))
			fill := rapid.SliceOfN(rapid.Byte(), 8, 8).Draw(rt, "modfill")
			for x := range raw {
				raw[x] = fill[x%8] ^ byte(x/8)
			}
			raw[0] |= 0x40
			pk := &kmip.PublicKey{KeyBlock: kmip.KeyBlock{KeyFormatType: kmip.KeyFormatTypeTransparentRSAPublicKey, CryptographicAlgorithm: kmip.CryptographicAlgorithmRSA, CryptographicLength: int32(8 * len(raw)),
				KeyValue: &kmip.KeyValue{Plain: &kmip.PlainKeyValue{KeyMaterial: kmip.KeyMaterial{TransparentRSAPublicKey: &kmip.TransparentRSAPublicKey{
					Modulus: *new(big.Int).SetBytes(raw), PublicExponent: *big.NewInt(int64(rapid.SampledFrom([]int{3, 17, 65537}).Draw(rt, "pubexp")))}}}}}}
			m := kmip.NewRequestMessage(kmip.V1_4, &payloads.RegisterRequestPayload{ObjectType: kmip.ObjectTypePublicKey, Object: pk})
			tr, err := (&refwalk.Walker{}).Message(&m)
			if err != nil {
				rt.Fatalf("harness: %v", err)
			}
			enc := hex.EncodeToString(ttlvref.Write(tr))
			p.Jobs = append(p.Jobs, c20Job{Kind: "request", Hex: enc, Expect: enc})
			p.SharedInput = append(p.SharedInput, len(p.Jobs)-1)
			n = len(p.Jobs)
		}
		if n > 1 && rapid.Bool().Draw(rt, "moreshared") {
			p.SharedInput = append(p.SharedInput, rapid.IntRange(0, n-1).Draw(rt, "sharedjob"))
		}
		p.Perm = rapid.Permutation(seq(n)).Draw(rt, "perm")
		p.Prefix = rapid.SliceOfN(rapid.IntRange(0, n-1), 0, 4).Draw(rt, "prefix")
		key, _ := json.Marshal(p)
		nt := len(versions) >= 2 || len(kinds) >= 2
		rec.Case(nt, key, fmt.Sprintf("goroutines=%d", p.Goroutines), fmt.Sprintf("versions=%d", len(versions)), fmt.Sprintf("failing-calls=%v", failing > 0), fmt.Sprintf("focused=%v", focus != "none"))
		rec.Eval(3*n - 1)
		if nt && rec.WantSample() && len(key) < 3000 {
			rec.Sample(p)
		}
		if sig, err := c20Run(p, dir); err != nil {
			rec.Fail(rt, name, sig, err, p)
		}
	})
}

// foreignVersion: one message in five carries a header version outside 1.0..1.4 (a peer speaking 2.x, or 0.x / 3.x):
// the codec treats versions as numbers, and whatever such a message leaves behind must not influence the others.
func foreignVersion(rt *rapid.T, pv *kmip.ProtocolVersion) {
	if rapid.IntRange(0, 4).Draw(rt, "foreign-version") == 0 {
		pv.ProtocolVersionMajor = rapid.SampledFrom([]int32{0, 2, 2, 3}).Draw(rt, "major")
		pv.ProtocolVersionMinor = int32(rapid.IntRange(0, 5).Draw(rt, "minor"))
	}
}

func seq(n int) []int {
	s := make([]int, n)
	for i := range s {
		s[i] = i
	}
	return s
}
