package codec

import (
	kmip "github.com/ovh/kmip-go"
	"github.com/ovh/kmip-go/payloads"
	"bytes"
	"encoding/hex"
	"encoding/json"
	"encoding/xml"
	"fmt"
	"io"
	"reflect"
	"sort"
	"strings"
	"testing"

	"github.com/ovh/kmip-go/ttlv"
	"pgregory.net/rapid"

	"verif/harness/evid"
	"verif/harness/gen"
	"verif/harness/refwalk"
	"verif/harness/ttlvref"
)

// ---- tiny XML DOM (stdlib tokens only)

type xnode struct {
	Name  string
	Attrs [][2]string
	Kids  []*xnode
	Text  string
}

func parseXMLDOM(b []byte) (*xnode, error) {
	d := xml.NewDecoder(bytes.NewReader(b))
	var stack []*xnode
	var root *xnode
	for {
		tok, err := d.Token()
		if err == io.EOF {
			break
		}
		if err != nil {
			return nil, err
		}
		switch e := tok.(type) {
		case xml.StartElement:
			n := &xnode{Name: e.Name.Local}
			for _, a := range e.Attr {
				n.Attrs = append(n.Attrs, [2]string{a.Name.Local, a.Value})
			}
			if len(stack) > 0 {
				p := stack[len(stack)-1]
				p.Kids = append(p.Kids, n)
			} else if root == nil {
				root = n
			}
			stack = append(stack, n)
		case xml.EndElement:
			if len(stack) == 0 {
				return nil, fmt.Errorf("unbalanced")
			}
			stack = stack[:len(stack)-1]
		}
	}
	if root == nil || len(stack) != 0 {
		return nil, fmt.Errorf("no root / unclosed")
	}
	return root, nil
}

func (n *xnode) all(out *[]*xnode) {
	*out = append(*out, n)
	for _, k := range n.Kids {
		k.all(out)
	}
}

func (n *xnode) write(b *bytes.Buffer) {
	b.WriteString("<" + n.Name)
	for _, a := range n.Attrs {
		b.WriteString(" " + a[0] + `="`)
		_ = xml.EscapeText(b, []byte(a[1]))
		b.WriteString(`"`)
	}
	if len(n.Kids) == 0 && n.Text == "" {
		b.WriteString("/>")
		return
	}
	b.WriteString(">")
	_ = xml.EscapeText(b, []byte(n.Text))
	for _, k := range n.Kids {
		k.write(b)
	}
	b.WriteString("</" + n.Name + ">")
}

func (n *xnode) setAttr(k, v string) {
	for i := range n.Attrs {
		if n.Attrs[i][0] == k {
			n.Attrs[i][1] = v
			return
		}
	}
	n.Attrs = append(n.Attrs, [2]string{k, v})
}

func (n *xnode) delAttr(k string) {
	for i := range n.Attrs {
		if n.Attrs[i][0] == k {
			n.Attrs = append(n.Attrs[:i:i], n.Attrs[i+1:]...)
			return
		}
	}
}

var hostileValues = []string{"", "zz", "0x", "0xZZ", "ABC", "0", "-1", "1.5", "1e400", "99999999999999999999999", "-99999999999999999999999", "0x80000000", "0xFFFFFFFFFFFFFFFFFF",
	"true", "TRUE", "T", "null", " ", "|", "Sign|", "|Sign", "Sign Verify 0x", "2020-13-45T99:99:99Z", "0000-00-00T00:00:00Z", "99999-01-01T00:00:00Z", "0x-1", "+5", "１２", "NaN"}

var typeNames = []string{"Structure", "Integer", "LongInteger", "BigInteger", "Enumeration", "Boolean", "TextString", "ByteString", "DateTime", "Interval"}

func mutateXML(rt *rapid.T, valid []byte) ([]byte, string) {
	root, err := parseXMLDOM(valid)
	if err != nil {
		return valid, "unparsed"
	}
	var nodes []*xnode
	root.all(&nodes)
	n := nodes[rapid.IntRange(0, len(nodes)-1).Draw(rt, "node")]
	desc := ""
	switch rapid.IntRange(0, 12).Draw(rt, "xmut") {
	case 0:
		n.setAttr("type", rapid.SampledFrom([]string{"Foo", "", "structure", "Int", "TTLV", "Structure "}).Draw(rt, "badtype"))
		desc = "type-unknown"
	case 1:
		n.setAttr("type", rapid.SampledFrom(typeNames).Draw(rt, "othertype"))
		desc = "type-other"
	case 2:
		n.setAttr("value", rapid.SampledFrom(hostileValues).Draw(rt, "hv"))
		desc = "value-hostile"
	case 3:
		n.delAttr("value")
		desc = "value-missing"
	case 4:
		n.delAttr("type")
		desc = "type-missing"
	case 5:
		n.Name = rapid.SampledFrom([]string{"TTLV", "Unknown", "BatchItem", "RequestMessage", "ttlv", "X"}).Draw(rt, "rename")
		desc = "rename"
	case 6:
		n.Name = "TTLV"
		n.setAttr("tag", rapid.SampledFrom([]string{"", "0x", "0xZZ", "0x420001", "0xFFFFFFFFFF", "420001", "-1", "0x-1"}).Draw(rt, "tagattr"))
		desc = "tag-attr"
	case 7:
		n.Kids = append(n.Kids, &xnode{Name: "Extra", Attrs: [][2]string{{"type", "Integer"}, {"value", "1"}}})
		desc = "child-in-leaf-or-extra"
	case 8:
		n.Kids = nil
		n.delAttr("type")
		n.delAttr("value")
		desc = "emptied"
	case 9:
		n.Text = "chardata"
		desc = "chardata"
	case 10:
		n.Attrs = append(n.Attrs, [2]string{"value", "dup"})
		desc = "dup-attr"
	case 11:
		if len(n.Kids) > 1 {
			n.Kids[0], n.Kids[len(n.Kids)-1] = n.Kids[len(n.Kids)-1], n.Kids[0]
		}
		desc = "reorder"
	default:
		var b bytes.Buffer
		root.write(&b)
		out := b.Bytes()
		at := rapid.IntRange(0, len(out)).Draw(rt, "trunc")
		return out[:at], "truncate"
	}
	var b bytes.Buffer
	root.write(&b)
	return b.Bytes(), desc
}

// ---- JSON mutation on the generic document

func jsonNodes(v any, out *[]map[string]any) {
	switch x := v.(type) {
	case map[string]any:
		*out = append(*out, x)
		// deterministic order
		keys := make([]string, 0, len(x))
		for k := range x {
			keys = append(keys, k)
		}
		sort.Strings(keys)
		for _, k := range keys {
			jsonNodes(x[k], out)
		}
	case []any:
		for _, e := range x {
			jsonNodes(e, out)
		}
	}
}

func mutateJSON(rt *rapid.T, valid []byte) ([]byte, string) {
	var doc any
	d := json.NewDecoder(bytes.NewReader(valid))
	d.UseNumber()
	if err := d.Decode(&doc); err != nil {
		return valid, "unparsed"
	}
	var nodes []map[string]any
	jsonNodes(doc, &nodes)
	desc := ""
	wrongKinds := []any{nil, true, json.Number("1"), json.Number("-1"), json.Number("1.5"), json.Number("1e400"), json.Number("99999999999999999999999"),
		"zz", "", "0x", "0xZZ", "ABC", "0x80000000", []any{}, []any{json.Number("1")}, map[string]any{}, map[string]any{"tag": "X"}, []any{nil}, []any{"x"}, json.Number("4294967296"), json.Number("-9223372036854775808")}
	if len(nodes) == 0 || rapid.IntRange(0, 14).Draw(rt, "toplevel") == 0 {
		doc = rapid.SampledFrom(wrongKinds).Draw(rt, "top")
		desc = "top-level-non-object"
	} else {
		n := nodes[rapid.IntRange(0, len(nodes)-1).Draw(rt, "node")]
		switch rapid.IntRange(0, 15).Draw(rt, "jmut") {
		case 14, 15:
			// a structure loses one of its elements (the last one half of the time): what a typed reader expects next is not there
			var structs []map[string]any
			for _, x := range nodes {
				if arr, ok := x["value"].([]any); ok && len(arr) > 0 {
					structs = append(structs, x)
				}
			}
			if len(structs) > 0 {
				x := structs[rapid.IntRange(0, len(structs)-1).Draw(rt, "dropfrom")]
				arr := x["value"].([]any)
				k := len(arr) - 1
				if rapid.Bool().Draw(rt, "dropany") {
					k = rapid.IntRange(0, len(arr)-1).Draw(rt, "dropidx")
				}
				x["value"] = append(append([]any{}, arr[:k]...), arr[k+1:]...)
			}
			desc = "element-dropped"
		case 12, 13:
			// a scalar (Booleans first) written in another lexical form that some parser along the way may accept:
			// strings where JSON has literals or numbers, other spellings, numbers where strings are expected
			var scalars []map[string]any
			for _, x := range nodes {
				switch ty, _ := x["type"].(string); ty {
				case "Boolean":
					scalars = append(scalars, x, x, x, x)
				case "Integer":
					scalars = append(scalars, x)
					if tg, _ := x["tag"].(string); strings.Contains(tg, "Mask") || tg == "0x42002C" || tg == "0x42008E" {
						scalars = append(scalars, x, x, x) // bit masks have a list syntax of their own
					}
				case "LongInteger", "BigInteger", "Enumeration", "Interval", "DateTime", "TextString", "ByteString":
					scalars = append(scalars, x)
				}
			}
			if len(scalars) > 0 {
				n = scalars[rapid.IntRange(0, len(scalars)-1).Draw(rt, "scalarnode")]
			}
			// bit masks, under their own tags or as the value of the attribute "Cryptographic Usage Mask": when the document has
			// any, one of them is the target half of the time
			var masks []map[string]any
			for _, x := range nodes {
				if ty, _ := x["type"].(string); ty == "Integer" {
					if tg, _ := x["tag"].(string); strings.Contains(tg, "Mask") || tg == "0x42002C" || tg == "0x42008E" {
						masks = append(masks, x)
					}
				}
				if arr, ok := x["value"].([]any); ok {
					isMaskAttr := false
					for _, k := range arr {
						if km, ok := k.(map[string]any); ok && km["tag"] == "AttributeName" && km["value"] == "Cryptographic Usage Mask" {
							isMaskAttr = true
						}
					}
					for _, k := range arr {
						if km, ok := k.(map[string]any); ok && isMaskAttr && km["tag"] == "AttributeValue" {
							masks = append(masks, km)
						}
					}
				}
			}
			if len(masks) > 0 && rapid.Bool().Draw(rt, "target-a-mask") {
				n = masks[rapid.IntRange(0, len(masks)-1).Draw(rt, "masknode")]
			}
			n["value"] = rapid.SampledFrom([]any{"true", "false", "t", "f", "T", "F", "TRUE", "False", "1", "0", "yes", true, false, json.Number("1"), json.Number("0"),
				"12", "+12", " 12", "0x0000000C", "0X0C", "1e2", "Encrypt||Decrypt", "|Encrypt", "Encrypt| |Decrypt", " ", "||", "Sign|", "Sign |  | Verify", "Sign Verify", "Sign  Verify", "|", "Sign|0x00000002|", "2024-01-01T00:00:00Z", "2024-01-01", json.Number("1700000000"), "00", "0g", json.Number("12")}).Draw(rt, "altform")
			if ty, _ := n["type"].(string); ty == "Integer" && rapid.Bool().Draw(rt, "masklist") {
				// an Integer may be a bit mask (under its own tag or as an attribute value): the list syntax with empty,
				// blank, repeated and unknown components
				n["value"] = rapid.SampledFrom([]string{"Encrypt||Decrypt", "|Encrypt", "Encrypt| |Decrypt", " ", "||", "Sign|", "Sign |  | Verify", "Sign  Verify", "|", "Sign|0x00000002|", "| |", "Sign||", "||Sign", "Nope|Sign", "Sign|Nope"}).Draw(rt, "maskform")
			}
			desc = "scalar-in-another-lexical-form"
			if len(masks) > 0 {
				desc = "scalar-in-another-lexical-form(document-has-masks)"
			}
		case 10, 11:
			// a numeric element (big integers first) gets a JSON number that is legal JSON but no integer literal
			var numeric []map[string]any
			for _, x := range nodes {
				if ty, _ := x["type"].(string); ty == "BigInteger" {
					numeric = append(numeric, x, x, x)
				} else if ty == "Integer" || ty == "LongInteger" || ty == "Enumeration" || ty == "Interval" || ty == "DateTime" || ty == "Boolean" {
					numeric = append(numeric, x)
				}
			}
			if len(numeric) > 0 {
				n = numeric[rapid.IntRange(0, len(numeric)-1).Draw(rt, "numnode")]
			}
			n["value"] = json.Number(rapid.SampledFrom([]string{"17.0", "1.7e1", "1E400", "-0.5", "1e2", "0.0", "1.5", "-1e-3", "12345678901234567890.0", "1e19"}).Draw(rt, "numform"))
			desc = "number-not-integer-literal"
		case 0:
			n["type"] = rapid.SampledFrom([]any{"Foo", "", "structure", json.Number("1"), nil, true, []any{}}).Draw(rt, "badtype")
			desc = "type-unknown"
		case 1:
			n["type"] = rapid.SampledFrom(typeNames).Draw(rt, "othertype")
			desc = "type-other"
		case 2:
			n["value"] = rapid.SampledFrom(wrongKinds).Draw(rt, "wk")
			desc = "value-wrong-kind"
		case 3:
			n["value"] = rapid.SampledFrom(hostileValues).Draw(rt, "hv")
			desc = "value-hostile"
		case 4:
			delete(n, rapid.SampledFrom([]string{"tag", "type", "value"}).Draw(rt, "delkey"))
			desc = "key-missing"
		case 5:
			n["tag"] = rapid.SampledFrom([]any{json.Number("1"), nil, "", "0x", "0xZZ", "Unknown", "0x420001", "0xFFFFFFFFFF", []any{}, true}).Draw(rt, "badtag")
			desc = "tag-bad"
		case 6:
			if arr, ok := n["value"].([]any); ok && len(arr) > 0 {
				arr[rapid.IntRange(0, len(arr)-1).Draw(rt, "elem")] = rapid.SampledFrom(wrongKinds).Draw(rt, "wk")
				desc = "element-not-object"
			} else {
				n["value"] = []any{json.Number("1"), "x", nil}
				desc = "value-array-of-scalars"
			}
		case 7:
			if rapid.Bool().Draw(rt, "casevariants") {
				// the member is spelled in other letter cases, twice, with different contents (and no exact spelling)
				k := rapid.SampledFrom([]string{"tag", "type", "value"}).Draw(rt, "casekey")
				old, had := n[k]
				delete(n, k)
				alt := rapid.SampledFrom(wrongKinds).Draw(rt, "altvalue")
				if !had {
					old = "x"
				}
				n[strings.ToUpper(k[:1])+k[1:]] = old
				n[strings.ToUpper(k)] = alt
				desc = "case-variant-members"
			} else {
				n["extra"] = "x"
				desc = "extra-key"
			}
		case 8:
			delete(n, "type")
			n["value"] = []any{}
			desc = "emptied"
		default:
			out, _ := json.Marshal(doc)
			at := rapid.IntRange(0, len(out)).Draw(rt, "trunc")
			return out[:at], "truncate"
		}
	}
	out, err := json.Marshal(doc)
	if err != nil {
		return valid, "unmarshalable"
	}
	return out, desc
}

func validText(rt *rapid.T, enc string) (data []byte, tg target) {
	alphabet := map[string]string{"xml": "xml", "json": "json"}[enc]
	o := gen.MsgOpts{Alphabet: alphabet, TextSafe: true}
	w := &refwalk.Walker{}
	switch rapid.IntRange(0, 3).Draw(rt, "source") {
	case 0:
		to := gen.DefaultTreeOpts()
		to.MaxDepth, to.Alphabet, to.TextSafe = 4, alphabet, true
		return refEncode(gen.Tree(rt, to), enc), targets[0]
	case 1:
		m := gen.Request(rt, o)
		if rapid.IntRange(0, 2).Draw(rt, "with-a-mask") == 0 {
			// one request in three is sure to carry a bit mask (as the value of the attribute Cryptographic Usage Mask): the
			// typed reader of masks has a syntax of its own, which the mutations aim at
			m.BatchItem = append(m.BatchItem, kmip.RequestBatchItem{Operation: kmip.OperationCreate, RequestPayload: &payloads.CreateRequestPayload{ObjectType: kmip.ObjectTypeSymmetricKey,
				TemplateAttribute: kmip.TemplateAttribute{Attribute: []kmip.Attribute{{AttributeName: kmip.AttributeNameCryptographicUsageMask, AttributeValue: kmip.CryptographicUsageEncrypt | kmip.CryptographicUsageDecrypt}}}}})
			m.Header.BatchCount++
		}
		tg := targets[1]
		if rapid.IntRange(0, 3).Draw(rt, "asvalue") == 0 {
			tg = targets[0]
		}
		if rapid.Bool().Draw(rt, "libenc") {
			return append([]byte{}, libMarshal(enc, m)...), tg
		}
		n, _ := w.Message(m)
		return refEncode(n, enc), tg
	case 2:
		m := gen.Response(rt, o)
		tg := targets[2]
		if rapid.IntRange(0, 3).Draw(rt, "asvalue") == 0 {
			tg = targets[0]
		}
		if rapid.Bool().Draw(rt, "libenc") {
			return append([]byte{}, libMarshal(enc, m)...), tg
		}
		n, _ := w.Message(m)
		return refEncode(n, enc), tg
	default:
		e := rapid.SampledFrom(gen.Ops).Draw(rt, "op")
		resp := rapid.Bool().Draw(rt, "resp")
		g := gen.NewG(rt, o)
		p := g.Payload(e, resp)
		tag := tagRequestPayload
		if resp {
			tag = tagResponsePayload
		}
		ns, err := w.Emit(tag, reflect.ValueOf(p))
		if err != nil || len(ns) != 1 {
			rt.Fatalf("harness refwalk: %v", err)
		}
		return refEncode(ns[0], enc), targetByName(reflect.TypeOf(p).Elem().Name())
	}
}

func TestC02Text(t *testing.T) {
	const name = "TestC02Text"
	c02CurrentTest = name
	rec := evid.New("C02", name, "document-level mutation of valid XML and JSON encodings (generic trees, requests, responses, single payloads; produced by the independent writers or by the library): unknown/foreign/missing type, "+
		"hostile or wrong-kind values at every position incl. top level and array elements, missing/duplicated keys and attributes, bad tag forms, children inside leaves, character data, truncation; "+
		"targets ttlv.Value / message / payload; non-trivial = the mutated document is still well-formed for the standard library parser (so the KMIP layer is reached) and differs from the valid one; distinct by (encoding,target,bytes)").Attach(t)
	if rp := evid.LoadReplay(name); rp != nil {
		var c c02Case
		if err := json.Unmarshal(rp.Case, &c); err != nil {
			t.Fatal(err)
		}
		if sig, err := c02Run(c); err != nil {
			t.Fatalf("VERIF-FAIL property=C02 test=%s sig=%s replay=: %v", name, sig, err)
		}
		return
	}
	rapid.Check(t, func(rt *rapid.T) {
		enc := rapid.SampledFrom([]string{"xml", "json"}).Draw(rt, "encoding")
		valid, tg := validText(rt, enc)
		var data []byte
		var desc string
		if enc == "xml" {
			data, desc = mutateXML(rt, valid)
		} else {
			data, desc = mutateJSON(rt, valid)
		}
		wellFormed := false
		if enc == "json" {
			wellFormed = json.Valid(data)
		} else {
			_, err := parseXMLDOM(data)
			wellFormed = err == nil
		}
		c := c02Case{Encoding: enc, Target: tg.Name, DataHex: hex.EncodeToString(data), Text: string(data), Mutation: desc}
		nt := wellFormed && !bytes.Equal(data, valid)
		rec.Case(nt, append([]byte(enc+tg.Name+"|"), data...), enc+"-mut="+desc)
		if nt && rec.WantSample() && len(data) < 300 {
			rec.Sample(c)
		}
		if sig, err := c02Run(c); err != nil {
			sig = strings.ReplaceAll(sig, " ", "_")
			rec.Fail(rt, name, sig, err, c)
		}
	})
	_ = ttlv.MarshalXML
	_ = ttlvref.Strict
}
