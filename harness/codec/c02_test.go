package codec

import (
	"bytes"
	"encoding/hex"
	"encoding/json"
	"fmt"
	"os"
	"reflect"
	"testing"
	"time"

	kmip "github.com/ovh/kmip-go"
	"github.com/ovh/kmip-go/ttlv"
	"pgregory.net/rapid"

	"verif/harness/evid"
	"verif/harness/gen"
	"verif/harness/ttlvref"
)

// A decode target: how to decode `data` in encoding `enc` into a fresh value of the target type.
type target struct {
	Name string
	New  func() any
	Tag  int // 0: use the type's default tag (Unmarshal*), else TagAny(tag, ptr)
}

var targets = func() []target {
	ts := []target{
		{"ttlv.Value", func() any { return &ttlv.Value{} }, 0},
		{"RequestMessage", func() any { return &kmip.RequestMessage{} }, 0},
		{"ResponseMessage", func() any { return &kmip.ResponseMessage{} }, 0},
	}
	for _, e := range gen.Ops {
		e := e
		ts = append(ts, target{reflect.TypeOf(e.Req()).Elem().Name(), func() any { return e.Req() }, tagRequestPayload})
		ts = append(ts, target{reflect.TypeOf(e.Resp()).Elem().Name(), func() any { return e.Resp() }, tagResponsePayload})
	}
	return ts
}()

func targetByName(n string) target {
	for _, t := range targets {
		if t.Name == n {
			return t
		}
	}
	return targets[0]
}

type decodeResult struct {
	val      any
	err      error
	panicked bool
	hung     bool
}

const hangLimit = 10 * time.Second

// decodeInto runs one decode under a watchdog and with panic capture.
func decodeInto(enc string, data []byte, tg target) decodeResult {
	ch := make(chan decodeResult, 1)
	go func() {
		var r decodeResult
		defer func() {
			if p := recover(); p != nil {
				r.panicked = true
				r.err = fmt.Errorf("panic: %v", p)
			}
			ch <- r
		}()
		v := tg.New()
		if tg.Tag == 0 {
			r.err = libUnmarshal(enc, data, v)
		} else {
			dec, err := libDecoder(enc, data)
			if err != nil {
				r.err = err
			} else {
				r.err = dec.TagAny(tg.Tag, v)
			}
		}
		r.val = v
	}()
	select {
	case r := <-ch:
		return r
	case <-time.After(hangLimit):
		return decodeResult{hung: true, err: fmt.Errorf("decode did not return within %s", hangLimit)}
	}
}

type c02Case struct {
	Encoding string `json:"encoding"`
	Target   string `json:"target"`
	DataHex  string `json:"data_hex"`
	Text     string `json:"data_text,omitempty"`
	Mutation string `json:"mutation,omitempty"`
	// MustReject: built so that one child overruns its enclosing structure while the rest is well-formed.
	MustReject bool `json:"must_reject,omitempty"`
}

func (c c02Case) data() []byte {
	b, _ := hex.DecodeString(c.DataHex)
	return b
}

// c02Run applies every C02 oracle to one input.
// c02CurrentTest names the test that is running c02Run (for the replay written when a decode does not return).
var c02CurrentTest = "TestC02Binary"

func c02Run(c c02Case) (sig string, err error) {
	data := c.data()
	tg := targetByName(c.Target)
	pristine := append([]byte{}, data...)
	in := append([]byte{}, data...)
	r1 := decodeInto(c.Encoding, in, tg)
	if r1.hung {
		// the decoder is still running in its goroutine (and usually allocating): no shrinking, no further cases - the
		// case is saved and the process ends at once
		p := evid.SaveReplay("C02", c02CurrentTest, "hang:"+c.Encoding, r1.err, c)
		fmt.Printf("VERIF-FAIL property=C02 test=%s sig=%s replay=%s: %v\n", c02CurrentTest, "hang:"+c.Encoding, p, r1.err)
		os.Exit(1)
	}
	if r1.panicked {
		return "panic:" + c.Encoding + ":" + errKind(r1.err), r1.err
	}
	if !bytes.Equal(in, pristine) {
		return "input-mutated:" + c.Encoding, fmt.Errorf("decoder modified its input buffer (first difference at byte %d)", firstDiff(in, pristine))
	}
	// determinism: decode the same bytes again
	r2 := decodeInto(c.Encoding, in, tg)
	if r2.hung || r2.panicked {
		return "second-decode-fails:" + c.Encoding, fmt.Errorf("second decode: %v", r2.err)
	}
	if (r1.err == nil) != (r2.err == nil) || (r1.err != nil && r1.err.Error() != r2.err.Error()) {
		return "nondeterministic-error:" + c.Encoding, fmt.Errorf("first decode: %v; second decode: %v", r1.err, r2.err)
	}
	if r1.err == nil {
		if d := gen.Diff(r1.val, r2.val); d != "" {
			return "nondeterministic-value:" + c.Encoding, fmt.Errorf("decoding the same bytes twice gives different values: %s", d)
		}
	}
	if c.Encoding != "binary" {
		return "", nil
	}
	// extent (i): by construction
	if c.MustReject && r1.err == nil && c.Target == "ttlv.Value" {
		return "overrun-accepted", fmt.Errorf("input in which an item overruns its enclosing structure was accepted")
	}
	// extent (iii): canary differential - bytes beyond len (within cap) must not influence the result
	for _, fill := range []byte{0xAA, 0x55} {
		backing := make([]byte, len(data)+64)
		for i := range backing {
			backing[i] = fill
		}
		copy(backing, data)
		r3 := decodeInto(c.Encoding, backing[:len(data)], tg)
		if r3.hung || r3.panicked {
			return "canary-decode-fails", fmt.Errorf("decode with canary backing array: %v", r3.err)
		}
		if (r1.err == nil) != (r3.err == nil) {
			return "reads-beyond-input", fmt.Errorf("result depends on bytes beyond the input slice: %v vs %v", r1.err, r3.err)
		}
		if r1.err == nil {
			if d := gen.Diff(r1.val, r3.val); d != "" {
				return "reads-beyond-input", fmt.Errorf("value depends on bytes beyond the input slice: %s", d)
			}
		}
	}
	// extent (ii): differential with the independent parser in extent mode
	if c.Target == "ttlv.Value" && r1.err == nil {
		ref, perr := ttlvref.Parse(data, ttlvref.Extent)
		if perr != nil {
			// the library documents that decoding stops at the end of the first item only if ... it does not:
			// UnmarshalTTLV decodes one item and ignores what follows; allow trailing bytes after a complete first item.
			if n, lerr := ttlvref.ItemLen(data); lerr == nil && n <= len(data) {
				ref, perr = ttlvref.Parse(data[:n], ttlvref.Extent)
			}
		}
		if perr != nil {
			return "accepts-outside-extent", fmt.Errorf("library accepts an input whose items do not stay inside their declared extents: %v", perr)
		}
		clean := true
		ref.Walk(func(n *ttlvref.Node, _ int) {
			if n.Tag == 0 || n.EndMarker || (n.NonCanonical && n.Type != ttlvref.Structure) {
				clean = false
			}
		})
		if clean {
			got, ok := gen.FromValue(*r1.val.(*ttlv.Value))
			if !ok {
				return "foreign-value", fmt.Errorf("decoded value has unexpected Go types")
			}
			if d := ttlvref.Diff(ref, got); d != "" {
				return "decoded-tree-differs", fmt.Errorf("library decodes a different tree than the independent parser: %s", d)
			}
		}
	}
	return "", nil
}

func firstDiff(a, b []byte) int {
	for i := range a {
		if i >= len(b) || a[i] != b[i] {
			return i
		}
	}
	return -1
}

// headerOffsets lists the offsets of all item headers in a well-formed encoding, with the
// offset of the enclosing structure's header (-1 for the root).
type hdr struct{ off, parent, end int }

func headerOffsets(b []byte) []hdr {
	var out []hdr
	var rec func(start, end, parent int)
	rec = func(start, end, parent int) {
		for start+8 <= end {
			l := int(b[start+4])<<24 | int(b[start+5])<<16 | int(b[start+6])<<8 | int(b[start+7])
			tot := 8 + l + (8-l%8)%8
			if start+tot > end {
				return
			}
			out = append(out, hdr{start, parent, start + tot})
			if b[start+3] == 1 {
				rec(start+8, start+8+l, start)
			}
			start += tot
		}
	}
	rec(0, len(b), -1)
	return out
}

func putLen(b []byte, off int, l uint32) {
	b[off+4], b[off+5], b[off+6], b[off+7] = byte(l>>24), byte(l>>16), byte(l>>8), byte(l)
}
func getLen(b []byte, off int) uint32 {
	return uint32(b[off+4])<<24 | uint32(b[off+5])<<16 | uint32(b[off+6])<<8 | uint32(b[off+7])
}

// mutateBinary applies one structure-aware mutation.
func mutateBinary(rt *rapid.T, valid []byte) (out []byte, desc string, mustReject bool) {
	b := append([]byte{}, valid...)
	hs := headerOffsets(b)
	if len(hs) == 0 {
		return b, "none", false
	}
	h := hs[rapid.IntRange(0, len(hs)-1).Draw(rt, "item")]
	cur := getLen(b, h.off)
	switch m := rapid.IntRange(0, 12).Draw(rt, "mutation"); m {
	case 12: // a well-formed document in which one Integer / Long Integer / Enumeration / Interval carries an extreme value
		// (counts, sizes, indexes and lengths travel as integers: a decoder that uses one as an allocation hint, an index or a
		// loop bound must not trust it); integers named Batch Count first
		var ints, counts []int
		for i, k := range hs {
			if t := b[k.off+3]; (t == 2 || t == 3 || t == 5 || t == 10) && k.off+16 <= len(b) {
				ints = append(ints, i)
				if b[k.off] == 0x42 && b[k.off+1] == 0x00 && b[k.off+2] == 0x0D {
					counts = append(counts, i)
				}
			}
		}
		if len(ints) > 0 {
			pick := ints[rapid.IntRange(0, len(ints)-1).Draw(rt, "intitem")]
			if len(counts) > 0 && rapid.Bool().Draw(rt, "batchcount") {
				pick = counts[0]
			}
			k := hs[pick]
			v := rapid.SampledFrom([]uint32{0xFFFFFFFF, 0x80000000, 0x7FFFFFFF, 0xFFFFFF00, 0x00010000, 0x00000041, 0, 0x40000000}).Draw(rt, "extreme")
			b[k.off+8], b[k.off+9], b[k.off+10], b[k.off+11] = byte(v>>24), byte(v>>16), byte(v>>8), byte(v)
			return b, fmt.Sprintf("integer-extreme=%08X@%d", v, k.off), false
		}
		fallthrough
	case 0: // length off by a little
		d := rapid.SampledFrom([]int64{-8, -7, -1, 1, 7, 8, 9, 16}).Draw(rt, "delta")
		nl := int64(cur) + d
		if nl < 0 {
			nl = 0
		}
		putLen(b, h.off, uint32(nl))
		return b, fmt.Sprintf("len%+d@%d", d, h.off), false
	case 1: // extreme lengths
		nl := rapid.SampledFrom([]uint32{0, 1, 2, 3, 4, 5, 6, 7, 0x7FFFFFFF, 0x80000000, 0xFFFFFFFF, 0xFFFFFFF8, uint32(len(b)), uint32(len(b) - h.off), uint32(len(b) - h.off - 8)}).Draw(rt, "newlen")
		putLen(b, h.off, nl)
		return b, fmt.Sprintf("len=%d@%d", nl, h.off), false
	case 2: // type byte
		nt := rapid.SampledFrom([]byte{0, 1, 2, 3, 4, 5, 6, 7, 8, 9, 10, 11, 0x80, 0xFF}).Draw(rt, "newtype")
		b[h.off+3] = nt
		return b, fmt.Sprintf("type=%d@%d", nt, h.off), false
	case 3: // truncate anywhere
		at := rapid.IntRange(0, len(b)-1).Draw(rt, "truncate")
		return b[:at], fmt.Sprintf("truncate@%d", at), false
	case 4: // truncate inside / right after this header
		at := h.off + rapid.IntRange(0, 9).Draw(rt, "trunchdr")
		if at > len(b) {
			at = len(b)
		}
		return b[:at], fmt.Sprintf("truncate@%d", at), false
	case 5: // child overruns its enclosing structure, everything else well-formed: lengthen a child by
		// 8*k so that it claims bytes that belong to what follows its parent
		var kids []hdr
		for _, k := range hs {
			if k.parent >= 0 {
				// need bytes after the parent's end to claim
				var par hdr
				for _, p := range hs {
					if p.off == k.parent {
						par = p
					}
				}
				if par.end < len(b) && k.end == par.end && b[k.off+3] != 1 {
					kids = append(kids, k)
				}
			}
		}
		if len(kids) == 0 {
			putLen(b, h.off, cur+8)
			return b, fmt.Sprintf("len+8@%d", h.off), false
		}
		k := kids[rapid.IntRange(0, len(kids)-1).Draw(rt, "kid")]
		avail := (len(b) - k.end) / 8
		add := 8 * rapid.IntRange(1, avail).Draw(rt, "claim")
		kl := getLen(b, k.off)
		kl += uint32((8-kl%8)%8) + uint32(add)
		// keep fixed-width types plausible: only lengthen variable-length items
		if t := b[k.off+3]; t == 7 || t == 8 || t == 4 {
			putLen(b, k.off, kl)
			return b, fmt.Sprintf("child-overruns-parent+%d@%d", add, k.off), true
		}
		putLen(b, k.off, kl)
		return b, fmt.Sprintf("fixed-child-overruns-parent+%d@%d", add, k.off), false
	case 6: // zero the tag
		b[h.off], b[h.off+1], b[h.off+2] = 0, 0, 0
		return b, fmt.Sprintf("tag=0@%d", h.off), false
	case 7: // random byte flips
		n := rapid.IntRange(1, 4).Draw(rt, "flips")
		for i := 0; i < n; i++ {
			p := rapid.IntRange(0, len(b)-1).Draw(rt, "pos")
			b[p] ^= byte(rapid.IntRange(1, 255).Draw(rt, "xor"))
		}
		return b, "flips", false
	case 8: // zero-length / short big integer, boolean, etc: retype a leaf and shrink it
		b[h.off+3] = rapid.SampledFrom([]byte{2, 3, 4, 5, 6, 9, 10}).Draw(rt, "leaftype")
		nl := rapid.SampledFrom([]uint32{0, 1, 3, 4, 7, 8, 12, 16}).Draw(rt, "leaflen")
		putLen(b, h.off, nl)
		return b, fmt.Sprintf("leaf type=%d len=%d@%d", b[h.off+3], nl, h.off), false
	case 9: // non-zero padding / negative big integers kept valid (exercise in-place conversions)
		for _, k := range hs {
			if b[k.off+3] == 4 && k.off+8 < len(b) {
				b[k.off+8] |= 0x80
			}
		}
		return b, "bigints-negative", false
	case 10: // parent shorter than its child header
		if b[h.off+3] == 1 {
			putLen(b, h.off, uint32(rapid.IntRange(1, 15).Draw(rt, "shortparent")))
			return b, fmt.Sprintf("parent-short@%d", h.off), false
		}
		fallthrough
	default: // splice: duplicate a region
		at := h.off
		b = append(append(append([]byte{}, b[:at]...), b[at:h.end]...), b[at:]...)
		return b, fmt.Sprintf("dup-item@%d", at), false
	}
}

func validBinary(rt *rapid.T) (data []byte, tg target) {
	switch rapid.IntRange(0, 3).Draw(rt, "source") {
	case 0:
		to := gen.DefaultTreeOpts()
		to.MaxDepth = 4
		return ttlvref.Write(gen.Tree(rt, to)), targets[0]
	case 1:
		m := gen.Request(rt, gen.MsgOpts{})
		tg := targets[1]
		if rapid.IntRange(0, 3).Draw(rt, "asvalue") == 0 {
			tg = targets[0]
		}
		return ttlv.MarshalTTLV(m), tg
	case 2:
		m := gen.Response(rt, gen.MsgOpts{})
		tg := targets[2]
		if rapid.IntRange(0, 3).Draw(rt, "asvalue") == 0 {
			tg = targets[0]
		}
		return ttlv.MarshalTTLV(m), tg
	default:
		e := rapid.SampledFrom(gen.Ops).Draw(rt, "op")
		resp := rapid.Bool().Draw(rt, "resp")
		g := gen.NewG(rt, gen.MsgOpts{})
		p := g.Payload(e, resp)
		enc := ttlv.NewTTLVEncoder()
		tag := tagRequestPayload
		if resp {
			tag = tagResponsePayload
		}
		enc.TagAny(tag, p)
		return append([]byte{}, enc.Bytes()...), targetByName(reflect.TypeOf(p).Elem().Name())
	}
}

func TestC02Binary(t *testing.T) {
	const name = "TestC02Binary"
	rec := evid.New("C02", name, "structure-aware mutation of valid binary encodings (generic trees, requests, responses, single payloads of all 54 payload types): one header field made to disagree with what follows "+
		"(length +-1/+-8/0/1..7/2^31/2^32-1/remaining, type 0/11/255/retyped, truncation at any offset and inside headers, child overrunning its parent, parent shorter than its child, tag 0, short fixed-width leaves, negative big integers, flips, duplicated items); "+
		"targets ttlv.Value / message / payload; non-trivial = input is not the unmodified valid encoding and has at least a complete first header; distinct by (target, bytes)").Attach(t)
	if rp := evid.LoadReplay(name); rp != nil {
		var c c02Case
		if err := json.Unmarshal(rp.Case, &c); err != nil {
			t.Fatal(err)
		}
		if sig, err := c02Run(c); err != nil {
			t.Fatalf("VERIF-FAIL property=C02 test=%s sig=%s replay=: %v", name, sig, err)
		}
		return
	}
	rapid.Check(t, func(rt *rapid.T) {
		valid, tg := validBinary(rt)
		data, desc, must := mutateBinary(rt, valid)
		if rapid.IntRange(0, 4).Draw(rt, "second") == 0 {
			var d2 string
			data, d2, _ = mutateBinary(rt, data)
			desc += "+" + d2
			must = false
		}
		c := c02Case{Encoding: "binary", Target: tg.Name, DataHex: hex.EncodeToString(data), Mutation: desc, MustReject: must}
		nt := len(data) >= 8 && !bytes.Equal(data, valid)
		cls := desc
		if i := bytes.IndexAny([]byte(desc), "@=+-"); i > 0 {
			cls = desc[:i]
		}
		rec.Case(nt, append([]byte(tg.Name+"|"), data...), "mut="+cls, "target="+map[bool]string{true: "payload", false: tg.Name}[tg.Tag != 0])
		if nt && rec.WantSample() && len(data) < 200 {
			rec.Sample(c)
		}
		if sig, err := c02Run(c); err != nil {
			rec.Fail(rt, name, sig, err, c)
		}
	})
}
