package codec

import (
	"encoding/hex"
	"encoding/json"
	"fmt"
	"io"
	"strings"
	"testing"

	"github.com/ovh/kmip-go/ttlv"
	"pgregory.net/rapid"

	"verif/harness/evid"
	"verif/harness/gen"
	"verif/harness/ttlvref"
)

// Several streams live in one process (a server has one per connection). What one stream receives depends on its own
// bytes only - also after another stream has rejected an oversized announcement, and whatever the order in which the
// transports of the streams deliver their chunks.

type c07StreamsCase struct {
	// Streams[i]: the messages written to stream i (hex) and the sizes of the chunks its transport delivers them in
	Streams []c07StreamSpec `json:"streams"`
	// Oversized: that many other streams (limit 4096) were offered a header announcing 1 MiB before, and rejected it
	Oversized int `json:"oversized_announcements_rejected_before"`
	// Order: which stream's transport delivers its next chunk (indices, cycled over the streams that still have bytes)
	Order []int `json:"delivery_order"`
}
type c07StreamSpec struct {
	Msgs []string `json:"messages_hex"`
	Plan []int    `json:"chunk_sizes"`
}

// gatedReader hands out its data chunk by chunk, each chunk only when the scheduler says so.
type gatedReader struct {
	data    []byte
	pos     int
	plan    []int
	pi      int
	grant   chan struct{} // one token per chunk the scheduler allows
	waiting chan struct{} // signalled when Read is about to wait for a token
	left    int
}

func (r *gatedReader) Read(p []byte) (int, error) {
	if r.pos >= len(r.data) {
		return 0, io.EOF
	}
	if len(p) == 0 {
		return 0, nil
	}
	if r.left == 0 {
		r.waiting <- struct{}{}
		<-r.grant
		c := r.plan[r.pi%len(r.plan)]
		r.pi++
		if c <= 0 {
			c = 1
		}
		r.left = c
	}
	n := min(len(p), r.left, len(r.data)-r.pos)
	copy(p, r.data[r.pos:r.pos+n])
	r.pos += n
	r.left -= n
	return n, nil
}
func (r *gatedReader) Write(p []byte) (int, error) { return len(p), nil }
func (r *gatedReader) Close() error                { return nil }

func c07StreamsRun(c c07StreamsCase) (sig string, err error) {
	for i := 0; i < c.Oversized; i++ {
		hdr := []byte{0x42, 0x00, 0x78, 0x01, 0x00, 0x10, 0x00, 0x00, 1, 2, 3, 4, 5, 6, 7, 8}
		st := ttlv.NewStream(&planReader{data: hdr, plan: []int{16}}, 4096)
		var v ttlv.Value
		if rerr := safely(func() error { return st.Recv(&v) }); rerr == nil {
			return "oversize-accepted", fmt.Errorf("a header announcing 1 MiB was accepted with max 4096")
		} else if strings.HasPrefix(rerr.Error(), "panic:") {
			return "recv-panics", rerr
		}
	}
	type result struct {
		sig string
		err error
	}
	n := len(c.Streams)
	readers := make([]*gatedReader, n)
	done := make([]chan result, n)
	for i, sp := range c.Streams {
		var data []byte
		var msgs [][]byte
		for _, h := range sp.Msgs {
			b, derr := hex.DecodeString(h)
			if derr != nil {
				return "harness", derr
			}
			msgs = append(msgs, b)
			data = append(data, b...)
		}
		plan := sp.Plan
		if len(plan) == 0 {
			plan = []int{1 << 30}
		}
		rd := &gatedReader{data: data, plan: plan, grant: make(chan struct{}), waiting: make(chan struct{})}
		readers[i] = rd
		done[i] = make(chan result, 1)
		go func(i int, rd *gatedReader, msgs [][]byte) {
			st := ttlv.NewStream(rd, 1<<20)
			off := 0
			for k, m := range msgs {
				var v ttlv.Value
				rerr := safely(func() error { return st.Recv(&v) })
				if rerr != nil {
					done[i] <- result{"stream-recv-fails", fmt.Errorf("stream %d message %d: %w", i, k, rerr)}
					return
				}
				want, perr := ttlvref.Parse(m, ttlvref.Strict)
				if perr != nil {
					done[i] <- result{"harness", perr}
					return
				}
				got, ok := gen.FromValue(v)
				if !ok {
					done[i] <- result{"foreign-value", fmt.Errorf("stream %d message %d decoded to unexpected Go types", i, k)}
					return
				}
				if d := ttlvref.Diff(want, got); d != "" {
					done[i] <- result{"stream-receives-foreign-bytes", fmt.Errorf("stream %d message %d is not what was written to THIS stream: %s", i, k, d)}
					return
				}
				off += len(m)
				if rd.pos != off {
					done[i] <- result{"consumed-wrong-amount", fmt.Errorf("stream %d: after message %d the receiver consumed %d bytes, the message ends at %d", i, k, rd.pos, off)}
					return
				}
			}
			done[i] <- result{}
		}(i, rd, msgs)
	}
	// the scheduler: one chunk at a time, to the stream the order names
	finished := make([]bool, n)
	isWaiting := make([]bool, n)
	var first result
	live := n
	oi := 0
	for live > 0 {
		// until every live stream is known to wait for a chunk or to be done
		for i := 0; i < n; i++ {
			if finished[i] || isWaiting[i] {
				continue
			}
			select {
			case <-readers[i].waiting:
				isWaiting[i] = true
			case r := <-done[i]:
				finished[i] = true
				live--
				if r.err != nil && first.err == nil {
					first = r
				}
			}
		}
		if live == 0 {
			break
		}
		// the next live stream in the drawn order gets its next chunk
		pick := -1
		for tries := 0; tries < 4*n+len(c.Order)+4 && pick < 0; tries++ {
			cand := 0
			if len(c.Order) > 0 {
				cand = c.Order[oi%len(c.Order)] % n
			}
			oi++
			if !finished[cand] {
				pick = cand
			}
		}
		if pick < 0 {
			for i := range finished {
				if !finished[i] {
					pick = i
				}
			}
		}
		isWaiting[pick] = false
		readers[pick].grant <- struct{}{}
	}
	return first.sig, first.err
}

func TestC07Streams(t *testing.T) {
	const name = "TestC07Streams"
	rec := evid.New("C07", name, "2..4 streams in one process, each with 1..3 messages of its own (distinct fill bytes; 24 B .. 3 KiB, around the 512-byte buffer) delivered in drawn chunk sizes, the chunks of the different streams being delivered one at a time in a drawn order (each stream receives in a goroutine of its own; a scheduler owns the order); "+
		"before that 0..2 other streams reject a header announcing 1 MiB with a limit of 4 KiB; oracle: every stream returns exactly the messages written to it and consumes exactly their bytes; non-trivial = some message is delivered in more than one chunk while another stream receives in between; distinct by case").Attach(t)
	if rp := evid.LoadReplay(name); rp != nil {
		var c c07StreamsCase
		if err := json.Unmarshal(rp.Case, &c); err != nil {
			t.Fatal(err)
		}
		if sig, err := c07StreamsRun(c); err != nil {
			t.Fatalf("VERIF-FAIL property=C07 test=%s sig=%s replay=: %v", name, sig, err)
		}
		return
	}
	rapid.Check(t, func(rt *rapid.T) {
		c := c07StreamsCase{Oversized: rapid.SampledFrom([]int{0, 1, 1, 2}).Draw(rt, "oversized")}
		n := rapid.IntRange(2, 4).Draw(rt, "streams")
		split := false
		for i := 0; i < n; i++ {
			var sp c07StreamSpec
			for k := rapid.IntRange(1, 3).Draw(rt, "nmsg"); k > 0; k-- {
				size := 8 * rapid.SampledFrom([]int{3, 8, 40, 60, 63, 64, 65, 70, 128, 384}).Draw(rt, "size8")
				sp.Msgs = append(sp.Msgs, hex.EncodeToString(sizedMessage(size, byte(0x10*(i+1)+k))))
			}
			switch rapid.IntRange(0, 3).Draw(rt, "planclass") {
			case 0:
				sp.Plan = []int{1 << 30}
			case 1:
				sp.Plan = []int{8, 1 << 30}
				split = true
			default:
				sp.Plan = rapid.SliceOfN(rapid.SampledFrom([]int{1, 7, 8, 9, 100, 500, 512, 513, 1000}), 1, 6).Draw(rt, "plan")
				split = true
			}
			c.Streams = append(c.Streams, sp)
		}
		c.Order = rapid.SliceOfN(rapid.IntRange(0, n-1), 1, 24).Draw(rt, "order")
		key, _ := json.Marshal(c)
		rec.Case(split, key, fmt.Sprintf("oversized=%d", c.Oversized), fmt.Sprintf("streams=%d", n))
		if split && rec.WantSample() && len(key) < 1200 {
			rec.Sample(c)
		}
		if sig, err := c07StreamsRun(c); err != nil {
			rec.Fail(rt, name, sig, err, c)
		}
	})
}
