//go:build race

package codec

const raceEnabled = true
