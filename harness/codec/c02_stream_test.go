package codec

import (
	"encoding/hex"
	"encoding/json"
	"fmt"
	"testing"
	"time"

	kmip "github.com/ovh/kmip-go"
	"github.com/ovh/kmip-go/ttlv"
	"pgregory.net/rapid"

	"verif/harness/evid"
)

type c02StreamCase struct {
	DataHex string `json:"data_hex"`
	Plan    []int  `json:"read_chunk_plan"`
	Target  string `json:"target"` // request | response | value
}

// c02StreamRun: the receive path used by the server and the client (Stream.Recv with the 1 MiB limit) on hostile bytes.
func c02StreamRun(c c02StreamCase) (string, error) {
	data, _ := hex.DecodeString(c.DataHex)
	done := make(chan error, 1)
	go func() {
		done <- safely(func() error {
			rd := &planReader{data: data, plan: c.Plan}
			st := ttlv.NewStream(rd, 1<<20)
			for i := 0; i < 4; i++ { // the loops keep receiving after an error only if it is an encoding error; a few rounds suffice
				var target any
				switch c.Target {
				case "request":
					target = &kmip.RequestMessage{}
				case "response":
					target = &kmip.ResponseMessage{}
				default:
					target = &ttlv.Value{}
				}
				if err := st.Recv(target); err != nil && !ttlv.IsErrEncoding(err) {
					return nil
				}
				if rd.maxReq > 1<<20 {
					return fmt.Errorf("receiver asked for %d bytes at once (limit 1 MiB)", rd.maxReq)
				}
			}
			return nil
		})
	}()
	select {
	case err := <-done:
		if err != nil {
			if len(err.Error()) > 6 && err.Error()[:6] == "panic:" {
				return "stream-recv-panics:" + errKind(err), err
			}
			return "stream-recv-overbuffers", err
		}
		return "", nil
	case <-time.After(hangLimit):
		return "stream-recv-hangs", fmt.Errorf("Recv did not return within %s on a finite input", hangLimit)
	}
}

func TestC02Stream(t *testing.T) {
	const name = "TestC02Stream"
	rec := evid.New("C02", name, "the receive path of server and client (ttlv.Stream.Recv with the 1 MiB limit into RequestMessage / ResponseMessage / ttlv.Value) fed with the structure-aware binary mutants under a drawn read-chunk plan; "+
		"oracle: returns (value or error) without panic or hang and never requests more than the limit; non-trivial = mutated input with at least a complete header; distinct by (target, bytes, plan)").Attach(t)
	if rp := evid.LoadReplay(name); rp != nil {
		var c c02StreamCase
		if err := json.Unmarshal(rp.Case, &c); err != nil {
			t.Fatal(err)
		}
		if sig, err := c02StreamRun(c); err != nil {
			t.Fatalf("VERIF-FAIL property=C02 test=%s sig=%s replay=: %v", name, sig, err)
		}
		return
	}
	rapid.Check(t, func(rt *rapid.T) {
		valid, tg := validBinary(rt)
		data, desc, _ := mutateBinary(rt, valid)
		if rapid.IntRange(0, 3).Draw(rt, "append") == 0 {
			more, _ := validBinary(rt)
			data = append(append([]byte{}, data...), more...)
		}
		c := c02StreamCase{DataHex: hex.EncodeToString(data), Plan: rapid.SliceOfN(rapid.IntRange(1, 600), 1, 6).Draw(rt, "plan")}
		switch tg.Name {
		case "RequestMessage":
			c.Target = "request"
		case "ResponseMessage":
			c.Target = "response"
		default:
			c.Target = "value"
		}
		key, _ := json.Marshal(c)
		rec.Case(len(data) >= 8 && desc != "none", key, "target="+c.Target)
		if rec.WantSample() && len(data) < 200 {
			rec.Sample(c)
		}
		if sig, err := c02StreamRun(c); err != nil {
			rec.Fail(rt, name, sig, err, c)
		}
	})
}
