package codec

import (
	"bytes"
	"fmt"
	"reflect"
	"testing"

	kmip "github.com/ovh/kmip-go"
	"github.com/ovh/kmip-go/payloads"
	"github.com/ovh/kmip-go/ttlv"
	"pgregory.net/rapid"

	"verif/harness/evid"
	"verif/harness/gen"
	"verif/harness/pins"
	"verif/harness/refwalk"
	"verif/harness/ttlvref"
)

func pinNames(tag int) string { return pins.TagNames[tag] }

var encodings = []string{"binary", "xml", "json"}

// refEncode renders a reference tree in the given encoding with the independent writers.
func refEncode(n *ttlvref.Node, enc string) []byte {
	switch enc {
	case "xml":
		return ttlvref.WriteXML(n, pinNames)
	case "json":
		return ttlvref.WriteJSON(n, pinNames)
	}
	return ttlvref.Write(n)
}

func libDecoder(enc string, data []byte) (ttlv.Decoder, error) {
	switch enc {
	case "xml":
		return ttlv.NewXMLDecoder(data)
	case "json":
		return ttlv.NewJSONDecoder(data)
	}
	return ttlv.NewTTLVDecoder(data)
}

func libUnmarshal(enc string, data []byte, ptr any) error {
	switch enc {
	case "xml":
		return ttlv.UnmarshalXML(data, ptr)
	case "json":
		return ttlv.UnmarshalJSON(data, ptr)
	}
	return ttlv.UnmarshalTTLV(data, ptr)
}

func libMarshal(enc string, v any) []byte {
	switch enc {
	case "xml":
		return ttlv.MarshalXML(v)
	case "json":
		return ttlv.MarshalJSON(v)
	}
	return ttlv.MarshalTTLV(v)
}

const (
	tagBatchItem       = 0x42000F
	tagOperation       = 0x42005C
	tagRequestPayload  = 0x420079
	tagResponsePayload = 0x42007C
	tagResultStatus    = 0x42007F
	tagUniqueBatchID   = 0x420093
)

type c06Case struct {
	Op       uint32 `json:"operation"`
	Response bool   `json:"response"`
	Encoding string `json:"encoding"`
	ItemHex  string `json:"batch_item_reference_hex"`
	ItemText string `json:"batch_item_tree"`
	Input    string `json:"input"`
	// HeldVariable: the item was decoded into a request item variable that still held the payload of an earlier item (a
	// Get, Destroy or Create Key Pair request, chosen by the operation code modulo 3)
	HeldVariable bool `json:"decoded_into_a_variable_used_before,omitempty"`
}

// walkAttributes calls f for every kmip.Attribute inside v.
func walkAttributes(v reflect.Value, f func(a kmip.Attribute)) {
	if !v.IsValid() {
		return
	}
	switch v.Kind() {
	case reflect.Pointer, reflect.Interface:
		if !v.IsNil() {
			walkAttributes(v.Elem(), f)
		}
	case reflect.Slice:
		if v.Type().Elem().Kind() != reflect.Uint8 {
			for i := 0; i < v.Len(); i++ {
				walkAttributes(v.Index(i), f)
			}
		}
	case reflect.Struct:
		if a, ok := v.Interface().(kmip.Attribute); ok {
			f(a)
			walkAttributes(reflect.ValueOf(a.AttributeValue), f)
			return
		}
		if _, ok := v.Interface().(ttlv.Value); ok {
			return
		}
		for i := 0; i < v.NumField(); i++ {
			if v.Type().Field(i).IsExported() {
				walkAttributes(v.Field(i), f)
			}
		}
	}
}

// walkObjects calls f for every (ObjectType field, Object field) pair of payloads that carry an object.
func objectOf(p kmip.OperationPayload) (kmip.ObjectType, kmip.Object, bool) {
	v := reflect.ValueOf(p)
	if v.Kind() != reflect.Pointer || v.IsNil() {
		return 0, nil, false
	}
	v = v.Elem()
	if v.Kind() != reflect.Struct {
		return 0, nil, false
	}
	of := v.FieldByName("Object")
	if !of.IsValid() || of.Kind() != reflect.Interface {
		return 0, nil, false
	}
	obj, _ := of.Interface().(kmip.Object)
	var ot kmip.ObjectType
	if tf := v.FieldByName("ObjectType"); tf.IsValid() {
		ot = kmip.ObjectType(tf.Uint())
	} else if obj != nil {
		ot = obj.ObjectType()
	}
	return ot, obj, true
}

// c06Earlier: what a request item variable that is used again and again (a server loop that keeps one item around) may
// still hold when the next item arrives: the payload of an earlier operation.
func c06Earlier(k int) kmip.OperationPayload {
	switch k % 3 {
	case 0:
		return &payloads.GetRequestPayload{UniqueIdentifier: "earlier"}
	case 1:
		return &payloads.DestroyRequestPayload{UniqueIdentifier: "earlier"}
	}
	return &payloads.CreateKeyPairRequestPayload{}
}

func c06Check(tree *ttlvref.Node, code uint32, response bool, enc string, reuse ...bool) (sig string, err error) {
	input := refEncode(tree, enc)
	refBin := ttlvref.Write(tree)
	var payload kmip.OperationPayload
	var reenc []byte
	var decoded any
	derr := safely(func() error {
		dec, err := libDecoder(enc, input)
		if err != nil {
			return err
		}
		e := ttlv.NewTTLVEncoder()
		if response {
			var it kmip.ResponseBatchItem
			if err := dec.TagAny(tagBatchItem, &it); err != nil {
				return err
			}
			payload = it.ResponsePayload
			e.TagAny(tagBatchItem, &it)
			decoded = &it
		} else {
			var fresh kmip.RequestBatchItem
			it := &fresh
			if len(reuse) > 0 && reuse[0] {
				// which payload type an item gets is decided by its operation, not by what the variable held before
				it.RequestPayload = c06Earlier(int(code))
			}
			if err := dec.TagAny(tagBatchItem, it); err != nil {
				return err
			}
			payload = it.RequestPayload
			e.TagAny(tagBatchItem, it)
			decoded = it
		}
		reenc = e.Bytes()
		return nil
	})
	if derr != nil {
		return "decode-fails:" + errKind(derr), fmt.Errorf("batch item does not decode from %s: %w", enc, derr)
	}
	if payload == nil {
		return "no-payload", fmt.Errorf("decoded item has no payload")
	}
	gotType := reflect.TypeOf(payload).Elem().Name()
	want := "UnknownPayload"
	if ot, ok := pins.Ops[code]; ok {
		want = ot.Request
		if response {
			want = ot.Response
		}
	}
	if gotType != want {
		return "wrong-payload-type", fmt.Errorf("operation 0x%08X (response=%v) decodes to %s, pinned %s", code, response, gotType, want)
	}
	if uint32(payload.Operation()) != code {
		return "payload-reports-other-operation", fmt.Errorf("payload %s reports operation 0x%08X, item says 0x%08X", gotType, uint32(payload.Operation()), code)
	}
	// managed objects decode to the type named by the object type
	if ot, obj, ok := objectOf(payload); ok && obj != nil {
		wantObj := pins.Objects[uint32(ot)]
		if got := reflect.TypeOf(obj).Elem().Name(); got != wantObj {
			return "wrong-object-type", fmt.Errorf("object type 0x%08X decodes to %s, pinned %s", uint32(ot), got, wantObj)
		}
		if obj.ObjectType() != ot {
			return "object-reports-other-type", fmt.Errorf("object reports type 0x%X, payload says 0x%X", uint32(obj.ObjectType()), uint32(ot))
		}
	}
	// attributes decode to their specified value type, unknown ones to opaque values
	var aerr error
	walkAttributes(reflect.ValueOf(payload), func(a kmip.Attribute) {
		if aerr != nil || a.AttributeValue == nil {
			return
		}
		got := reflect.TypeOf(a.AttributeValue).String()
		want, std := pins.Attributes[string(a.AttributeName)]
		if !std || a.AttributeName.IsCustom() {
			want = "ttlv.Value"
		}
		if got != want {
			aerr = fmt.Errorf("attribute %q decodes to %s, pinned %s", a.AttributeName, got, want)
		}
	})
	if aerr != nil {
		return "wrong-attribute-type", aerr
	}
	// re-encoding is byte identical with the reference binary form (opaque preservation for unknowns)
	if !bytes.Equal(reenc, refBin) {
		return "reencode-differs", fmt.Errorf("re-encoding differs from the reference binary form:\n got  %x\n want %x", reenc, refBin)
	}
	if want == "UnknownPayload" {
		// opaque content stays opaque through the text forms too: what the library writes for it in XML and JSON it reads
		// back to the same bytes
		// (checked in the text form the item arrived in: its content is known to be expressible there)
		for _, tenc := range []string{"xml", "json"} {
			if tenc != enc {
				continue
			}
			var back []byte
			terr := safely(func() error {
				te := ttlv.NewXMLEncoder()
				if tenc == "json" {
					te = ttlv.NewJSONEncoder()
				}
				te.TagAny(tagBatchItem, decoded)
				doc := append([]byte{}, te.Bytes()...)
				dec, err := libDecoder(tenc, doc)
				if err != nil {
					return fmt.Errorf("%s: %w", doc, err)
				}
				e := ttlv.NewTTLVEncoder()
				if response {
					var it kmip.ResponseBatchItem
					if err := dec.TagAny(tagBatchItem, &it); err != nil {
						return fmt.Errorf("%s: %w", doc, err)
					}
					e.TagAny(tagBatchItem, &it)
				} else {
					var it kmip.RequestBatchItem
					if err := dec.TagAny(tagBatchItem, &it); err != nil {
						return fmt.Errorf("%s: %w", doc, err)
					}
					e.TagAny(tagBatchItem, &it)
				}
				back = e.Bytes()
				return nil
			})
			if terr != nil {
				return "opaque-payload-lost-in-" + tenc, fmt.Errorf("the %s form the library writes for the item of the unknown operation does not decode: %w", tenc, terr)
			}
			if !bytes.Equal(back, refBin) {
				return "opaque-payload-changed-in-" + tenc, fmt.Errorf("through %s the item of the unknown operation becomes\n got  %x\n want %x", tenc, back, refBin)
			}
		}
	}
	return "", nil
}

func itemTree(code uint32, response bool, id []byte, payload *ttlvref.Node) *ttlvref.Node {
	n := &ttlvref.Node{Tag: tagBatchItem, Type: ttlvref.Structure}
	n.Kids = append(n.Kids, &ttlvref.Node{Tag: tagOperation, Type: ttlvref.Enumeration, I: int64(code)})
	if len(id) > 0 {
		n.Kids = append(n.Kids, &ttlvref.Node{Tag: tagUniqueBatchID, Type: ttlvref.ByteString, B: id})
	}
	if response {
		n.Kids = append(n.Kids, &ttlvref.Node{Tag: tagResultStatus, Type: ttlvref.Enumeration, I: 0})
	}
	n.Kids = append(n.Kids, payload)
	return n
}

func TestC06Dispatch(t *testing.T) {
	const name = "TestC06Dispatch"
	rec := evid.New("C06", name, "operation code drawn from {27 implemented, 16 named-only, arbitrary uint32 (boundary-biased)} x {request,response with result status Success/Failed/Pending/Undone} x {binary,XML,JSON}; payload tree from the reference encoder "+
		"(implemented operations, incl. all 9 object types and standard/custom/unknown attributes) or a generic tree (others), rendered by the independent writers; "+
		"non-trivial = unknown operation with a nested structure, or an implemented operation decoded from XML/JSON, or a payload carrying an object or attribute; distinct by input bytes").Attach(t)
	rapid.Check(t, func(rt *rapid.T) {
		enc := rapid.SampledFrom(encodings).Draw(rt, "encoding")
		response := rapid.Bool().Draw(rt, "response")
		alphabet := map[string]string{"binary": "utf8", "xml": "xml", "json": "json"}[enc]
		var labels []string
		o := gen.MsgOpts{Alphabet: alphabet, TextSafe: true, Labels: func(l ...string) { labels = append(labels, l...) }}
		ptag := tagRequestPayload
		if response {
			ptag = tagResponsePayload
		}
		var code uint32
		var ptree *ttlvref.Node
		nt := false
		switch cls := rapid.IntRange(0, 9).Draw(rt, "opclass"); {
		case cls <= 5:
			e := rapid.SampledFrom(gen.Ops).Draw(rt, "op")
			code = uint32(e.Op)
			g := gen.NewG(rt, o)
			p := g.Payload(e, response)
			w := &refwalk.Walker{}
			ns, err := w.Emit(ptag, reflect.ValueOf(p))
			if err != nil || len(ns) != 1 {
				rt.Fatalf("harness: refwalk: %v", err)
			}
			ptree = ns[0]
			if enc != "binary" {
				nt = true
			}
			ptree.Walk(func(n *ttlvref.Node, _ int) {
				if n.Tag == 0x420008 || n.Tag == 0x420040 {
					nt = true
				}
			})
			labels = append(labels, "implemented")
		default:
			if cls <= 7 {
				code = uint32(rapid.SampledFrom(gen.UnimplementedOps).Draw(rt, "op"))
				labels = append(labels, "named-unimplemented")
			} else {
				code = rapid.SampledFrom([]uint32{0, 0x2C, 0x2D, 0x7FFFFFFF, 0x80000000, 0x80000001, 0xFFFFFFFF, 0x100, 0xFFFF}).Draw(rt, "opb")
				if rapid.Bool().Draw(rt, "anyop") {
					code = rapid.Uint32().Draw(rt, "op")
				}
				if _, impl := pins.Ops[code]; impl || code>>24 == 0x8C {
					// 0x8Cxxxxxx is reserved for the run-time registration test of this package
					code = 0x2C
				}
				labels = append(labels, "arbitrary-code")
			}
			to := gen.DefaultTreeOpts()
			to.Alphabet, to.TextSafe, to.MaxDepth, to.MaxFanout = alphabet, true, 3, 4
			ptree = gen.Tree(rt, to)
			ptree.Tag, ptree.Type = ptag, ttlvref.Structure
			if ptree.Big != nil || ptree.B != nil {
				ptree.Big, ptree.B, ptree.I = nil, nil, 0
			}
			if rapid.IntRange(0, 3).Draw(rt, "standard-tags") == 0 {
				// opaque content may well use standard tags (a vendor operation that carries a usage mask): Integer items under
				// the two mask tags, as numbers
				ptree.Walk(func(n *ttlvref.Node, d int) {
					if d >= 1 && n.Type == ttlvref.Integer {
						n.Tag = []int{0x42002C, 0x42008E}[int(n.I&1)]
					}
				})
				labels = append(labels, "mask-tags-in-opaque-content")
			}
			ptree.Walk(func(n *ttlvref.Node, d int) {
				if d >= 1 && n.Type == ttlvref.Structure {
					nt = true
				}
			})
		}
		if code == 0 && response {
			// a response item with operation 0 carries no payload by definition of the item; outside the domain
			code = 0x2C
		}
		var id []byte
		if rapid.Bool().Draw(rt, "hasid") {
			id = []byte{1, 2, 3}
		}
		tree := itemTree(code, response, id, ptree)
		if response {
			// the payload type follows the operation whatever the result status of the item is
			status := rapid.SampledFrom([]int64{0, 0, 0, 1, 2, 3}).Draw(rt, "status")
			var kids []*ttlvref.Node
			for _, k := range tree.Kids {
				kids = append(kids, k)
				if k.Tag == tagResultStatus {
					k.I = status
					if status == 1 {
						// a failed item carries a Result Reason (required by the specification)
						kids = append(kids, &ttlvref.Node{Tag: 0x42007E, Type: ttlvref.Enumeration, I: int64(rapid.IntRange(1, 0x13).Draw(rt, "reason"))})
					}
				}
			}
			tree.Kids = kids
			labels = append(labels, fmt.Sprintf("result-status=%d", status))
		}
		input := refEncode(tree, enc)
		labels = append(labels, "enc="+enc)
		rec.Case(nt, input, labels...)
		c := c06Case{Op: code, Response: response, Encoding: enc, ItemHex: fmt.Sprintf("%x", ttlvref.Write(tree)), ItemText: tree.String()}
		if enc != "binary" {
			c.Input = string(input)
		}
		if nt && rec.WantSample() && tree.Count() < 40 {
			rec.Sample(c)
		}
		reuse := !response && rapid.Bool().Draw(rt, "held-item-variable")
		if reuse {
			c.HeldVariable = true
		}
		if sig, err := c06Check(tree, code, response, enc, reuse); err != nil {
			rec.Fail(rt, name, sig, err, c)
		}
	})
}

// TestC06UnknownObjectType: an unknown object type yields an error, never a value.
func TestC06UnknownObjectType(t *testing.T) {
	const name = "TestC06UnknownObjectType"
	rec := evid.New("C06", name, "Get/Export response, Register/Import request whose object type code is not one of the 9 registered ones (named-but-unsupported, arbitrary), followed by an arbitrary structure or by a well-formed object of one of the 9 registered types under its own tag, in all three encodings; "+
		"non-trivial = every case (distinct by input)").Attach(t)
	rapid.Check(t, func(rt *rapid.T) {
		enc := rapid.SampledFrom(encodings).Draw(rt, "encoding")
		ot := rapid.SampledFrom([]uint32{0, 10, 11, 0x7FFFFFFF, 0x80000000, 0x80000001, 0xFFFFFFFF}).Draw(rt, "objtypeb")
		if rapid.Bool().Draw(rt, "anyot") {
			ot = rapid.Uint32().Draw(rt, "objtype")
		}
		if _, reg := pins.Objects[ot]; reg || ot>>24 == 0x8C {
			// 0x8Cxxxxxx is reserved for the run-time registration test of this package
			ot = 0x80000001
		}
		to := gen.DefaultTreeOpts()
		to.TextSafe, to.MaxDepth, to.MaxFanout = true, 2, 3
		to.Alphabet = "ascii"
		obj := gen.Tree(rt, to)
		obj.Type, obj.Big, obj.B, obj.I = ttlvref.Structure, nil, nil, 0
		obj.Tag = rapid.SampledFrom([]int{0x42008F, 0x420064, 0x420085, 0x420013, 0x42006D, 0x42005F, 0x420090, 0x420089, 0x420079}).Draw(rt, "objtag")
		wellFormedBody := rapid.Bool().Draw(rt, "wellformedbody")
		if wellFormedBody {
			// the body is a well-formed object of one of the registered types (under its own tag): what a peer sends
			// when it hands out, say, an Opaque Object under an object type code this build does not know
			mo := gen.MsgOpts{TextSafe: true, Alphabet: "ascii", MaxItems: 1, ForceVersion: &kmip.V1_4}
			o := gen.NewG(rt, mo).Object()
			ns, err := (&refwalk.Walker{}).Emit(pins.Tags[reflect.TypeOf(o).Elem().Name()], reflect.ValueOf(o))
			if err != nil || len(ns) != 1 {
				rt.Fatalf("harness: refwalk: %v", err)
			}
			obj = ns[0]
		}
		kind := rapid.IntRange(0, 3).Draw(rt, "kind")
		var code uint32
		var response bool
		var p *ttlvref.Node
		uid := &ttlvref.Node{Tag: 0x420094, Type: ttlvref.TextString, B: []byte("id-1")}
		otn := &ttlvref.Node{Tag: 0x420057, Type: ttlvref.Enumeration, I: int64(ot)}
		switch kind {
		case 0: // Get response
			code, response = 0x0A, true
			p = &ttlvref.Node{Tag: tagResponsePayload, Type: ttlvref.Structure, Kids: []*ttlvref.Node{otn, uid, obj}}
		case 1: // Export response
			code, response = 0x2B, true
			p = &ttlvref.Node{Tag: tagResponsePayload, Type: ttlvref.Structure, Kids: []*ttlvref.Node{otn, uid, obj}}
		case 2: // Register request
			code, response = 0x03, false
			ta := &ttlvref.Node{Tag: 0x420091, Type: ttlvref.Structure}
			p = &ttlvref.Node{Tag: tagRequestPayload, Type: ttlvref.Structure, Kids: []*ttlvref.Node{otn, ta, obj}}
		default: // Import request: object type attribute
			code, response = 0x2A, false
			attr := &ttlvref.Node{Tag: 0x420008, Type: ttlvref.Structure, Kids: []*ttlvref.Node{
				{Tag: 0x42000A, Type: ttlvref.TextString, B: []byte("Object Type")},
				{Tag: 0x42000B, Type: ttlvref.Enumeration, I: int64(ot)}}}
			p = &ttlvref.Node{Tag: tagRequestPayload, Type: ttlvref.Structure, Kids: []*ttlvref.Node{uid, attr, obj}}
		}
		tree := itemTree(code, response, nil, p)
		input := refEncode(tree, enc)
		rec.Case(true, input, "enc="+enc, fmt.Sprintf("kind=%d", kind), fmt.Sprintf("wellformedbody=%v", wellFormedBody))
		c := c06Case{Op: code, Response: response, Encoding: enc, ItemHex: fmt.Sprintf("%x", ttlvref.Write(tree)), ItemText: tree.String()}
		if rec.WantSample() {
			rec.Sample(c)
		}
		var payload kmip.OperationPayload
		derr := safely(func() error {
			dec, err := libDecoder(enc, input)
			if err != nil {
				return err
			}
			if response {
				var it kmip.ResponseBatchItem
				err = dec.TagAny(tagBatchItem, &it)
				payload = it.ResponsePayload
				return err
			}
			var it kmip.RequestBatchItem
			err = dec.TagAny(tagBatchItem, &it)
			payload = it.RequestPayload
			return err
		})
		if derr == nil {
			_, o, _ := objectOf(payload)
			rec.Fail(rt, name, "unknown-object-type-accepted", fmt.Errorf("object type 0x%08X decoded without error to object %T", ot, o), c)
		} else if bytes.HasPrefix([]byte(derr.Error()), []byte("panic:")) {
			rec.Fail(rt, name, "unknown-object-type-panics", derr, c)
		}
	})
}
