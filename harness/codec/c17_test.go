package codec

import (
	"encoding"
	"fmt"
	"reflect"
	"sort"
	"strings"
	"testing"

	kmip "github.com/ovh/kmip-go"
	"github.com/ovh/kmip-go/ttlv"
	"pgregory.net/rapid"

	"verif/harness/evid"
	"verif/harness/gen"
	"verif/harness/pins"
)

// enumGoTypes collects the named uint32 / int32 Go types reachable from the message types.
func enumGoTypes() (enums []reflect.Type, masks []reflect.Type) {
	seen := map[reflect.Type]bool{}
	var walk func(t reflect.Type)
	walk = func(t reflect.Type) {
		for t.Kind() == reflect.Pointer || t.Kind() == reflect.Slice {
			t = t.Elem()
		}
		if seen[t] {
			return
		}
		seen[t] = true
		switch t.Kind() {
		case reflect.Uint32:
			if t.PkgPath() != "" {
				enums = append(enums, t)
			}
		case reflect.Int32:
			if t.PkgPath() != "" {
				masks = append(masks, t)
			}
		case reflect.Struct:
			for i := 0; i < t.NumField(); i++ {
				if t.Field(i).IsExported() {
					walk(t.Field(i).Type)
				}
			}
		}
	}
	walk(reflect.TypeFor[kmip.RequestMessage]())
	walk(reflect.TypeFor[kmip.ResponseMessage]())
	for _, e := range gen.Ops {
		walk(reflect.TypeOf(e.Req()))
		walk(reflect.TypeOf(e.Resp()))
	}
	for _, o := range gen.Objects {
		walk(reflect.TypeOf(o.New()))
	}
	for _, n := range gen.StdAttrNames {
		at, _ := gen.AttrGoType(n)
		walk(at)
	}
	walk(reflect.TypeFor[kmip.KeyMaterial]())
	walk(reflect.TypeFor[kmip.PlainKeyValue]())
	walk(reflect.TypeFor[kmip.CredentialValue]())
	sort.Slice(enums, func(i, j int) bool { return enums[i].Name() < enums[j].Name() })
	sort.Slice(masks, func(i, j int) bool { return masks[i].Name() < masks[j].Name() })
	return
}

// checkSep renders a mask value with the caller's separator and reads the rendering back flag by flag.
func checkSep[T ~int32](tag int, v T, sep string) error {
	txt := ttlv.BitmaskStr(v, sep)
	var got int32
	if txt != "" {
		for _, part := range strings.Split(txt, sep) {
			if bit, err := ttlv.BitmaskByStr(tag, part); err == nil {
				got |= bit
			} else if strings.HasPrefix(part, "0x") {
				var x uint32
				fmt.Sscanf(part, "0x%X", &x)
				got |= int32(x)
			} else {
				return fmt.Errorf("BitmaskStr(0x%X, %q) = %q: %q is no flag name of mask 0x%06X", int32(v), sep, txt, part, tag)
			}
		}
	}
	if got != int32(v) {
		return fmt.Errorf("BitmaskStr(0x%X, %q) = %q, which reads back as 0x%X", int32(v), sep, txt, got)
	}
	return nil
}

type regFail struct {
	Sig string `json:"sig"`
	Msg string `json:"msg"`
}

func TestC17Registry(t *testing.T) {
	const name = "TestC17Registry"
	rec := evid.New("C17", name, "exhaustive enumeration of the registry: every 24-bit tag number, every pinned enumeration value and mask flag (and the live tables in the other direction), "+
		"typed MarshalText/UnmarshalText of every enumeration Go type reachable from the message types, single-item XML/JSON/text round trips (each generic enumeration value also written under three foreign tags: Attribute Value, a vendor tag, the next enumeration); "+
		"plus rapid-drawn unregistered numbers and names; non-trivial = a registered entry (distinct by scope+number)").Attach(t)
	rec.Exhaustive(true)
	var fails []regFail
	fail := func(sig, format string, args ...any) {
		if len(fails) < 20 {
			fails = append(fails, regFail{sig, fmt.Sprintf(format, args...)})
		}
	}
	// ---- tags: every number
	for tag := 0; tag <= 0xFFFFFF; tag++ {
		got := ttlv.TagString(tag)
		want, ok := pins.TagNames[tag]
		if !ok {
			want = fmt.Sprintf("0x%06X", tag)
		}
		if got != want {
			fail("tag-name", "tag 0x%06X is named %q, pinned %q", tag, got, want)
		}
		rec.Case(ok, []byte(fmt.Sprintf("tag:%06X", tag)))
	}
	names := make([]string, 0, len(pins.Tags))
	for n := range pins.Tags {
		names = append(names, n)
	}
	sort.Strings(names)
	for _, n := range names {
		tag := pins.Tags[n]
		// name -> number through XML and JSON: write by name, read back the same number
		v := ttlv.Value{Tag: tag, Value: int32(7)}
		for encName, codec := range map[string]struct {
			m func(any) []byte
			u func([]byte, any) error
		}{"xml": {ttlv.MarshalXML, ttlv.UnmarshalXML}, "json": {ttlv.MarshalJSON, ttlv.UnmarshalJSON}} {
			var out []byte
			var back ttlv.Value
			err := safely(func() error { out = codec.m(v); return codec.u(out, &back) })
			if err != nil {
				fail("tag-roundtrip-"+encName, "tag %s: %v", n, err)
				continue
			}
			if !strings.Contains(string(out), n) {
				fail("tag-not-written-by-name-"+encName, "tag %s not written by name in %s: %s", n, encName, out)
			}
			if back.Tag != tag {
				fail("tag-roundtrip-"+encName, "tag %s (0x%06X) reads back as 0x%06X", n, tag, back.Tag)
			}
			rec.Eval(1)
		}
		if txt := string(ttlv.MarshalText(v)); !strings.HasPrefix(txt, n+" (") {
			fail("tag-text", "text form of %s is %q", n, txt)
		}
	}
	if len(fails) == 0 && len(pins.Tags) != 292 {
		fail("pins", "pinned tag table has %d entries", len(pins.Tags))
	}
	// ---- enumerations
	tags := make([]int, 0, len(pins.TagNames))
	for tag := range pins.TagNames {
		tags = append(tags, tag)
	}
	sort.Ints(tags)
	enumEntries := 0
	for _, tag := range tags {
		live := map[uint32]string{}
		for v, n := range ttlv.EnumValuesByTag(tag) {
			live[v] = n
		}
		pinned := pins.Enums[tag]
		if len(live) != len(pinned) {
			fail("enum-set", "enumeration %s has %d live values, %d pinned", pins.TagNames[tag], len(live), len(pinned))
		}
		seenNames := map[string]uint32{}
		for v, n := range live {
			if pn, ok := pinned[v]; !ok || pn != n {
				fail("enum-name", "enumeration %s value 0x%08X is named %q, pinned %q", pins.TagNames[tag], v, n, pn)
			}
			if prev, dup := seenNames[n]; dup {
				fail("enum-duplicate-name", "enumeration %s: name %q denotes both 0x%08X and 0x%08X", pins.TagNames[tag], n, prev, v)
			}
			seenNames[n] = v
		}
		for v, n := range pinned {
			enumEntries++
			rec.Case(true, []byte(fmt.Sprintf("enum:%06X:%08X", tag, v)))
			if got := ttlv.EnumName(tag, v); got != n {
				fail("enum-name", "EnumName(%s, 0x%08X) = %q, pinned %q", pins.TagNames[tag], v, got, n)
			}
			if got, err := ttlv.EnumByName(tag, n); err != nil || got != v {
				fail("enum-by-name", "EnumByName(%s, %q) = 0x%08X, %v; pinned 0x%08X", pins.TagNames[tag], n, got, err, v)
			}
			// generic single-item round trips: what is written by name reads back as the same number
			gv := ttlv.Value{Tag: tag, Value: ttlv.Enum(v)}
			for encName, codec := range map[string]struct {
				m func(any) []byte
				u func([]byte, any) error
			}{"xml": {ttlv.MarshalXML, ttlv.UnmarshalXML}, "json": {ttlv.MarshalJSON, ttlv.UnmarshalJSON}} {
				var out []byte
				var back ttlv.Value
				if err := safely(func() error { out = codec.m(gv); return codec.u(out, &back) }); err != nil {
					fail("enum-roundtrip-"+encName, "%s=%s: %v", pins.TagNames[tag], n, err)
					continue
				}
				if !strings.Contains(string(out), `"`+n+`"`) {
					fail("enum-not-written-by-name-"+encName, "%s=%s written as %s", pins.TagNames[tag], n, out)
				}
				if e, ok := back.Value.(ttlv.Enum); !ok || uint32(e) != v {
					fail("enum-roundtrip-"+encName, "%s=%s (0x%08X) reads back as %#v", pins.TagNames[tag], n, v, back.Value)
				}
				rec.Eval(1)
			}
			if txt := string(ttlv.MarshalText(gv)); !strings.HasSuffix(txt, ": "+n) {
				fail("enum-text", "text form of %s=%s is %q", pins.TagNames[tag], n, txt)
			}
			// the same generic value written under ANOTHER tag (as an attribute value, under a vendor tag, under the next
			// enumeration's tag): whatever name or number the writer chooses there, the reader must give back the number
			for _, under := range []int{0x42000B, 0x540001, tags[(sort.SearchInts(tags, tag)+1)%len(tags)]} {
				for _, encName := range []string{"xml", "json"} {
					var out []byte
					var back ttlv.Value
					err := safely(func() error {
						e := ttlv.NewXMLEncoder()
						if encName == "json" {
							e = ttlv.NewJSONEncoder()
						}
						e.TagAny(under, gv)
						out = append([]byte{}, e.Bytes()...)
						d, err := libDecoder(encName, out)
						if err != nil {
							return err
						}
						return d.TagAny(under, &back)
					})
					if err != nil {
						fail("enum-under-foreign-tag-"+encName, "%s=%s written under tag 0x%06X as %s, read back with: %v", pins.TagNames[tag], n, under, out, err)
						continue
					}
					if ev, ok := back.Value.(ttlv.Enum); !ok || uint32(ev) != v {
						fail("enum-under-foreign-tag-"+encName, "%s=%s (0x%08X) written under tag 0x%06X as %s reads back as %#v", pins.TagNames[tag], n, v, under, out, back.Value)
					}
					rec.Eval(1)
				}
			}
		}
	}
	// ---- typed enums: MarshalText / UnmarshalText / EnumStr
	ets, mts := enumGoTypes()
	typed := 0
	for _, et := range ets {
		tag, ok := pins.Tags[et.Name()]
		if !ok {
			continue
		}
		vals := pins.Enums[tag]
		keys := make([]uint32, 0, len(vals)+2)
		for v := range vals {
			keys = append(keys, v)
		}
		keys = append(keys, 0x8000ABCD, 0xFFFFFFF0) // unregistered
		for _, v := range keys {
			pv := reflect.New(et)
			pv.Elem().SetUint(uint64(v))
			tm, ok := pv.Elem().Interface().(encoding.TextMarshaler)
			if !ok {
				continue
			}
			typed++
			txt, err := tm.MarshalText()
			want, named := vals[v]
			if !named {
				want = fmt.Sprintf("0x%08X", v)
			}
			if err != nil || string(txt) != want {
				fail("typed-marshaltext", "%s(0x%08X).MarshalText() = %q, %v; want %q", et.Name(), v, txt, err, want)
			}
			back := reflect.New(et)
			tu, ok := back.Interface().(encoding.TextUnmarshaler)
			if !ok {
				fail("typed-no-unmarshaltext", "%s has MarshalText but no UnmarshalText", et.Name())
				continue
			}
			if err := tu.UnmarshalText(txt); err != nil || uint32(back.Elem().Uint()) != v {
				fail("typed-unmarshaltext", "%s.UnmarshalText(%q) = 0x%08X, %v; want 0x%08X", et.Name(), txt, back.Elem().Uint(), err, v)
			}
			// the destination may hold an earlier value (a reused variable): what is read is the number written, nothing else
			back.Elem().SetUint(0x7F7F7F7F)
			if err := back.Interface().(encoding.TextUnmarshaler).UnmarshalText(txt); err != nil || uint32(back.Elem().Uint()) != v {
				fail("typed-unmarshaltext-reused-destination", "%s.UnmarshalText(%q) into a reused variable = 0x%08X, %v; want 0x%08X", et.Name(), txt, back.Elem().Uint(), err, v)
			}
			rec.Eval(1)
		}
	}
	// ---- masks
	maskEntries := 0
	for tag, flags := range pins.Masks {
		for i := 0; i < 32; i++ {
			bit := int32(uint32(1) << uint(i))
			got := string(ttlv.AppendBitmaskString(nil, tag, bit, "|"))
			want := fmt.Sprintf("0x%08X", uint32(bit))
			if i < len(flags) && flags[i] != "" {
				want = flags[i]
				maskEntries++
				rec.Case(true, []byte(fmt.Sprintf("mask:%06X:%d", tag, i)))
				if v, err := ttlv.BitmaskByStr(tag, flags[i]); err != nil || v != bit {
					fail("mask-by-name", "BitmaskByStr(%s, %q) = 0x%X, %v; pinned bit %d", pins.TagNames[tag], flags[i], v, err, i)
				}
			}
			if got != want {
				fail("mask-name", "mask %s bit %d is written %q, pinned %q", pins.TagNames[tag], i, got, want)
			}
		}
		// duplicate flag names
		seen := map[string]int{}
		for i, f := range flags {
			if j, dup := seen[f]; dup && f != "" {
				fail("mask-duplicate-name", "mask %s: %q denotes bits %d and %d", pins.TagNames[tag], f, j, i)
			}
			seen[f] = i
		}
	}
	// typed mask round trips by name through XML/JSON (every flag alone and all named flags together)
	for _, mt := range mts {
		tag, ok := pins.Tags[mt.Name()]
		flags, isMask := pins.Masks[tag]
		if !ok || !isMask {
			continue
		}
		all := int32(0)
		vals := []int32{}
		for i := range flags {
			vals = append(vals, int32(1)<<uint(i))
			all |= int32(1) << uint(i)
		}
		vals = append(vals, all)
		for _, v := range vals {
			for encName, codec := range map[string]struct {
				m func(any) []byte
				u func([]byte, any) error
			}{"xml": {ttlv.MarshalXML, ttlv.UnmarshalXML}, "json": {ttlv.MarshalJSON, ttlv.UnmarshalJSON}} {
				pv := reflect.New(mt)
				pv.Elem().SetInt(int64(v))
				back := reflect.New(mt)
				var out []byte
				if err := safely(func() error { out = codec.m(pv.Elem().Interface()); return codec.u(out, back.Interface()) }); err != nil {
					fail("mask-roundtrip-"+encName, "%s=0x%X: %v (%s)", mt.Name(), v, err, out)
					continue
				}
				if int32(back.Elem().Int()) != v {
					fail("mask-roundtrip-"+encName, "%s=0x%X reads back as 0x%X (%s)", mt.Name(), v, back.Elem().Int(), out)
				}
				rec.Eval(1)
			}
		}
	}
	// BitmaskStr with separators of the caller's choosing, before and after the text forms below are produced: every
	// rendering must consist of the flags' own names joined by exactly that separator (whatever was rendered before)
	sepCheck := func(when string) {
		for _, sep := range []string{", ", "+", " | ", ";"} {
			for _, v := range []int32{0, 1, 5, 0xC, 0x000FFFFF, 0x7} {
				if err := checkSep(pins.Tags["CryptographicUsageMask"], kmip.CryptographicUsageMask(v), sep); err != nil {
					fail("mask-separator", "%s: %v", when, err)
				}
				if err := checkSep(pins.Tags["StorageStatusMask"], kmip.StorageStatusMask(v&3), sep); err != nil {
					fail("mask-separator", "%s: %v", when, err)
				}
				rec.Eval(2)
			}
		}
	}
	sepCheck("before the text forms")
	// typed masks: text form (MarshalText / UnmarshalText) of every flag, of all flags, of none, into fresh and reused destinations
	for _, mt := range mts {
		tag, ok := pins.Tags[mt.Name()]
		flags, isMask := pins.Masks[tag]
		if !ok || !isMask {
			continue
		}
		all := int32(0)
		vals := []int32{0}
		for i := range flags {
			vals = append(vals, int32(1)<<uint(i))
			all |= int32(1) << uint(i)
		}
		vals = append(vals, all, 5, 0x00100000)
		for _, v := range vals {
			pv := reflect.New(mt)
			pv.Elem().SetInt(int64(v))
			tm, ok := pv.Elem().Interface().(encoding.TextMarshaler)
			if !ok {
				continue
			}
			txt, err := tm.MarshalText()
			if err != nil {
				fail("mask-marshaltext", "%s(0x%X).MarshalText: %v", mt.Name(), v, err)
				continue
			}
			for _, preload := range []int64{0, 0x3, int64(all)} {
				back := reflect.New(mt)
				back.Elem().SetInt(preload)
				tu, ok := back.Interface().(encoding.TextUnmarshaler)
				if !ok {
					break
				}
				if err := safely(func() error { return tu.UnmarshalText(txt) }); err != nil {
					fail("mask-unmarshaltext", "%s.UnmarshalText(%q): %v", mt.Name(), txt, err)
					continue
				}
				if int32(back.Elem().Int()) != v {
					fail("mask-text-roundtrip", "%s: %q was written for 0x%X but reads back as 0x%X (destination held 0x%X before)", mt.Name(), txt, v, back.Elem().Int(), preload)
				}
				rec.Eval(1)
			}
		}
	}
	sepCheck("after the text forms")
	rec.Set("tags_registered", len(pins.Tags))
	rec.Set("enum_entries", enumEntries)
	rec.Set("mask_flags", maskEntries)
	rec.Set("typed_enum_text_roundtrips", typed)
	rec.Set("enum_go_types", len(ets))
	rec.Sample(map[string]any{"tag": "CryptographicAlgorithm", "number": fmt.Sprintf("0x%06X", pins.Tags["CryptographicAlgorithm"]), "enum_values": len(pins.Enums[pins.Tags["CryptographicAlgorithm"]])})
	rec.Sample(map[string]any{"mask": "CryptographicUsageMask", "flags": pins.Masks[pins.Tags["CryptographicUsageMask"]]})
	if len(fails) > 0 {
		rec.Fail(t, name, fails[0].Sig, fmt.Errorf("%s (and %d more)", fails[0].Msg, len(fails)-1), fails)
	}
}

// TestC17Unregistered: rapid-drawn unregistered numbers and names.
func TestC17Unregistered(t *testing.T) {
	const name = "TestC17Unregistered"
	rec := evid.New("C17", name, "rapid: unregistered enumeration numbers for a drawn enumeration tag are written in hex and read back; unregistered names are rejected; "+
		"non-trivial = number not in the pinned table (distinct by tag+number)").Attach(t)
	tags := make([]int, 0, len(pins.Enums))
	for tag := range pins.Enums {
		tags = append(tags, tag)
	}
	sort.Ints(tags)
	rapid.Check(t, func(rt *rapid.T) {
		tag := rapid.SampledFrom(tags).Draw(rt, "tag")
		v := rapid.Uint32().Draw(rt, "value")
		_, registered := pins.Enums[tag][v]
		rec.Case(!registered, []byte(fmt.Sprintf("%06X:%08X", tag, v)))
		gv := ttlv.Value{Tag: tag, Value: ttlv.Enum(v)}
		for encName, codec := range map[string]struct {
			m func(any) []byte
			u func([]byte, any) error
		}{"xml": {ttlv.MarshalXML, ttlv.UnmarshalXML}, "json": {ttlv.MarshalJSON, ttlv.UnmarshalJSON}} {
			var out []byte
			var back ttlv.Value
			if err := safely(func() error { out = codec.m(gv); return codec.u(out, &back) }); err != nil {
				rec.Fail(rt, name, "unregistered-roundtrip-"+encName, err, map[string]any{"tag": tag, "value": v})
				return
			}
			if !registered && !strings.Contains(string(out), fmt.Sprintf("0x%08X", v)) {
				rec.Fail(rt, name, "unregistered-not-hex-"+encName, fmt.Errorf("unregistered value written as %s", out), map[string]any{"tag": tag, "value": v})
				return
			}
			if e, ok := back.Value.(ttlv.Enum); !ok || uint32(e) != v {
				rec.Fail(rt, name, "unregistered-roundtrip-"+encName, fmt.Errorf("0x%08X reads back as %#v", v, back.Value), map[string]any{"tag": tag, "value": v})
				return
			}
		}
		// an unregistered name must not resolve
		nm := "Zz" + rapid.StringMatching(`[A-Za-z]{1,12}`).Draw(rt, "name")
		if _, known := pins.EnumByName[tag][nm]; !known {
			if got, err := ttlv.EnumByName(tag, nm); err == nil {
				rec.Fail(rt, name, "unregistered-name-resolves", fmt.Errorf("name %q resolves to 0x%08X", nm, got), map[string]any{"tag": tag, "name": nm})
			}
		}
	})
}
