package codec

import (
	"bytes"
	"encoding/json"
	"fmt"
	"os"
	"path/filepath"
	"regexp"
	"sort"
	"strconv"
	"strings"
	"sync"
	"testing"
	"time"
	"unicode/utf8"

	kmip "github.com/ovh/kmip-go"
	"github.com/ovh/kmip-go/ttlv"
	"pgregory.net/rapid"

	"verif/harness/evid"
	"verif/harness/gen"
	"verif/harness/pins"
	"verif/harness/refwalk"
	"verif/harness/ttlvref"
)

var pinResolver = ttlvref.Resolver{
	TagByName:  func(n string) (int, bool) { t, ok := pins.Tags[n]; return t, ok },
	EnumByName: pins.EnumValue,
	MaskFlag:   pins.MaskFlag,
}

// parseText parses an XML/JSON document with the independent parsers.
func parseText(enc string, doc []byte) (*ttlvref.Node, error) {
	if enc == "json" {
		e, err := ttlvref.ParseJSONElem(doc)
		if err != nil {
			return nil, err
		}
		return pinResolver.ToNode(e, true)
	}
	roots, err := ttlvref.ParseXMLElems(doc)
	if err != nil {
		return nil, err
	}
	if len(roots) != 1 {
		return nil, fmt.Errorf("%d root elements", len(roots))
	}
	return pinResolver.ToNode(roots[0], false)
}

func needsEscape(enc string, s []byte) bool {
	for _, r := range string(s) {
		if enc == "xml" && (r == '<' || r == '>' || r == '&' || r == '"' || r == '\'' || r == '\t' || r == '\n' || r == '\r') {
			return true
		}
		if enc == "json" && (r < 0x20 || r == '"' || r == '\\' || r == 0x2028 || r == 0x2029 || r > 0xFFFF || r == 0x7f || (r >= 0x80 && r < 0xa0)) {
			return true
		}
	}
	return false
}

func c04NonTrivial(enc string, ref *ttlvref.Node) (bool, []string) {
	nt := false
	var labels []string
	const p52 = int64(1) << 52
	ref.Walk(func(n *ttlvref.Node, _ int) {
		switch n.Type {
		case ttlvref.TextString:
			if needsEscape(enc, n.B) {
				nt = true
				labels = append(labels, "string-needs-escape")
			}
		case ttlvref.LongInteger:
			if n.I >= p52 || n.I <= -p52 {
				nt = true
				labels = append(labels, "long>=2^52")
			}
		case ttlvref.BigInteger:
			if n.Big.CmpAbs(bigP52) >= 0 {
				nt = true
				labels = append(labels, "big>=2^52")
			}
		case ttlvref.Enumeration:
			if _, named := pins.EnumNameOf(n.Tag, uint32(n.I)); !named {
				nt = true
				labels = append(labels, "enum-unnamed")
			}
		case ttlvref.Integer:
			if flags, ok := pins.Masks[n.Tag]; ok {
				if n.I < 0 {
					nt = true
					labels = append(labels, "mask-bit31")
				} else if n.I>>uint(len(flags)) != 0 {
					nt = true
					labels = append(labels, "mask-unnamed-bits")
				}
			}
		}
	})
	return nt, labels
}

var bigP52 = func() *big_ { return newBig(1 << 52) }()

type c04Case struct {
	Encoding string `json:"encoding"`
	Kind     string `json:"kind"`
	RefHex   string `json:"reference_binary_hex"`
	RefText  string `json:"reference_tree,omitempty"`
	Doc      string `json:"document"`
}

// c04Check: the three relations of part A on one message.
func c04Check(enc string, msg any, fresh func() any) (sig string, ref *ttlvref.Node, doc []byte, err error) {
	w := &refwalk.Walker{}
	ref, err = w.Message(msg)
	if err != nil {
		return "harness-refwalk", nil, nil, err
	}
	if err := safely(func() error { doc = append([]byte{}, libMarshal(enc, msg)...); return nil }); err != nil {
		return "encode-panic:" + enc, ref, nil, err
	}
	// (1) well-formed for the standard library parsers
	if enc == "json" {
		if !json.Valid(doc) {
			return "document-malformed:json", ref, doc, fmt.Errorf("encoding/json rejects the document")
		}
	} else if !utf8.Valid(doc) {
		return "document-malformed:xml", ref, doc, fmt.Errorf("document is not valid UTF-8")
	}
	tree, perr := parseText(enc, doc)
	if perr != nil {
		return "document-unreadable:" + enc, ref, doc, fmt.Errorf("independent %s parser cannot read the document: %w", enc, perr)
	}
	// (1b) the document carries exactly the information of the binary form
	if d := ttlvref.Diff(ref, tree); d != "" {
		return "document-differs:" + enc + ":" + diffKind(d), ref, doc, fmt.Errorf("%s document differs from the populated elements (reference vs document): %s", enc, d)
	}
	// (2) decoding yields a message with the identical binary encoding
	m2 := fresh()
	if err := safely(func() error { return libUnmarshal(enc, append([]byte{}, doc...), m2) }); err != nil {
		return "own-document-rejected:" + enc + ":" + errKind(err), ref, doc, fmt.Errorf("the library cannot decode its own %s document: %w", enc, err)
	}
	var b1, b2 []byte
	if err := safely(func() error { b1 = ttlv.MarshalTTLV(msg); b2 = ttlv.MarshalTTLV(m2); return nil }); err != nil {
		return "binary-encode-panic", ref, doc, err
	}
	if !bytes.Equal(b1, b2) {
		t1, _ := ttlvref.Parse(b1, ttlvref.Lenient)
		t2, _ := ttlvref.Parse(b2, ttlvref.Lenient)
		d := "?"
		if t1 != nil && t2 != nil {
			d = ttlvref.Diff(t1, t2)
		}
		return "binary-differs-after-" + enc + ":" + diffKind(d), ref, doc, fmt.Errorf("binary encoding after the %s round trip differs: %s", enc, d)
	}
	return "", ref, doc, nil
}

func TestC04Generated(t *testing.T) {
	const name = "TestC04Generated"
	rec := evid.New("C04", name, "gen.Message with XML-safe resp. JSON-safe alphabets (all of Unicode the format can carry: markup characters, C0/C1 controls, quotes, U+2028, astral), dates in years 1..9999, versions 1.0..1.4, x {XML, JSON}; "+
		"non-trivial = contains a string needing escaping in the target, a long/big integer beyond +-2^52, an unnamed enumeration value or a mask with unnamed/high bits; distinct by (encoding, reference encoding)").Attach(t)
	rapid.Check(t, func(rt *rapid.T) {
		enc := rapid.SampledFrom([]string{"xml", "json"}).Draw(rt, "encoding")
		var labels []string
		o := gen.MsgOpts{Alphabet: enc, TextSafe: true, Labels: func(l ...string) { labels = append(labels, l...) }}
		o.PopulateAll = rapid.IntRange(0, 9).Draw(rt, "populateAll") == 0
		msg, fresh, _, kind := drawMessage(rt, o)
		sig, ref, doc, err := c04Check(enc, msg, fresh)
		if ref != nil {
			nt, l2 := c04NonTrivial(enc, ref)
			rec.Case(nt, append([]byte(enc), ttlvref.Write(ref)...), append(l2, "enc="+enc)...)
			if nt && rec.WantSample() && len(doc) < 1500 {
				rec.Sample(c04Case{Encoding: enc, Kind: kind, Doc: string(doc)})
			}
		}
		if err != nil {
			c := c04Case{Encoding: enc, Kind: kind, Doc: string(doc)}
			if ref != nil {
				c.RefHex = fmt.Sprintf("%x", ttlvref.Write(ref))
				c.RefText = ref.String()
			}
			rec.Fail(rt, name, sig, err, c)
		}
	})
}

// TestC04Scalars sweeps single items: every value class of every type, typed masks over the full int32 range.
func TestC04Scalars(t *testing.T) {
	const name = "TestC04Scalars"
	rec := evid.New("C04", name, "single items x {XML, JSON}: generic leaves of all nine scalar types (long/big integers on both sides of +-2^52, registered and unregistered enumeration values under registered enumeration tags, "+
		"text over the target alphabet) and typed bit masks over the whole int32 range (named flags only, unnamed bits, bit 31); oracle: well-formed, independent parser reads the same value, decode gives the identical binary encoding; "+
		"non-trivial as in TestC04Generated; distinct by (encoding, reference encoding)").Attach(t)
	enumTags := make([]int, 0, len(pins.Enums))
	for tag := range pins.Enums {
		enumTags = append(enumTags, tag)
	}
	sort.Ints(enumTags)
	rapid.Check(t, func(rt *rapid.T) {
		enc := rapid.SampledFrom([]string{"xml", "json"}).Draw(rt, "encoding")
		var val any
		var fresh func() any
		var ref *ttlvref.Node
		depthLabel := ""
		if rapid.IntRange(0, 3).Draw(rt, "typedmask") == 0 {
			v := gen.Int32(rt, "mask")
			if rapid.Bool().Draw(rt, "anymask") {
				v = rapid.Int32().Draw(rt, "maskany")
			}
			if rapid.Bool().Draw(rt, "usage") {
				val, fresh = kmip.CryptographicUsageMask(v), func() any { return new(kmip.CryptographicUsageMask) }
				ref = &ttlvref.Node{Tag: pins.Tags["CryptographicUsageMask"], Type: ttlvref.Integer, I: int64(v)}
			} else {
				val, fresh = kmip.StorageStatusMask(v), func() any { return new(kmip.StorageStatusMask) }
				ref = &ttlvref.Node{Tag: pins.Tags["StorageStatusMask"], Type: ttlvref.Integer, I: int64(v)}
			}
		} else {
			to := gen.DefaultTreeOpts()
			to.Alphabet, to.TextSafe, to.MaxDepth = enc, true, 0
			n := gen.Tree(rt, to)
			for n.Type == ttlvref.Structure {
				n = gen.Tree(rt, to)
			}
			if n.Type == ttlvref.Enumeration {
				n.Tag = rapid.SampledFrom(enumTags).Draw(rt, "enumtag")
				if rapid.Bool().Draw(rt, "registeredvalue") {
					vals := pins.Enums[n.Tag]
					keys := make([]uint32, 0, len(vals))
					for k := range vals {
						keys = append(keys, k)
					}
					sort.Slice(keys, func(i, j int) bool { return keys[i] < keys[j] })
					n.I = int64(rapid.SampledFrom(keys).Draw(rt, "enumv"))
				}
			} else if _, isMask := pins.Masks[n.Tag]; isMask {
				n.Tag = 0x420001 // a generic Integer under a mask tag is outside the typed mask domain
			}
			if rapid.IntRange(0, 7).Draw(rt, "nested") == 0 {
				// the item sits at the bottom of a chain of nested structures (free-form content such as vendor
				// extensions and custom attribute values may nest to any depth)
				depth := rapid.SampledFrom([]int{1, 2, 8, 15, 16, 17, 18, 33, 63, 64, 65, 100, 300}).Draw(rt, "depth")
				for i := 0; i < depth; i++ {
					n = &ttlvref.Node{Tag: 0x540100 + i%200, Type: ttlvref.Structure, Kids: []*ttlvref.Node{n}}
				}
				depthLabel = fmt.Sprintf("nesting-depth=%d", depth)
			}
			ref = n
			v := gen.ToValue(n)
			val, fresh = v, func() any { return &ttlv.Value{} }
		}
		nt, labels := c04NonTrivial(enc, ref)
		if depthLabel != "" {
			labels = append(labels, depthLabel)
		}
		rec.Case(nt, append([]byte(enc), ttlvref.Write(ref)...), append(labels, "enc="+enc, "type="+ttlvref.TypeNames[ref.Type])...)
		var doc []byte
		c := func() c04Case {
			return c04Case{Encoding: enc, Kind: "scalar", RefHex: fmt.Sprintf("%x", ttlvref.Write(ref)), RefText: ref.String(), Doc: string(doc)}
		}
		if err := safely(func() error { doc = append([]byte{}, libMarshal(enc, val)...); return nil }); err != nil {
			rec.Fail(rt, name, "encode-panic:"+enc, err, c())
			return
		}
		if nt && rec.WantSample() {
			rec.Sample(c())
		}
		if enc == "json" && !json.Valid(doc) {
			rec.Fail(rt, name, "document-malformed:json", fmt.Errorf("encoding/json rejects %s", doc), c())
			return
		}
		tree, perr := parseText(enc, doc)
		if perr != nil {
			rec.Fail(rt, name, "document-unreadable:"+enc, fmt.Errorf("independent parser: %w", perr), c())
			return
		}
		if d := ttlvref.Diff(ref, tree); d != "" {
			rec.Fail(rt, name, "document-differs:"+enc+":"+ttlvref.TypeNames[ref.Type], fmt.Errorf("document carries another value: %s", d), c())
			return
		}
		back := fresh()
		if err := safely(func() error { return libUnmarshal(enc, append([]byte{}, doc...), back) }); err != nil {
			rec.Fail(rt, name, "own-document-rejected:"+enc+":"+ttlvref.TypeNames[ref.Type], fmt.Errorf("library rejects its own document %s: %w", doc, err), c())
			return
		}
		var b2 []byte
		if err := safely(func() error { b2 = ttlv.MarshalTTLV(derefAny(back)); return nil }); err != nil {
			rec.Fail(rt, name, "binary-encode-panic", err, c())
			return
		}
		if want := ttlvref.Write(ref); !bytes.Equal(b2, want) {
			rec.Fail(rt, name, "binary-differs-after-"+enc+":"+ttlvref.TypeNames[ref.Type], fmt.Errorf("binary after %s round trip %x, want %x", enc, b2, want), c())
		}
	})
}

func derefAny(p any) any {
	switch x := p.(type) {
	case *kmip.CryptographicUsageMask:
		return *x
	case *kmip.StorageStatusMask:
		return *x
	case *ttlv.Value:
		return *x
	}
	return p
}

// ---------------------------------------------------------------------------
// Part B: the OASIS vectors

type vectorMsg struct {
	File  string
	Index int
	Elem  *ttlvref.Elem
	XML   []byte
}

var (
	vecOnce   sync.Once
	vecMsgs   []vectorMsg
	vecErr    error
	nowRe     = regexp.MustCompile(`"\$NOW((\-|\+)\d+)?"`)
	varRe     = regexp.MustCompile(`"\$[A-Za-z0-9_]+"`)
	fixedNow  = time.Date(2024, 3, 1, 12, 0, 0, 0, time.UTC)
	vecFiles  int
	vecOptset map[string]bool // parentPath|childName pairs observed to be optional
)

func repoRoot() string {
	if r := os.Getenv("VERIF_REPO"); r != "" {
		return r
	}
	return "/repo"
}

func loadVectors() {
	root := filepath.Join(repoRoot(), "kmiptest", "testdata")
	var files []string
	_ = filepath.Walk(root, func(p string, info os.FileInfo, err error) error {
		if err == nil && !info.IsDir() && strings.HasSuffix(p, ".xml") {
			files = append(files, p)
		}
		return nil
	})
	sort.Strings(files)
	vecFiles = len(files)
	present := map[string]int{} // parentPath|child -> count of parents having it
	parents := map[string]int{} // parentPath -> count
	for _, f := range files {
		raw, err := os.ReadFile(f)
		if err != nil {
			vecErr = err
			return
		}
		raw = nowRe.ReplaceAllFunc(raw, func(b []byte) []byte {
			off, _ := strconv.ParseInt(strings.Trim(string(b[5:]), `"`), 10, 64)
			return []byte(`"` + fixedNow.Add(time.Duration(off)*time.Second).Format(time.RFC3339) + `"`)
		})
		raw = varRe.ReplaceAll(raw, []byte(`"DEADBEEFCAFE"`))
		roots, err := ttlvref.ParseXMLElems(raw)
		if err != nil {
			vecErr = fmt.Errorf("%s: %w", f, err)
			return
		}
		rel, _ := filepath.Rel(root, f)
		idx := 0
		var collect func(e *ttlvref.Elem)
		collect = func(e *ttlvref.Elem) {
			if e.Name == "RequestMessage" || e.Name == "ResponseMessage" {
				vecMsgs = append(vecMsgs, vectorMsg{File: rel, Index: idx, Elem: e, XML: ttlvref.WriteElemXML(e)})
				idx++
				var walk func(x *ttlvref.Elem, path string)
				walk = func(x *ttlvref.Elem, path string) {
					p := path + "/" + x.Name
					parents[p]++
					seen := map[string]bool{}
					for _, k := range x.Kids {
						if !seen[k.Name] {
							seen[k.Name] = true
							present[p+"|"+k.Name]++
						}
						walk(k, p)
					}
				}
				walk(e, "")
				return
			}
			for _, k := range e.Kids {
				collect(k)
			}
		}
		for _, r := range roots {
			collect(r)
		}
	}
	vecOptset = map[string]bool{}
	for k, c := range present {
		p := k[:strings.IndexByte(k, '|')]
		if c < parents[p] {
			vecOptset[k] = true
		}
	}
}

// supportedOps: every batch item of the message uses an implemented operation.
func vectorSupported(e *ttlvref.Elem) bool {
	ok := true
	for _, k := range e.Kids {
		if k.Name != "BatchItem" {
			continue
		}
		for _, f := range k.Kids {
			if f.Name == "Operation" {
				code, known := pins.EnumByName[pins.Tags["Operation"]][f.Value]
				if !known {
					if v, err := strconv.ParseUint(strings.TrimPrefix(f.Value, "0x"), 16, 32); err == nil {
						code = uint32(v)
					}
				}
				if _, impl := pins.Ops[code]; !impl {
					ok = false
				}
			}
		}
	}
	return ok
}

// vectorRoundTrip: decode the XML with the library, encode again, compare the two documents as trees.
func vectorRoundTrip(e *ttlvref.Elem, doc []byte) (sig string, accepted bool, err error) {
	in, perr := pinResolver.ToNode(e, false)
	if perr != nil {
		return "harness-cannot-read-input", false, fmt.Errorf("independent parser cannot read the input (pins incomplete?): %w", perr)
	}
	var msg any = &kmip.RequestMessage{}
	if e.Name == "ResponseMessage" {
		msg = &kmip.ResponseMessage{}
	}
	if derr := safely(func() error { return ttlv.UnmarshalXML(append([]byte{}, doc...), msg) }); derr != nil {
		return "rejected:" + errKind(derr), false, derr
	}
	var out []byte
	if eerr := safely(func() error { out = append([]byte{}, ttlv.MarshalXML(msg)...); return nil }); eerr != nil {
		return "reencode-panic", true, eerr
	}
	back, perr := parseText("xml", out)
	if perr != nil {
		return "reencoded-unreadable", true, fmt.Errorf("independent parser cannot read the re-encoding: %w\n%s", perr, clip(out))
	}
	if d := ttlvref.Diff(in, back); d != "" {
		// classify: does the difference consist only of explicitly present zero values that were dropped?
		if ttlvref.Diff(stripZeroLeaves(in), stripZeroLeaves(back)) == "" {
			return sigDropsZero, true, fmt.Errorf("re-encoding drops an element that is present with a zero/empty value (input vs re-encoding): %s", d)
		}
		return "reencoding-differs:" + diffKind(d), true, fmt.Errorf("re-encoding differs from the input (input vs re-encoding): %s", d)
	}
	return "", true, nil
}

const sigDropsZero = "omitempty-drops-zero-value"

func isZeroLeaf(n *ttlvref.Node) bool {
	switch n.Type {
	case ttlvref.Structure:
		return false
	case ttlvref.TextString, ttlvref.ByteString:
		return len(n.B) == 0
	case ttlvref.BigInteger:
		return n.Big.Sign() == 0
	}
	return n.I == 0
}

func stripZeroLeaves(n *ttlvref.Node) *ttlvref.Node {
	c := *n
	c.Kids = nil
	for _, k := range n.Kids {
		if isZeroLeaf(k) {
			continue
		}
		c.Kids = append(c.Kids, stripZeroLeaves(k))
	}
	return &c
}

func TestC04Vectors(t *testing.T) {
	const name = "TestC04Vectors"
	rec := evid.New("C04", name, "every RequestMessage/ResponseMessage element of the OASIS conformance vectors shipped in kmiptest/testdata ($NOW/$VAR placeholders substituted deterministically); "+
		"messages whose batch items all use implemented operations must decode and re-encode to a document whose tree (names, order, types, normalised values) equals the input's; "+
		"non-trivial = supported message with >= 12 elements; distinct by document").Attach(t)
	vecOnce.Do(loadVectors)
	if vecErr != nil {
		t.Fatalf("cannot load vectors: %v", vecErr)
	}
	skipped := 0
	type fl struct {
		Sig, File string
		Index     int
		Err       string
		Doc       string
	}
	var fails []fl
	for _, vm := range vecMsgs {
		if !vectorSupported(vm.Elem) {
			skipped++
			rec.Label("skipped-unsupported-operation")
			continue
		}
		n := 0
		var cnt func(e *ttlvref.Elem)
		cnt = func(e *ttlvref.Elem) {
			n++
			for _, k := range e.Kids {
				cnt(k)
			}
		}
		cnt(vm.Elem)
		rec.Case(n >= 12, vm.XML, "supported")
		if n >= 12 && n < 30 && rec.WantSample() {
			rec.Sample(map[string]any{"file": vm.File, "index": vm.Index, "xml": string(vm.XML)})
		}
		sig, _, err := vectorRoundTrip(vm.Elem, vm.XML)
		if err != nil && len(fails) < 50 {
			fails = append(fails, fl{sig, vm.File, vm.Index, err.Error(), string(vm.XML)})
		}
	}
	rec.Set("vector_files", vecFiles)
	rec.Set("messages", len(vecMsgs))
	rec.Set("skipped_unsupported_operation", skipped)
	rec.Exhaustive(true)
	if len(fails) > 0 {
		sigs := map[string]int{}
		for _, f := range fails {
			sigs[f.Sig]++
		}
		rec.Fail(t, name, "vector:"+fails[0].Sig, fmt.Errorf("%d vector messages fail (%v); first: %s#%d: %s", len(fails), sigs, fails[0].File, fails[0].Index, fails[0].Err), fails)
	}
}

// TestC04Variations: value and optional-element variations of the vectors.
func TestC04Variations(t *testing.T) {
	const name = "TestC04Variations"
	rec := evid.New("C04", name, "rapid variations of supported vector messages: 1..3 leaves replaced by another value of their type (other registered names, boundary numbers, other dates/strings/bytes) "+
		"and/or an element dropped that the corpus itself shows to be optional (same parent path occurs without it); a variation the library rejects is only counted, an accepted one must re-encode to the same tree; "+
		"non-trivial = accepted variation; distinct by document").Attach(t)
	vecOnce.Do(loadVectors)
	if vecErr != nil {
		t.Fatalf("cannot load vectors: %v", vecErr)
	}
	var pool []vectorMsg
	for _, vm := range vecMsgs {
		if vectorSupported(vm.Elem) {
			pool = append(pool, vm)
		}
	}
	rapid.Check(t, func(rt *rapid.T) {
		vm := pool[rapid.IntRange(0, len(pool)-1).Draw(rt, "vector")]
		e := cloneElem(vm.Elem)
		var leaves []*ttlvref.Elem
		type pk struct {
			parent *ttlvref.Elem
			idx    int
		}
		var optional []pk
		var walk func(x *ttlvref.Elem, path string)
		walk = func(x *ttlvref.Elem, path string) {
			p := path + "/" + x.Name
			if len(x.Kids) == 0 && x.Type != "" && !discriminators[x.Name] {
				leaves = append(leaves, x)
			}
			for i, k := range x.Kids {
				if vecOptset[p+"|"+k.Name] && !discriminators[k.Name] {
					optional = append(optional, pk{x, i})
				}
				walk(k, p)
			}
		}
		walk(e, "")
		var notes []string
		nv := rapid.IntRange(0, 3).Draw(rt, "nvalues")
		for i := 0; i < nv && len(leaves) > 0; i++ {
			l := leaves[rapid.IntRange(0, len(leaves)-1).Draw(rt, "leaf")]
			varyLeaf(rt, l, &notes)
		}
		if len(optional) > 0 && (nv == 0 || rapid.Bool().Draw(rt, "drop")) {
			d := optional[rapid.IntRange(0, len(optional)-1).Draw(rt, "dropwhich")]
			if d.idx < len(d.parent.Kids) {
				notes = append(notes, "drop:"+d.parent.Kids[d.idx].Name)
				d.parent.Kids = append(d.parent.Kids[:d.idx:d.idx], d.parent.Kids[d.idx+1:]...)
			}
		}
		if evid.IsKnown("C04", "variation:"+sigDropsZero) {
			// open finding excluded by construction: do not generate explicitly present zero/empty values
			for _, l := range leaves {
				if zeroText(l) {
					nonZero(l)
					rec.Excluded("variation:" + sigDropsZero)
				}
			}
		}
		doc := ttlvref.WriteElemXML(e)
		if rapid.Bool().Draw(rt, "reformat") {
			// the same document in another, equivalent XML serialisation (leaves not self-closing, white space and
			// comments inside and between elements, attribute order, type="Structure" spelt out)
			var b bytes.Buffer
			writeElemXMLVariant(rt, &b, e, 0)
			doc = b.Bytes()
			notes = append(notes, "format:equivalent-serialisation")
		}
		sig, accepted, err := vectorRoundTrip(e, doc)
		labels := []string{fmt.Sprintf("accepted=%v", accepted)}
		if sig == "harness-cannot-read-input" {
			// e.g. an attribute name was varied so that its enumeration value can no longer be interpreted
			labels = append(labels, "variation-uninterpretable")
		}
		for _, n := range notes {
			labels = append(labels, "var="+n[:strings.IndexByte(n+":", ':')])
		}
		rec.Case(accepted, doc, labels...)
		if accepted && rec.WantSample() && len(doc) < 1200 {
			rec.Sample(map[string]any{"file": vm.File, "index": vm.Index, "variation": notes, "xml": string(doc)})
		}
		if err != nil && accepted {
			rec.Fail(rt, name, "variation:"+sig, err, map[string]any{"file": vm.File, "index": vm.Index, "variation": notes, "xml": string(doc)})
		}
		_ = sig
	})
}

// discriminators decide how the elements that follow them are to be read (which payload, object,
// key material, credential or attribute value structure): varying or dropping them does not yield a
// conformant variation of the message, so they are left alone.
var discriminators = map[string]bool{"Operation": true, "ObjectType": true, "KeyFormatType": true, "CredentialType": true, "AttributeName": true,
	"ProtocolVersionMajor": true, "ProtocolVersionMinor": true} // the header version decides which elements are valid at all

func cloneElem(e *ttlvref.Elem) *ttlvref.Elem {
	c := *e
	c.Kids = nil
	for _, k := range e.Kids {
		c.Kids = append(c.Kids, cloneElem(k))
	}
	return &c
}

func varyLeaf(rt *rapid.T, l *ttlvref.Elem, notes *[]string) {
	tag := pins.Tags[l.Name]
	switch l.Type {
	case "Integer":
		if flags, ok := pins.Masks[tag]; ok && rapid.Bool().Draw(rt, "maskbyname") {
			k := rapid.IntRange(1, 3).Draw(rt, "nflags")
			var toks []string
			for i := 0; i < k; i++ {
				toks = append(toks, flags[rapid.IntRange(0, len(flags)-1).Draw(rt, "flag")])
			}
			l.Value = strings.Join(toks, " ")
		} else {
			l.Value = strconv.Itoa(int(gen.Int32(rt, "vint")))
		}
	case "LongInteger":
		l.Value = strconv.FormatInt(gen.Int64(rt, "vlong"), 10)
	case "Enumeration":
		vals := pins.Enums[tag]
		if len(vals) > 0 && rapid.IntRange(0, 3).Draw(rt, "enumbyname") > 0 {
			names := make([]string, 0, len(vals))
			for _, n := range vals {
				names = append(names, n)
			}
			sort.Strings(names)
			l.Value = rapid.SampledFrom(names).Draw(rt, "ename")
		} else {
			l.Value = fmt.Sprintf("0x%08X", rapid.Uint32Range(1, 0xFFFFFFFF).Draw(rt, "enum"))
		}
	case "Boolean":
		l.Value = rapid.SampledFrom([]string{"true", "false"}).Draw(rt, "vbool")
	case "TextString":
		l.Value = gen.Text(rt, "vtext", "xml", 20)
	case "ByteString":
		l.Value = strings.ToUpper(fmt.Sprintf("%x", gen.Bytes(rt, "vbytes", 24)))
	case "DateTime":
		l.Value = time.Unix(gen.DateSec(rt, "vdate", true), 0).UTC().Format(time.RFC3339)
	case "Interval":
		l.Value = strconv.FormatInt(gen.IntervalSec(rt, "vival"), 10)
	case "BigInteger":
		l.Value = strings.ToUpper(fmt.Sprintf("%x", ttlvref.ToTwos(gen.BigInt(rt, "vbig"), 8)))
	}
	*notes = append(*notes, "value:"+l.Name)
}

func zeroText(l *ttlvref.Elem) bool {
	switch l.Type {
	case "TextString", "ByteString":
		return l.Value == ""
	case "Integer", "LongInteger", "Interval":
		return l.Value == "0"
	case "Boolean":
		return l.Value == "false"
	case "Enumeration":
		return l.Value == "0x00000000"
	case "BigInteger":
		return strings.Trim(l.Value, "0") == ""
	}
	return false
}

func nonZero(l *ttlvref.Elem) {
	switch l.Type {
	case "TextString":
		l.Value = "v"
	case "ByteString":
		l.Value = "01"
	case "Integer", "LongInteger", "Interval":
		l.Value = "1"
	case "Boolean":
		l.Value = "true"
	case "Enumeration":
		l.Value = "0x00000001"
	case "BigInteger":
		l.Value = "0000000000000001"
	}
}

func xmlEsc(s string) string {
	return strings.NewReplacer("&", "&amp;", "<", "&lt;", ">", "&gt;", `"`, "&quot;", "\t", "&#x9;", "\n", "&#xA;", "\r", "&#xD;").Replace(s)
}

// writeElemXMLVariant writes an equivalent XML serialisation of the element tree, drawing the lexical freedoms XML leaves.
func writeElemXMLVariant(rt *rapid.T, b *bytes.Buffer, e *ttlvref.Elem, depth int) {
	ws := func() {
		switch rapid.IntRange(0, 3).Draw(rt, "ws") {
		case 0:
			b.WriteString("\n" + strings.Repeat("  ", depth))
		case 1:
			b.WriteString(" <!-- note --> ")
		}
	}
	ws()
	b.WriteString("<" + e.Name)
	attrs := [][2]string{}
	if e.TagAt != "" {
		attrs = append(attrs, [2]string{"tag", e.TagAt})
	}
	if e.Type != "" {
		attrs = append(attrs, [2]string{"type", e.Type})
	} else if rapid.IntRange(0, 3).Draw(rt, "explicit-structure-type") == 0 {
		// the type attribute of a structure is optional (Structure is the default): some writers spell it out
		attrs = append(attrs, [2]string{"type", "Structure"})
	}
	if e.HasValue {
		attrs = append(attrs, [2]string{"value", e.Value})
	}
	if len(attrs) > 1 && rapid.Bool().Draw(rt, "attrorder") {
		attrs[0], attrs[len(attrs)-1] = attrs[len(attrs)-1], attrs[0]
	}
	for _, a := range attrs {
		q := `"`
		fmt.Fprintf(b, " %s=%s%s%s", a[0], q, xmlEsc(a[1]), q)
	}
	if len(e.Kids) == 0 && e.Type != "" {
		switch rapid.IntRange(0, 3).Draw(rt, "leafform") {
		case 0:
			b.WriteString("/>")
		case 1:
			b.WriteString("></" + e.Name + ">")
		case 2:
			b.WriteString(">\n" + strings.Repeat("  ", depth) + "</" + e.Name + ">")
		default:
			b.WriteString("><!-- leaf --></" + e.Name + " >")
		}
		return
	}
	b.WriteString(">")
	for _, k := range e.Kids {
		writeElemXMLVariant(rt, b, k, depth+1)
	}
	ws()
	b.WriteString("</" + e.Name + ">")
}
