package codec

import (
	"encoding/hex"
	"encoding/json"
	"fmt"
	"io"
	"math/big"
	"runtime"
	"strings"
	"testing"

	kmip "github.com/ovh/kmip-go"
	"github.com/ovh/kmip-go/ttlv"
	"pgregory.net/rapid"

	"verif/harness/evid"
	"verif/harness/gen"
	"verif/harness/ttlvref"
)

// planReader delivers a byte stream according to a chunk plan and records what the receiver asked for.
type planReader struct {
	data      []byte
	pos       int
	plan      []int // chunk sizes, cycled; 0 entries are treated as 1
	pi        int
	left      int  // bytes left in the current chunk
	eofWith   bool // deliver the final bytes together with io.EOF
	maxReq    int  // largest len(p) seen since resetStats
	reads     int
	inHeader  bool // some read boundary fell inside a header (set by the test afterwards)
	consumed0 int
}

func (r *planReader) Read(p []byte) (int, error) {
	r.reads++
	if len(p) > r.maxReq {
		r.maxReq = len(p)
	}
	if r.pos >= len(r.data) {
		return 0, io.EOF
	}
	if len(p) == 0 {
		return 0, nil
	}
	if r.left == 0 {
		c := 1
		if len(r.plan) > 0 {
			c = r.plan[r.pi%len(r.plan)]
			r.pi++
		}
		if c <= 0 {
			c = 1
		}
		r.left = c
	}
	n := len(p)
	if n > r.left {
		n = r.left
	}
	if n > len(r.data)-r.pos {
		n = len(r.data) - r.pos
	}
	copy(p, r.data[r.pos:r.pos+n])
	r.pos += n
	r.left -= n
	if r.eofWith && r.pos == len(r.data) {
		return n, io.EOF
	}
	return n, nil
}
func (r *planReader) Write(p []byte) (int, error) { return len(p), nil }
func (r *planReader) Close() error                { return nil }

type c07Case struct {
	Msgs     []string `json:"messages_hex"`
	Plan     []int    `json:"read_chunk_plan"`
	EOFWith  bool     `json:"last_bytes_with_eof"`
	Truncate int      `json:"truncate_at"` // -1: none; else the stream ends after this many bytes
	Max      int      `json:"max_size"`    // 0: unlimited
	// Announce: if > 0 the last message is replaced by a bare header announcing this many value bytes
	Announce int64 `json:"announced_length"`
	// WrongTarget[i]: message i is received into a Go value that cannot hold it (a structure into *kmip.ResponseMessage, a scalar
	// into a structure type), as happens to a peer that sends a response where a request is expected: Recv reports an
	// error for it after consuming exactly its bytes, and goes on with the next message at the next call
	WrongTarget []bool `json:"receive_into_wrong_target,omitempty"`
}

func c07Run(c c07Case) (sig string, err error) {
	var stream []byte
	var msgs [][]byte
	for _, h := range c.Msgs {
		b, err := hex.DecodeString(h)
		if err != nil {
			return "harness", err
		}
		msgs = append(msgs, b)
		stream = append(stream, b...)
	}
	if c.Announce > 0 {
		hdr := []byte{0x42, 0x00, 0x78, 0x01, byte(c.Announce >> 24), byte(c.Announce >> 16), byte(c.Announce >> 8), byte(c.Announce)}
		// followed by some bytes (as many as a hostile peer would care to send, bounded)
		tail := make([]byte, 600)
		stream = append(stream, hdr...)
		stream = append(stream, tail...)
	}
	full := len(stream)
	if c.Truncate >= 0 && c.Truncate < len(stream) {
		stream = stream[:c.Truncate]
	}
	rd := &planReader{data: stream, plan: c.Plan, eofWith: c.EOFWith}
	st := ttlv.NewStream(rd, c.Max)
	off := 0
	// every message handed out must remain what was sent while the stream goes on receiving
	var kept []ttlv.Value
	var keptWant []*ttlvref.Node
	recheck := func() (string, error) {
		for i := range kept {
			got, ok := gen.FromValue(kept[i])
			if !ok {
				return "returned-message-changed-later", fmt.Errorf("message %d no longer holds TTLV values after later Recv calls", i)
			}
			if d := ttlvref.Diff(keptWant[i], got); d != "" {
				return "returned-message-changed-later", fmt.Errorf("message %d was returned correctly but changed after later Recv calls on the same stream: %s", i, d)
			}
		}
		return "", nil
	}
	for i, m := range msgs {
		var v ttlv.Value
		before := rd.pos
		rd.maxReq = 0
		wrongTarget := i < len(c.WrongTarget) && c.WrongTarget[i]
		rerr := safely(func() error {
			if wrongTarget {
				if len(m) > 3 && m[3] == byte(ttlvref.Structure) {
					return st.Recv(new(kmip.ResponseMessage))
				}
				return st.Recv(new(kmip.ProtocolVersion))
			}
			return st.Recv(&v)
		})
		if rerr != nil && strings.HasPrefix(rerr.Error(), "panic:") {
			return "recv-panics", fmt.Errorf("Recv of message %d panicked instead of returning a message or an error: %w", i, rerr)
		}
		end := off + len(m)
		tooBig := c.Max > 0 && len(m) > c.Max
		complete := end <= len(stream)
		switch {
		case tooBig:
			if rerr == nil {
				return "oversize-accepted", fmt.Errorf("message %d of %d bytes accepted with max %d", i, len(m), c.Max)
			}
			if rd.maxReq > c.Max || rd.pos-before > c.Max {
				return "oversize-buffered", fmt.Errorf("message %d: receiver asked for %d bytes at once / consumed %d with max %d", i, rd.maxReq, rd.pos-before, c.Max)
			}
			return recheck() // stream is out of sync after a rejection: stop here
		case !complete:
			if rerr == nil {
				return "truncated-yields-message", fmt.Errorf("stream ends %d bytes into message %d but Recv returned a message", len(stream)-off, i)
			}
			return recheck()
		}
		if wrongTarget {
			// whatever Recv says about a message its target cannot hold, the message is consumed, and only it
			if rd.pos != end {
				return "consumed-wrong-amount", fmt.Errorf("message %d was received into a target that cannot hold it (Recv: %v): the receiver consumed %d bytes of the stream, the message ends at %d", i, rerr, rd.pos, end)
			}
			off = end
			continue
		}
		if rerr != nil {
			return "complete-message-rejected:" + errKind(rerr), fmt.Errorf("message %d (%d bytes, stream offset %d): %w", i, len(m), off, rerr)
		}
		want, perr := ttlvref.Parse(m, ttlvref.Strict)
		if perr != nil {
			return "harness", perr
		}
		got, ok := gen.FromValue(v)
		if !ok {
			return "foreign-value", fmt.Errorf("message %d decoded to unexpected Go types", i)
		}
		if d := ttlvref.Diff(want, got); d != "" {
			return "wrong-message", fmt.Errorf("message %d differs: %s", i, d)
		}
		if rd.pos != end {
			return "consumed-wrong-amount", fmt.Errorf("after message %d the receiver consumed %d bytes of the stream, message ends at %d", i, rd.pos, end)
		}
		off = end
		kept, keptWant = append(kept, v), append(keptWant, want)
	}
	if c.Announce > 0 {
		before := rd.pos
		rd.maxReq = 0
		var v ttlv.Value
		// what the receiver sets aside for the announced message is part of "buffering": the bytes allocated while it
		// decides are measured too (one goroutine, nothing else allocates meanwhile but the reader's bookkeeping)
		var m0, m1 runtime.MemStats
		runtime.ReadMemStats(&m0)
		rerr := safely(func() error { return st.Recv(&v) })
		runtime.ReadMemStats(&m1)
		allocated := m1.TotalAlloc - m0.TotalAlloc
		if rerr != nil && strings.HasPrefix(rerr.Error(), "panic:") {
			return "recv-panics", fmt.Errorf("Recv panicked on a header announcing %d bytes (max %d) instead of rejecting it with an error: %w", c.Announce, c.Max, rerr)
		}
		total := 8 + c.Announce + (8-c.Announce%8)%8
		if c.Max > 0 && total > int64(c.Max) {
			if rerr == nil {
				return "oversize-accepted", fmt.Errorf("header announcing %d bytes accepted with max %d", c.Announce, c.Max)
			}
			if allocated > uint64(c.Max)+256<<10 && allocated >= uint64(c.Announce)/2 {
				return "oversize-buffered", fmt.Errorf("announced %d bytes with max %d: rejected (%v), but %d bytes were allocated while deciding - room for the announced amount was made before the limit was looked at", c.Announce, c.Max, rerr, allocated)
			}
			if rd.maxReq > c.Max || rd.pos-before > c.Max {
				return "oversize-buffered", fmt.Errorf("announced %d: receiver asked for %d bytes at once / consumed %d with max %d", c.Announce, rd.maxReq, rd.pos-before, c.Max)
			}
			// a receiver that goes on after the rejection (the server's read loop does) has not kept the announced amount
			// in mind either: the next call does not make room for it
			var m2, m3 runtime.MemStats
			runtime.ReadMemStats(&m2)
			_ = safely(func() error { var v2 ttlv.Value; return st.Recv(&v2) })
			runtime.ReadMemStats(&m3)
			if again := m3.TotalAlloc - m2.TotalAlloc; again > uint64(c.Max)+256<<10 && again >= uint64(c.Announce)/2 {
				return "oversize-buffered-by-next-recv", fmt.Errorf("announced %d bytes with max %d: rejected, but the next Recv on the stream allocated %d bytes", c.Announce, c.Max, again)
			}
		} else if rerr == nil && int64(off)+total > int64(len(stream)) {
			return "truncated-yields-message", fmt.Errorf("announced %d bytes, stream has only %d more, but Recv returned a message", c.Announce, len(stream)-off)
		}
	}
	_ = full
	return recheck()
}

// sizedMessage builds a structure message of exactly `total` bytes (total >= 16, multiple of 8).
func sizedMessage(total int, fill byte) []byte {
	n := &ttlvref.Node{Tag: 0x420078, Type: ttlvref.Structure}
	if total >= 16 {
		b := make([]byte, total-16)
		for i := range b {
			b[i] = fill
		}
		n.Kids = []*ttlvref.Node{{Tag: 0x420042, Type: ttlvref.ByteString, B: b}}
	}
	return ttlvref.Write(n)
}

func drawC07(rt *rapid.T) (c07Case, bool, []string) {
	c := c07Case{Truncate: -1}
	var labels []string
	nmsg := rapid.IntRange(1, 5).Draw(rt, "nmsg")
	total := 0
	var bounds []int
	for i := 0; i < nmsg; i++ {
		var b []byte
		switch rapid.IntRange(0, 8).Draw(rt, "msgclass") {
		case 8: // a top-level item that is no structure and is larger than the initial buffer: a long big integer, text or byte string
			ln := rapid.SampledFrom([]int{496, 504, 512, 520, 528, 1024, 4096, 9000}).Draw(rt, "scalarlen")
			raw := make([]byte, ln)
			for x := range raw {
				raw[x] = byte(0x21 + (x+i)%90)
			}
			n := &ttlvref.Node{Tag: 0x420000 + rapid.IntRange(1, 0x120).Draw(rt, "scalartag")}
			switch rapid.IntRange(0, 2).Draw(rt, "scalartype") {
			case 0:
				n.Type, n.Big = ttlvref.BigInteger, new(big.Int).SetBytes(raw[:ln/8*8])
			case 1:
				n.Type, n.B = ttlvref.TextString, raw
			default:
				n.Type, n.B = ttlvref.ByteString, raw
			}
			b = ttlvref.Write(n)
			labels = append(labels, "large-toplevel-scalar")
		case 0: // around the initial 512 byte buffer
			b = sizedMessage(8*rapid.IntRange(60, 68).Draw(rt, "around512"), byte(i))
			labels = append(labels, "size~512")
		case 1:
			b = sizedMessage(8*rapid.IntRange(2, 40000).Draw(rt, "big"), byte(i))
			labels = append(labels, "size-large")
		case 2: // scalar top-level item
			to := gen.DefaultTreeOpts()
			n := gen.Tree(rt, to)
			b = ttlvref.Write(n)
		case 3: // a real KMIP message
			m := gen.Request(rt, gen.MsgOpts{})
			b = ttlv.MarshalTTLV(m)
			labels = append(labels, "kmip-message")
		default:
			to := gen.DefaultTreeOpts()
			to.MaxDepth = 3
			n := gen.Tree(rt, to)
			if n.Type != ttlvref.Structure {
				n = &ttlvref.Node{Tag: 0x420078, Type: ttlvref.Structure, Kids: []*ttlvref.Node{n}}
			}
			b = ttlvref.Write(n)
		}
		c.Msgs = append(c.Msgs, hex.EncodeToString(b))
		total += len(b)
		bounds = append(bounds, total)
	}
	switch rapid.IntRange(0, 5).Draw(rt, "planclass") {
	case 0:
		c.Plan = []int{1}
		labels = append(labels, "plan=1byte")
	case 1:
		c.Plan = []int{1 << 30}
		labels = append(labels, "plan=coalesced")
	case 2:
		c.Plan = []int{rapid.IntRange(2, 9).Draw(rt, "chunk")}
		labels = append(labels, "plan=small-fixed")
	default:
		c.Plan = rapid.SliceOfN(rapid.IntRange(1, 700), 1, 12).Draw(rt, "plan")
		labels = append(labels, "plan=random")
	}
	c.EOFWith = rapid.IntRange(0, 3).Draw(rt, "eofwith") == 0
	if nmsg > 1 && rapid.IntRange(0, 3).Draw(rt, "wrongtargets") == 0 {
		c.WrongTarget = make([]bool, nmsg)
		for i := 0; i < nmsg-1; i++ {
			c.WrongTarget[i] = rapid.Bool().Draw(rt, "wrongtarget")
		}
		labels = append(labels, "wrong-target-then-more")
	}
	nt := len(c.Plan) != 1 || c.Plan[0] != 1<<30
	switch rapid.IntRange(0, 7).Draw(rt, "special") {
	case 0, 1: // truncation
		c.Truncate = rapid.IntRange(0, total-1).Draw(rt, "truncate")
		if rapid.Bool().Draw(rt, "truncNearBoundary") {
			b := bounds[rapid.IntRange(0, len(bounds)-1).Draw(rt, "tb")]
			c.Truncate = b - rapid.IntRange(1, 9).Draw(rt, "td")
			if c.Truncate < 0 {
				c.Truncate = 0
			}
		}
		c.EOFWith = c.EOFWith && false
		nt = true
		labels = append(labels, "truncated")
	case 2, 3: // size limit with an announced length around it
		c.Max = rapid.SampledFrom([]int{64, 4096, 1 << 20}).Draw(rt, "max")
		// keep real messages within the limit
		for i := range c.Msgs {
			if len(c.Msgs[i])/2 > c.Max {
				c.Msgs[i] = hex.EncodeToString(sizedMessage(c.Max-8*rapid.IntRange(0, 2).Draw(rt, "fit"), 7))
				labels = append(labels, "size=max-ish")
			}
		}
		switch rapid.IntRange(0, 3).Draw(rt, "annclass") {
		case 0:
			c.Announce = int64(c.Max) - 8 + int64(8*rapid.IntRange(-2, 2).Draw(rt, "annd"))
		case 1:
			c.Announce = int64(c.Max) + int64(rapid.IntRange(-16, 16).Draw(rt, "annd"))
		case 2:
			c.Announce = rapid.SampledFrom([]int64{2 * int64(c.Max), 1 << 31, 1<<32 - 8, 1<<32 - 1, 1<<31 - 1}).Draw(rt, "annbig")
		default:
			c.Announce = rapid.Int64Range(1, 1<<32-1).Draw(rt, "ann")
		}
		if c.Announce <= 0 {
			c.Announce = 8
		}
		nt = true
		labels = append(labels, "announce")
	case 4: // a message of exactly the limit
		c.Max = rapid.SampledFrom([]int{64, 4096, 1 << 20}).Draw(rt, "max")
		for i := range c.Msgs {
			if len(c.Msgs[i])/2 > c.Max {
				c.Msgs[i] = hex.EncodeToString(sizedMessage(16, 1))
			}
		}
		c.Msgs = append(c.Msgs, hex.EncodeToString(sizedMessage(c.Max, 9)))
		nt = true
		labels = append(labels, "size=max-exactly")
	}
	return c, nt, labels
}

func TestC07Framing(t *testing.T) {
	const name = "TestC07Framing"
	rec := evid.New("C07", name, "sequences of 1..5 messages (generic trees, KMIP requests, sizes 8 B..320 KiB biased around the 512-byte initial buffer and the limit) x read plans "+
		"(1-byte, fixed small, random chunk lists spanning boundaries, fully coalesced, last bytes delivered together with io.EOF) x truncation offsets x announced lengths around max in {64,4096,1MiB}; some messages received into a Go value that cannot hold them (the following ones must still arrive); oracle: each message equals the sent one when returned and still does after all later Recv calls, exact consumption, clean errors (no panic), an oversized announcement rejected without reading, requesting or allocating the announced amount; "+
		"non-trivial = reads are split (not fully coalesced) or the case is a truncation / size-limit case; distinct by case JSON").Attach(t)
	if rp := evid.LoadReplay(name); rp != nil {
		var c c07Case
		if err := json.Unmarshal(rp.Case, &c); err != nil {
			t.Fatal(err)
		}
		if sig, err := c07Run(c); err != nil {
			t.Fatalf("VERIF-FAIL property=C07 test=%s sig=%s replay=: %v", name, sig, err)
		}
		return
	}
	rapid.Check(t, func(rt *rapid.T) {
		c, nt, labels := drawC07(rt)
		key, _ := json.Marshal(c)
		rec.Case(nt, key, labels...)
		if nt && rec.WantSample() && len(key) < 1500 {
			rec.Sample(c)
		}
		if sig, err := c07Run(c); err != nil {
			rec.Fail(rt, name, sig, err, c)
		}
	})
}

// TestC07KmipTarget: Recv into the message types themselves (the shape the client and server use).
func TestC07KmipTarget(t *testing.T) {
	const name = "TestC07KmipTarget"
	rec := evid.New("C07", name, "two KMIP messages back to back, received with Stream.Recv into *RequestMessage / *ResponseMessage under a random read plan; "+
		"oracle: equal by content to the generated messages (the first one again after the second was received), exact consumption; non-trivial = plan splits inside the first message; distinct by bytes+plan").Attach(t)
	rapid.Check(t, func(rt *rapid.T) {
		m1, fresh1, _, _ := drawMessage(rt, gen.MsgOpts{})
		m2 := gen.Request(rt, gen.MsgOpts{})
		b1, b2 := ttlv.MarshalTTLV(m1), ttlv.MarshalTTLV(m2)
		plan := rapid.SliceOfN(rapid.IntRange(1, 300), 1, 8).Draw(rt, "plan")
		rd := &planReader{data: append(append([]byte{}, b1...), b2...), plan: plan}
		st := ttlv.NewStream(rd, 1<<20)
		key := append(append([]byte{}, rd.data...), fmt.Sprint(plan)...)
		rec.Case(plan[0] < len(b1), key)
		g1 := fresh1()
		if err := safely(func() error { return st.Recv(g1) }); err != nil {
			rec.Fail(rt, name, "recv-fails", err, map[string]any{"stream": hex.EncodeToString(rd.data), "plan": plan})
			return
		}
		if d := gen.Diff(m1, g1); d != "" || rd.pos != len(b1) {
			rec.Fail(rt, name, "recv-differs", fmt.Errorf("first message: diff %q, consumed %d of %d", d, rd.pos, len(b1)), map[string]any{"stream": hex.EncodeToString(rd.data), "plan": plan})
			return
		}
		g2 := &kmip.RequestMessage{}
		if err := safely(func() error { return st.Recv(g2) }); err != nil {
			rec.Fail(rt, name, "recv-fails", err, map[string]any{"stream": hex.EncodeToString(rd.data), "plan": plan})
			return
		}
		if d := gen.Diff(m2, g2); d != "" || rd.pos != len(rd.data) {
			rec.Fail(rt, name, "recv-differs", fmt.Errorf("second message: diff %q, consumed %d of %d", d, rd.pos, len(rd.data)), map[string]any{"stream": hex.EncodeToString(rd.data), "plan": plan})
			return
		}
		if d := gen.Diff(m1, g1); d != "" {
			rec.Fail(rt, name, "returned-message-changed-later", fmt.Errorf("the first message was returned correctly but changed when the second one was received: %s", d), map[string]any{"stream": hex.EncodeToString(rd.data), "plan": plan})
		}
	})
}
