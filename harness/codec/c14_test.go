package codec

import (
	"bytes"
	"context"
	"crypto"
	"crypto/ecdsa"
	"crypto/elliptic"
	"crypto/rsa"
	"crypto/x509"
	"encoding/hex"
	"encoding/json"
	"encoding/pem"
	"fmt"
	"math/big"
	"net"
	"reflect"
	"sync"
	"testing"

	kmip "github.com/ovh/kmip-go"
	"github.com/ovh/kmip-go/kmipclient"
	"github.com/ovh/kmip-go/payloads"
	"github.com/ovh/kmip-go/ttlv"
	"pgregory.net/rapid"

	"verif/harness/evid"
	"verif/harness/gen"
	"verif/harness/refwalk"
	"verif/harness/ttlvref"
)

var (
	c14Clients     map[string]*kmipclient.Client
	c14ClientsOnce sync.Once
)

// versionClient returns a client pinned to a protocol version (no network: the peer end of the pipe is never used).
func versionClient(v kmip.ProtocolVersion) *kmipclient.Client {
	c14ClientsOnce.Do(func() {
		c14Clients = map[string]*kmipclient.Client{}
		for _, ver := range gen.Versions {
			ver := ver
			c, err := kmipclient.Dial("verif", kmipclient.EnforceVersion(ver), kmipclient.WithDialerUnsafe(func(ctx context.Context) (net.Conn, error) {
				a, _ := net.Pipe()
				return a, nil
			}))
			if err != nil {
				panic(err)
			}
			c14Clients[ver.String()] = c
		}
	})
	return c14Clients[v.String()]
}

// nextPrime finds the first probable prime >= the odd number built from the drawn bytes.
func nextPrime(raw []byte, bits int) *big.Int {
	x := new(big.Int).SetBytes(raw)
	// force exact bit length and the two top bits (so that p*q has 2*bits bits), and oddness
	x.SetBit(x, bits-1, 1)
	x.SetBit(x, bits-2, 1)
	for i := bits; i < x.BitLen()+8; i++ {
		x.SetBit(x, i, 0)
	}
	x.SetBit(x, 0, 1)
	two := big.NewInt(2)
	for !x.ProbablyPrime(12) {
		x.Add(x, two)
	}
	return x
}

func drawRSA(rt *rapid.T) (*rsa.PrivateKey, string) {
	// modulus sizes 1024..2048 incl. odd sizes (prime sizes need not be equal)
	pbits := rapid.SampledFrom([]int{512, 513, 520, 600, 768, 1024}).Draw(rt, "pbits")
	qbits := pbits
	if rapid.Bool().Draw(rt, "uneven") {
		qbits = pbits + rapid.SampledFrom([]int{1, 7, 8, 9}).Draw(rt, "qextra")
	}
	e := rapid.SampledFrom([]int{65537, 3, 17, 257}).Draw(rt, "e")
	for attempt := 0; ; attempt++ {
		p := nextPrime(rapid.SliceOfN(rapid.Byte(), pbits/8+1, pbits/8+1).Draw(rt, "p"), pbits)
		q := nextPrime(rapid.SliceOfN(rapid.Byte(), qbits/8+1, qbits/8+1).Draw(rt, "q"), qbits)
		if p.Cmp(q) == 0 {
			continue
		}
		one := big.NewInt(1)
		phi := new(big.Int).Mul(new(big.Int).Sub(p, one), new(big.Int).Sub(q, one))
		E := big.NewInt(int64(e))
		if new(big.Int).GCD(nil, nil, E, phi).Cmp(one) != 0 {
			if attempt > 6 {
				e = 65537
			}
			continue
		}
		d := new(big.Int).ModInverse(E, phi)
		key := &rsa.PrivateKey{PublicKey: rsa.PublicKey{N: new(big.Int).Mul(p, q), E: e}, D: d, Primes: []*big.Int{p, q}}
		if err := key.Validate(); err != nil {
			continue
		}
		// one key in three is handed over as built (N, E, D, P, Q): the CRT values are optional, in Go and in KMIP
		if rapid.IntRange(0, 2).Draw(rt, "precompute") != 0 {
			key.Precompute()
			return key, fmt.Sprintf("rsa-%d", key.N.BitLen())
		}
		return key, fmt.Sprintf("rsa-%d-no-crt-values", key.N.BitLen())
	}
}

// drawRSA3 builds an RSA key with three prime factors (PKCS#1 "multi-prime"; crypto/rsa and the PKCS#1 / PKCS#8 DER forms
// carry such keys, the KMIP transparent form has room for two primes only). Returns nil when the standard library itself
// does not take the key through PKCS#1 unchanged (then there is nothing to hold the library under test to).
func drawRSA3(rt *rapid.T) (*rsa.PrivateKey, string) {
	bits := rapid.SampledFrom([]int{400, 512, 513}).Draw(rt, "p3bits")
	for attempt := 0; attempt < 8; attempt++ {
		var ps []*big.Int
		for i := 0; i < 3; i++ {
			ps = append(ps, nextPrime(rapid.SliceOfN(rapid.Byte(), bits/8+1, bits/8+1).Draw(rt, "p3"), bits+i))
		}
		if ps[0].Cmp(ps[1]) == 0 || ps[1].Cmp(ps[2]) == 0 || ps[0].Cmp(ps[2]) == 0 {
			continue
		}
		one := big.NewInt(1)
		phi, n := big.NewInt(1), big.NewInt(1)
		for _, p := range ps {
			phi.Mul(phi, new(big.Int).Sub(p, one))
			n.Mul(n, p)
		}
		E := big.NewInt(65537)
		if new(big.Int).GCD(nil, nil, E, phi).Cmp(one) != 0 {
			continue
		}
		key := &rsa.PrivateKey{PublicKey: rsa.PublicKey{N: n, E: 65537}, D: new(big.Int).ModInverse(E, phi), Primes: ps}
		ok := false
		_ = safely(func() error {
			if key.Validate() != nil {
				return nil
			}
			key.Precompute()
			back, err := x509.ParsePKCS1PrivateKey(x509.MarshalPKCS1PrivateKey(key))
			ok = err == nil && key.Equal(back)
			return nil
		})
		if ok {
			return key, fmt.Sprintf("rsa-%d-three-primes", n.BitLen())
		}
	}
	return nil, ""
}

var curves = []elliptic.Curve{elliptic.P224(), elliptic.P256(), elliptic.P384(), elliptic.P521()}

func drawECDSA(rt *rapid.T) (*ecdsa.PrivateKey, string) {
	c := rapid.SampledFrom(curves).Draw(rt, "curve")
	n := c.Params().N
	var d *big.Int
	switch rapid.IntRange(0, 5).Draw(rt, "scalarclass") {
	case 5:
		// scalars of a few bytes: the range in which text encodings switch between number forms (2^31, 2^32, 2^52, 2^53, 2^63)
		if rapid.Bool().Draw(rt, "atboundary") {
			b := rapid.SampledFrom([]int64{1 << 15, 1 << 16, 1 << 31, 1 << 32, 1 << 52, 1 << 53, 1<<63 - 1}).Draw(rt, "boundary")
			d = big.NewInt(b + int64(rapid.IntRange(-2, 2).Draw(rt, "off")))
			if d.Sign() <= 0 {
				d = big.NewInt(b)
			}
		} else {
			d = big.NewInt(rapid.Int64Range(301, 1<<62).Draw(rt, "small"))
			d.Rsh(d, uint(rapid.IntRange(0, 40).Draw(rt, "shift")))
			if d.Sign() == 0 {
				d.SetInt64(301)
			}
		}
	case 0:
		d = big.NewInt(rapid.Int64Range(1, 300).Draw(rt, "tiny"))
	case 1:
		d = new(big.Int).Sub(n, big.NewInt(rapid.Int64Range(1, 300).Draw(rt, "nearn")))
	case 2: // top bit of the top byte set / leading zero bytes
		raw := rapid.SliceOfN(rapid.Byte(), (n.BitLen()+7)/8, (n.BitLen()+7)/8).Draw(rt, "d")
		raw[0], raw[1] = 0, 0x80|raw[1]
		d = new(big.Int).SetBytes(raw)
	default:
		raw := rapid.SliceOfN(rapid.Byte(), (n.BitLen()+7)/8+8, (n.BitLen()+7)/8+8).Draw(rt, "d")
		d = new(big.Int).SetBytes(raw)
	}
	d.Mod(d, new(big.Int).Sub(n, big.NewInt(1)))
	d.Add(d, big.NewInt(1))
	key := &ecdsa.PrivateKey{PublicKey: ecdsa.PublicKey{Curve: c}, D: d}
	key.X, key.Y = c.ScalarBaseMult(d.Bytes())
	label := "ecdsa-" + c.Params().Name
	if rapid.IntRange(0, 3).Draw(rt, "shortcoord") == 0 {
		// one key in four has a public point with a coordinate that is shorter than the field (leading zero byte; about
		// one random key in 128 has): walk the scalar upwards to the next such point
		size := (c.Params().BitSize + 7) / 8
		for i := 0; i < 2000; i++ {
			if len(key.X.Bytes()) < size || len(key.Y.Bytes()) < size {
				label += "-short-coordinate"
				break
			}
			d.Add(d, big.NewInt(1))
			if d.Cmp(n) >= 0 {
				d.SetInt64(1)
			}
			key.X, key.Y = c.ScalarBaseMult(d.Bytes())
		}
	}
	return key, label
}

type c14Case struct {
	Key      string `json:"key"`
	KeyDER   string `json:"key_pkcs8_hex,omitempty"`
	Format   string `json:"format"`
	Version  string `json:"version"`
	Encoding string `json:"encoding"`
	Public   bool   `json:"public_half"`
}

// transport sends the registered object through request and response messages in the given encoding
// and returns the Get response payload the receiver sees.
func transport(reg *payloads.RegisterRequestPayload, ver kmip.ProtocolVersion, enc string) (*payloads.GetResponsePayload, error) {
	req := kmip.NewRequestMessage(ver, reg)
	var req2 kmip.RequestMessage
	if err := safely(func() error { return libUnmarshal(enc, append([]byte{}, libMarshal(enc, &req)...), &req2) }); err != nil {
		return nil, fmt.Errorf("register request does not survive %s: %w", enc, err)
	}
	if len(req2.BatchItem) != 1 {
		return nil, fmt.Errorf("register request lost its batch item")
	}
	got, ok := req2.BatchItem[0].RequestPayload.(*payloads.RegisterRequestPayload)
	if !ok || got.Object == nil {
		return nil, fmt.Errorf("register request payload lost its object")
	}
	resp := kmip.ResponseMessage{Header: kmip.ResponseHeader{ProtocolVersion: ver, BatchCount: 1},
		BatchItem: []kmip.ResponseBatchItem{{Operation: kmip.OperationGet, ResponsePayload: &payloads.GetResponsePayload{ObjectType: got.ObjectType, UniqueIdentifier: "id-1", Object: got.Object}}}}
	var resp2 kmip.ResponseMessage
	if enc == "binary" {
		// as on a connection: the response is received from a TTLV stream, and the next message on the same stream
		// (other bytes of the same size) arrives before the caller gets round to extracting the key
		b1 := ttlv.MarshalTTLV(&resp)
		b2 := sizedMessage(len(b1), 0xA5)
		st := ttlv.NewStream(&planReader{data: append(append([]byte{}, b1...), b2...), plan: []int{len(b1)/2 + 1}}, 1<<20)
		if err := safely(func() error { return st.Recv(&resp2) }); err != nil {
			return nil, fmt.Errorf("get response does not survive the binary stream: %w", err)
		}
		var next ttlv.Value
		if err := safely(func() error { return st.Recv(&next) }); err != nil {
			return nil, fmt.Errorf("the message following the get response is not received: %w", err)
		}
	} else if err := safely(func() error { return libUnmarshal(enc, append([]byte{}, libMarshal(enc, &resp)...), &resp2) }); err != nil {
		return nil, fmt.Errorf("get response does not survive %s: %w", enc, err)
	}
	if len(resp2.BatchItem) != 1 {
		return nil, fmt.Errorf("get response lost its batch item")
	}
	out, ok := resp2.BatchItem[0].ResponsePayload.(*payloads.GetResponsePayload)
	if !ok {
		return nil, fmt.Errorf("get response payload has type %T", resp2.BatchItem[0].ResponsePayload)
	}
	return out, nil
}

type equaler interface{ Equal(x crypto.PublicKey) bool }
type privEqualer interface {
	Equal(x crypto.PrivateKey) bool
}

func TestC14Keys(t *testing.T) {
	const name = "TestC14Keys"
	rec := evid.New("C14", name, "keys built inside the generator from rapid-drawn bytes: RSA from two generated primes (modulus 1024..2064 bits incl. uneven prime sizes, e in {3,17,257,65537}), ECDSA scalars on P-224/256/384/521 (tiny, a few bytes long around 2^31 / 2^32 / 2^52 / 2^53 / 2^63, near n, leading zero bytes/top bit, random; one key in four moved to the next point with a coordinate shorter than the field) "+
		"x every register format (PKCS#1, PKCS#8, SEC1, X.509, Transparent, and 1 in 4 any combination of the format flags) x private/public half x versions 1.0..1.4 x {binary, XML, JSON}; pipeline: client.Register().WithKeyFormat(f).<builder>(key) -> request message -> encode/decode -> Get response -> encode/decode (binary: received from a TTLV stream on which another message follows before the key is extracted) -> accessors; "+
		"oracle: key.Equal(original) for every accessor incl. the PEM ones, asked in a drawn order and the first one once more at the end; non-trivial = transparent format or XML/JSON; distinct by (key, format, version, encoding, half)").Attach(t)
	rapid.Check(t, func(rt *rapid.T) {
		ver := rapid.SampledFrom(gen.Versions).Draw(rt, "version")
		enc := rapid.SampledFrom(encodings).Draw(rt, "encoding")
		public := rapid.Bool().Draw(rt, "public")
		isRSA := rapid.Bool().Draw(rt, "rsa")
		usage := kmip.CryptographicUsageSign | kmip.CryptographicUsageVerify
		cl := versionClient(ver)
		var priv crypto.PrivateKey
		var pub crypto.PublicKey
		var label string
		var formats []kmipclient.KeyFormat
		threePrimes := false
		fname := map[kmipclient.KeyFormat]string{kmipclient.PKCS1: "PKCS1", kmipclient.PKCS8: "PKCS8", kmipclient.SEC1: "SEC1", kmipclient.X509: "X509", kmipclient.Transparent: "Transparent", 0: "default"}
		if isRSA {
			k, l := drawRSA(rt)
			if !public && rapid.IntRange(0, 7).Draw(rt, "threeprimes") == 0 {
				if k3, l3 := drawRSA3(rt); k3 != nil {
					k, l, threePrimes = k3, l3, true
				}
			}
			priv, pub, label = k, &k.PublicKey, l
			if public {
				formats = []kmipclient.KeyFormat{0, kmipclient.PKCS1, kmipclient.X509, kmipclient.Transparent}
			} else {
				formats = []kmipclient.KeyFormat{0, kmipclient.PKCS1, kmipclient.PKCS8, kmipclient.Transparent}
			}
		} else {
			k, l := drawECDSA(rt)
			priv, pub, label = k, &k.PublicKey, l
			if public {
				formats = []kmipclient.KeyFormat{0, kmipclient.X509, kmipclient.Transparent}
			} else {
				formats = []kmipclient.KeyFormat{0, kmipclient.SEC1, kmipclient.PKCS8, kmipclient.Transparent}
			}
		}
		f := rapid.SampledFrom(formats).Draw(rt, "format")
		if rapid.IntRange(0, 3).Draw(rt, "combined") == 0 {
			// KeyFormat is a bit set ("WithKeyFormat(PKCS8 | X509)"): any combination of the flags, the library picks among them
			f = kmipclient.KeyFormat(rapid.IntRange(1, 63).Draw(rt, "formatmask"))
		}
		if _, ok := fname[f]; !ok {
			fname[f] = fmt.Sprintf("mask-0x%02x", uint8(f))
		}
		// (the rendering for the evidence is made from a copy: marshalling precomputes the CRT values of the key it is given)
		var forDER crypto.PrivateKey = priv
		if rk, ok := priv.(*rsa.PrivateKey); ok {
			forDER = &rsa.PrivateKey{PublicKey: rk.PublicKey, D: rk.D, Primes: append([]*big.Int{}, rk.Primes...)}
		}
		der, _ := x509.MarshalPKCS8PrivateKey(forDER)
		c := c14Case{Key: label, KeyDER: hex.EncodeToString(der), Format: fname[f], Version: ver.String(), Encoding: enc, Public: public}
		nt := f == kmipclient.Transparent || enc != "binary"
		rec.Case(nt, []byte(fmt.Sprintf("%s|%s|%s|%s|%v", c.KeyDER, c.Format, c.Version, enc, public)), "key="+label, "format="+c.Format, "enc="+enc, "version="+ver.String(), fmt.Sprintf("public=%v", public))
		if nt && rec.WantSample() {
			s := c
			s.KeyDER = s.KeyDER[:40] + "..."
			rec.Sample(s)
		}
		fail := func(sig string, err error) { rec.Fail(rt, name, sig+":"+c.Format, err, c) }
		var ex kmipclient.ExecRegister
		if err := safely(func() error {
			w := cl.Register().WithKeyFormat(f)
			if public {
				ex = w.PublicKey(pub, usage)
			} else {
				ex = w.PrivateKey(priv, usage)
			}
			return nil
		}); err != nil {
			fail("builder-panics", err)
			return
		}
		pl, err := ex.Build()
		if err != nil && threePrimes && f&kmipclient.Transparent != 0 {
			// the transparent form has room for two primes: refusing the key is right, registering something else is not
			rec.Label("three-prime-key-refused-for-transparent-format")
			return
		}
		if err != nil {
			fail("builder-fails", err)
			return
		}
		get, err := transport(pl.(*payloads.RegisterRequestPayload), ver, enc)
		if err != nil {
			fail("transport", err)
			return
		}
		check := func(what string, f func() (any, error)) bool {
			var got any
			if err := safely(func() error { var e error; got, e = f(); return e }); err != nil {
				fail("accessor-"+what, fmt.Errorf("%s: %w", what, err))
				return false
			}
			ok := false
			if public {
				if e, isEq := pub.(equaler); isEq {
					ok = e.Equal(got)
				}
			} else if e, isEq := priv.(privEqualer); isEq {
				ok = e.Equal(got)
			}
			if !ok {
				fail("key-differs-"+what, fmt.Errorf("%s returns a key that is not equal to the original", what))
			}
			return ok
		}
		parsePEM := func(s string, private bool) (any, error) {
			blk, _ := pem.Decode([]byte(s))
			if blk == nil {
				return nil, fmt.Errorf("no PEM block")
			}
			if private {
				return x509.ParsePKCS8PrivateKey(blk.Bytes)
			}
			return x509.ParsePKIXPublicKey(blk.Bytes)
		}
		// the accessors are asked in a drawn order, and the first one again at the end: what one of them returned does not
		// depend on which ones were asked before
		type acc struct {
			what string
			f    func() (any, error)
		}
		var accs []acc
		if public {
			accs = append(accs, acc{"PublicKey", func() (any, error) { return get.PublicKey() }})
			if isRSA {
				accs = append(accs, acc{"RsaPublicKey", func() (any, error) { return get.RsaPublicKey() }})
			} else {
				accs = append(accs, acc{"EcdsaPublicKey", func() (any, error) { return get.EcdsaPublicKey() }})
			}
			accs = append(accs, acc{"PemPublicKey", func() (any, error) {
				s, err := get.PemPublicKey()
				if err != nil {
					return nil, err
				}
				return parsePEM(s, false)
			}})
		} else {
			accs = append(accs, acc{"PrivateKey", func() (any, error) { return get.PrivateKey() }})
			if isRSA {
				accs = append(accs, acc{"RsaPrivateKey", func() (any, error) { return get.RsaPrivateKey() }})
			} else {
				accs = append(accs, acc{"EcdsaPrivateKey", func() (any, error) { return get.EcdsaPrivateKey() }})
			}
			accs = append(accs, acc{"PemPrivateKey", func() (any, error) {
				s, err := get.PemPrivateKey()
				if err != nil {
					return nil, err
				}
				return parsePEM(s, true)
			}})
		}
		order := rapid.Permutation([]int{0, 1, 2}).Draw(rt, "accessor-order")
		for _, k := range order {
			if !check(accs[k].what, accs[k].f) {
				return
			}
		}
		check(accs[order[0]].what+"(again)", accs[order[0]].f)
	})
}

func TestC14Symmetric(t *testing.T) {
	const name = "TestC14Symmetric"
	rec := evid.New("C14", name, "symmetric keys (registered for AES, 3DES, DES, HMAC-SHA256, Blowfish, ChaCha20 or RC4, with drawn lengths or the lengths those algorithms use) and secrets of 0..64 drawn bytes x {RAW, Transparent} x versions x encodings through the same pipeline; oracle: byte equality; "+
		"non-trivial = transparent or text encoding; distinct by (bytes, format, version, encoding)").Attach(t)
	rapid.Check(t, func(rt *rapid.T) {
		ver := rapid.SampledFrom(gen.Versions).Draw(rt, "version")
		enc := rapid.SampledFrom(encodings).Draw(rt, "encoding")
		val := gen.Bytes(rt, "key", 64)
		secret := rapid.Bool().Draw(rt, "secret")
		// the algorithm a symmetric key is registered for, with a length that algorithm uses one time in two
		algs := []kmip.CryptographicAlgorithm{kmip.CryptographicAlgorithmAES, kmip.CryptographicAlgorithmAES, kmip.CryptographicAlgorithm3DES, kmip.CryptographicAlgorithmDES,
			kmip.CryptographicAlgorithmHMACSHA256, kmip.CryptographicAlgorithmBlowfish, kmip.CryptographicAlgorithmChaCha20, kmip.CryptographicAlgorithmRC4}
		alg := rapid.SampledFrom(algs).Draw(rt, "algorithm")
		if !secret && rapid.Bool().Draw(rt, "usual-length") {
			n := map[kmip.CryptographicAlgorithm][]int{kmip.CryptographicAlgorithmAES: {16, 24, 32}, kmip.CryptographicAlgorithm3DES: {16, 24}, kmip.CryptographicAlgorithmDES: {8},
				kmip.CryptographicAlgorithmChaCha20: {32}}[alg]
			if n != nil {
				val = rapid.SliceOfN(rapid.Byte(), 1, 1).Draw(rt, "fill")
				val = bytes.Repeat(val, rapid.SampledFrom(n).Draw(rt, "usual"))
				for i := range val {
					val[i] += byte(i * 7)
				}
			}
		}
		f := rapid.SampledFrom([]kmipclient.KeyFormat{0, kmipclient.RAW, kmipclient.Transparent}).Draw(rt, "format")
		cl := versionClient(ver)
		c := map[string]any{"bytes": hex.EncodeToString(val), "format": int(f), "version": ver.String(), "encoding": enc, "secret": secret, "algorithm": ttlv.EnumStr(alg)}
		rec.Case(f == kmipclient.Transparent || enc != "binary", []byte(fmt.Sprint(c)), "enc="+enc, fmt.Sprintf("len=%d", len(val)), "algorithm="+ttlv.EnumStr(alg))
		var ex kmipclient.ExecRegister
		if err := safely(func() error {
			if secret {
				ex = cl.Register().WithKeyFormat(f).Secret(kmip.SecretDataTypePassword, val)
			} else {
				ex = cl.Register().WithKeyFormat(f).SymmetricKey(alg, kmip.CryptographicUsageEncrypt, val)
			}
			return nil
		}); err != nil {
			rec.Fail(rt, name, "builder-panics", err, c)
			return
		}
		pl, err := ex.Build()
		if err != nil {
			rec.Fail(rt, name, "builder-fails", err, c)
			return
		}
		get, err := transport(pl.(*payloads.RegisterRequestPayload), ver, enc)
		if err != nil {
			rec.Fail(rt, name, "transport", err, c)
			return
		}
		var got []byte
		if err := safely(func() error {
			var e error
			if secret {
				got, e = get.Secret()
			} else {
				got, e = get.SymmetricKey()
			}
			return e
		}); err != nil {
			rec.Fail(rt, name, "accessor-fails", err, c)
			return
		}
		if !bytes.Equal(got, val) {
			rec.Fail(rt, name, "bytes-differ", fmt.Errorf("extracted %x, registered %x", got, val), c)
		}
	})
}

// callAccessors invokes every accessor of a Get response payload and of its object; returns the first panic.
func callAccessors(get *payloads.GetResponsePayload) (what string, err error) {
	try := func(name string, f func()) {
		if err != nil {
			return
		}
		if e := safely(func() error { f(); return nil }); e != nil {
			what, err = name, e
		}
	}
	rv := reflect.ValueOf(get)
	for i := 0; i < rv.NumMethod(); i++ {
		m := rv.Type().Method(i)
		if m.Type.NumIn() == 1 && m.Type.NumOut() == 2 {
			mi := i
			try("GetResponsePayload."+m.Name, func() { rv.Method(mi).Call(nil) })
		}
	}
	if get.Object == nil {
		return
	}
	ov := reflect.ValueOf(get.Object)
	for i := 0; i < ov.NumMethod(); i++ {
		m := ov.Type().Method(i)
		if m.Type.NumIn() == 1 && (m.Type.NumOut() == 2 || m.Type.NumOut() == 1) {
			mi := i
			try(ov.Type().Elem().Name()+"."+m.Name, func() { ov.Method(mi).Call(nil) })
		}
	}
	// key block helpers
	if kbf := ov.Elem().FieldByName("KeyBlock"); kbf.IsValid() {
		kb := kbf.Addr().Interface().(*kmip.KeyBlock)
		try("KeyBlock.GetMaterial", func() { _, _ = kb.GetMaterial() })
		try("KeyBlock.GetBytes", func() { _, _ = kb.GetBytes() })
		try("KeyBlock.GetAttributes", func() { _ = kb.GetAttributes() })
	}
	return
}

func TestC14Accessors(t *testing.T) {
	const name = "TestC14Accessors"
	rec := evid.New("C14", name, "Get response payloads with any generated managed object (9 types, 13 key formats, wrapped / absent key values), additionally with 0..3 random sub-elements of the object removed, given another enumeration value, or emptied (zero-length string, zero number) at tree level; "+
		"every payload that the decoder accepts has all its accessors called (GetResponsePayload.*, object methods, KeyBlock helpers); oracle: returns value or error, never panics; "+
		"non-trivial = an element was removed or the key value is wrapped/absent; distinct by encoded payload").Attach(t)
	rapid.Check(t, func(rt *rapid.T) {
		g := gen.NewG(rt, gen.MsgOpts{})
		obj := g.Object()
		supportedCurve(rt, obj)
		pl := &payloads.GetResponsePayload{ObjectType: obj.ObjectType(), UniqueIdentifier: "id", Object: obj}
		w := &refwalk.Walker{}
		ns, err := w.Emit(tagResponsePayload, reflect.ValueOf(pl))
		if err != nil || len(ns) != 1 {
			rt.Fatalf("harness: %v", err)
		}
		tree := ns[0]
		removed := 0
		k := rapid.IntRange(0, 3).Draw(rt, "removals")
		for i := 0; i < k; i++ {
			var structs []*ttlvref.Node
			tree.Walk(func(n *ttlvref.Node, d int) {
				if n.Type == ttlvref.Structure && len(n.Kids) > 0 && d >= 1 {
					structs = append(structs, n)
				}
			})
			if len(structs) == 0 {
				break
			}
			if rapid.IntRange(0, 3).Draw(rt, "hollow") == 0 {
				// present but empty: a byte / text string of length 0, a zero number (decodable, carries no material)
				var leaves []*ttlvref.Node
				tree.Walk(func(n *ttlvref.Node, d int) {
					switch n.Type {
					case ttlvref.ByteString, ttlvref.TextString, ttlvref.BigInteger, ttlvref.Integer, ttlvref.LongInteger:
						if d >= 2 {
							leaves = append(leaves, n)
						}
					}
				})
				if len(leaves) > 0 {
					l := leaves[rapid.IntRange(0, len(leaves)-1).Draw(rt, "leaf")]
					l.B, l.I = nil, 0
					if l.Type == ttlvref.BigInteger {
						l.Big = new(big.Int)
					}
					removed++
					continue
				}
			}
			s := structs[rapid.IntRange(0, len(structs)-1).Draw(rt, "struct")]
			d := rapid.IntRange(0, len(s.Kids)-1).Draw(rt, "kid")
			if rapid.IntRange(0, 3).Draw(rt, "retype") == 0 && s.Kids[d].Type == ttlvref.Enumeration {
				// another registered value (e.g. another key format, curve, compression type)
				s.Kids[d].I = int64(rapid.Uint32Range(1, 0x20).Draw(rt, "enumv"))
			} else {
				s.Kids = append(s.Kids[:d:d], s.Kids[d+1:]...)
			}
			removed++
		}
		raw := ttlvref.Write(tree)
		var got payloads.GetResponsePayload
		derr := safely(func() error {
			dec, err := ttlv.NewTTLVDecoder(raw)
			if err != nil {
				return err
			}
			return dec.TagAny(tagResponsePayload, &got)
		})
		wrappedOrAbsent := false
		tree.Walk(func(n *ttlvref.Node, _ int) {
			if n.Tag == 0x420045 && n.Type == ttlvref.ByteString {
				wrappedOrAbsent = true
			}
		})
		rec.Case(derr == nil && (removed > 0 || wrappedOrAbsent), raw, fmt.Sprintf("decodable=%v", derr == nil), fmt.Sprintf("removed=%d", removed), "object="+reflect.TypeOf(obj).Elem().Name())
		if derr != nil {
			return
		}
		if removed > 0 && rec.WantSample() && tree.Count() < 30 {
			rec.Sample(map[string]any{"payload_tree": tree.String()})
		}
		if what, err := callAccessors(&got); err != nil {
			rec.Fail(rt, name, "accessor-panics:"+what, fmt.Errorf("%s: %w", what, err), map[string]any{"payload_hex": hex.EncodeToString(raw), "payload_tree": tree.String()})
		}
	})
}

// ---------------------------------------------------------------------------
// Pairs of structural deviations, enumerated: "any subset of optional parts missing" is explored at random by
// TestC14Accessors; the combinations that matter are small (an absent optional element together with an empty
// or absent neighbour), so every single deviation and every pair of deviations of one generated object is tried.

// supportedCurve moves a transparent EC key onto one of the four curves the accessors implement (half of the time): with
// a curve drawn from the whole enumeration almost every accessor call ends at "unsupported curve" before it looks at anything else.
func supportedCurve(rt *rapid.T, obj kmip.Object) {
	kbf := reflect.ValueOf(obj).Elem().FieldByName("KeyBlock")
	if !kbf.IsValid() {
		return
	}
	kb := kbf.Addr().Interface().(*kmip.KeyBlock)
	if kb.KeyValue == nil || kb.KeyValue.Plain == nil || !rapid.Bool().Draw(rt, "supported-curve") {
		return
	}
	c := rapid.SampledFrom([]kmip.RecommendedCurve{kmip.RecommendedCurveP_224, kmip.RecommendedCurveP_256, kmip.RecommendedCurveP_384, kmip.RecommendedCurveP_521}).Draw(rt, "curve")
	km := &kb.KeyValue.Plain.KeyMaterial
	if km.TransparentECDSAPublicKey != nil {
		km.TransparentECDSAPublicKey.RecommendedCurve = c
	}
	if km.TransparentECPublicKey != nil {
		km.TransparentECPublicKey.RecommendedCurve = c
	}
	if km.TransparentECDSAPrivateKey != nil {
		km.TransparentECDSAPrivateKey.RecommendedCurve = c
	}
	if km.TransparentECPrivateKey != nil {
		km.TransparentECPrivateKey.RecommendedCurve = c
	}
}

type c14Op struct {
	path   []int
	hollow bool // else: remove
}

func nodeAt(root *ttlvref.Node, path []int) *ttlvref.Node {
	n := root
	for _, i := range path {
		n = n.Kids[i]
	}
	return n
}

func pathLess(a, b []int) bool {
	for i := 0; i < len(a) && i < len(b); i++ {
		if a[i] != b[i] {
			return a[i] < b[i]
		}
	}
	return len(a) < len(b)
}

func isPrefix(a, b []int) bool {
	if len(a) > len(b) {
		return false
	}
	for i := range a {
		if a[i] != b[i] {
			return false
		}
	}
	return true
}

// applyOps returns a deviating copy of the tree (nil if the two operations cannot be combined).
func applyOps(root *ttlvref.Node, ops []c14Op) *ttlvref.Node {
	if len(ops) == 2 && (isPrefix(ops[0].path, ops[1].path) || isPrefix(ops[1].path, ops[0].path)) {
		return nil
	}
	t := root.Clone()
	// removals later in document order first, so that earlier paths stay valid
	ord := append([]c14Op{}, ops...)
	if len(ord) == 2 && pathLess(ord[0].path, ord[1].path) {
		ord[0], ord[1] = ord[1], ord[0]
	}
	for _, op := range ord {
		if op.hollow {
			l := nodeAt(t, op.path)
			l.B, l.I = nil, 0
			if l.Type == ttlvref.BigInteger {
				l.Big = new(big.Int)
			}
			continue
		}
		parent := nodeAt(t, op.path[:len(op.path)-1])
		d := op.path[len(op.path)-1]
		parent.Kids = append(parent.Kids[:d:d], parent.Kids[d+1:]...)
	}
	return t
}

func TestC14AccessorPairs(t *testing.T) {
	const name = "TestC14AccessorPairs"
	rec := evid.New("C14", name, "Get response payloads with a generated managed object (9 types, 13 key formats); for each, EVERY single deviation and EVERY pair of deviations of the object's elements is applied at tree level "+
		"(an element removed; a string emptied or a number zeroed), the payload decoded and, if the decoder accepts it, all accessors called; oracle: value or error, never a panic; "+
		"non-trivial = a decodable payload with two deviations; distinct by encoded payload").Attach(t)
	if rp := evid.LoadReplay(name); rp != nil {
		var c struct {
			Hex string `json:"payload_hex"`
		}
		if err := json.Unmarshal(rp.Case, &c); err != nil {
			t.Fatal(err)
		}
		raw, _ := hex.DecodeString(c.Hex)
		var got payloads.GetResponsePayload
		derr := safely(func() error {
			dec, err := ttlv.NewTTLVDecoder(raw)
			if err != nil {
				return err
			}
			return dec.TagAny(tagResponsePayload, &got)
		})
		if derr == nil {
			if what, err := callAccessors(&got); err != nil {
				t.Fatalf("VERIF-FAIL property=C14 test=%s sig=accessor-panics:%s replay=: %s: %v", name, what, what, err)
			}
		}
		return
	}
	rapid.Check(t, func(rt *rapid.T) {
		g := gen.NewG(rt, gen.MsgOpts{})
		obj := g.Object()
		supportedCurve(rt, obj)
		pl := &payloads.GetResponsePayload{ObjectType: obj.ObjectType(), UniqueIdentifier: "id", Object: obj}
		w := &refwalk.Walker{}
		ns, err := w.Emit(tagResponsePayload, reflect.ValueOf(pl))
		if err != nil || len(ns) != 1 {
			rt.Fatalf("harness: %v", err)
		}
		tree := ns[0]
		// deviations inside the object (third element of the payload) only
		var ops []c14Op
		var walk func(n *ttlvref.Node, path []int)
		walk = func(n *ttlvref.Node, path []int) {
			if len(path) >= 2 {
				ops = append(ops, c14Op{path: append([]int{}, path...)})
				switch n.Type {
				case ttlvref.ByteString, ttlvref.TextString, ttlvref.BigInteger:
					if len(n.B) > 0 || (n.Big != nil && n.Big.Sign() != 0) {
						ops = append(ops, c14Op{path: append([]int{}, path...), hollow: true})
					}
				}
			}
			for i, k := range n.Kids {
				walk(k, append(path, i))
			}
		}
		walk(tree, nil)
		if len(ops) > 60 {
			ops = ops[:60] // attribute-laden objects: the key block comes first
		}
		objName := reflect.TypeOf(obj).Elem().Name()
		try := func(sel []c14Op) bool {
			dev := applyOps(tree, sel)
			if dev == nil {
				return true
			}
			raw := ttlvref.Write(dev)
			var got payloads.GetResponsePayload
			derr := safely(func() error {
				dec, err := ttlv.NewTTLVDecoder(raw)
				if err != nil {
					return err
				}
				return dec.TagAny(tagResponsePayload, &got)
			})
			rec.Eval(1)
			if derr != nil {
				return true
			}
			rec.Case(len(sel) == 2, raw, "object="+objName, fmt.Sprintf("deviations=%d", len(sel)))
			if len(sel) == 2 && rec.WantSample() && dev.Count() < 25 {
				rec.Sample(map[string]any{"payload_tree": dev.String()})
			}
			if what, err := callAccessors(&got); err != nil {
				rec.Fail(rt, name, "accessor-panics:"+what, fmt.Errorf("%s: %w", what, err), map[string]any{"payload_hex": hex.EncodeToString(raw), "payload_tree": dev.String()})
				return false
			}
			return true
		}
		for i := range ops {
			if !try([]c14Op{ops[i]}) {
				return
			}
			for j := i + 1; j < len(ops); j++ {
				if !try([]c14Op{ops[i], ops[j]}) {
					return
				}
			}
		}
	})
}
