package codec

import (
	"bytes"
	"encoding/hex"
	"fmt"
	"sync"
	"testing"

	kmip "github.com/ovh/kmip-go"
	"github.com/ovh/kmip-go/ttlv"
	"pgregory.net/rapid"

	"verif/harness/evid"
	"verif/harness/gen"
)

// TestC20Appended: an encoder appends. Two values written one after the other on the same encoder (a server that batches
// its log records, a test that builds a stream) must come out as the first value's encoding followed by the second
// value's encoding - what the encoder wrote first (its protocol version in particular) is history the second does not
// depend on. The second message's header version is, one time in three, the zero value (a message built by hand
// whose version was never filled in): a version like any other for the gate.
func TestC20Appended(t *testing.T) {
	const name = "TestC20Appended"
	rec := evid.New("C20", name, "pairs (a, b) of generated request / response messages of drawn versions, every optional element populated one time in two, b's header version zeroed one time in three; both written by Any on one encoder without Clear in between, for binary, XML and JSON; "+
		"oracle: the bytes appended by the second call equal b's encoding on a fresh encoder; non-trivial = the two versions differ; distinct by the pair's binary encodings").Attach(t)
	rapid.Check(t, func(rt *rapid.T) {
		draw := func(label string) (any, kmip.ProtocolVersion) {
			o := gen.MsgOpts{Alphabet: "xml", TextSafe: true, PopulateAll: rapid.Bool().Draw(rt, label+"-all"), AllowGated: true}
			if rapid.Bool().Draw(rt, label+"-request") {
				m := gen.Request(rt, o)
				return m, m.Header.ProtocolVersion
			}
			m := gen.Response(rt, o)
			return m, m.Header.ProtocolVersion
		}
		a, va := draw("a")
		b, vb := draw("b")
		if rapid.IntRange(0, 2).Draw(rt, "b-zero-version") == 0 {
			switch m := b.(type) {
			case *kmip.RequestMessage:
				m.Header.ProtocolVersion = kmip.ProtocolVersion{}
			case *kmip.ResponseMessage:
				m.Header.ProtocolVersion = kmip.ProtocolVersion{}
			}
			vb = kmip.ProtocolVersion{}
		}
		var alone [3][]byte
		if err := safely(func() error {
			alone[0], alone[1], alone[2] = append([]byte{}, ttlv.MarshalTTLV(b)...), append([]byte{}, ttlv.MarshalXML(b)...), append([]byte{}, ttlv.MarshalJSON(b)...)
			return nil
		}); err != nil {
			rec.Case(false, []byte(err.Error()), "b-cannot-be-encoded")
			return
		}
		c := map[string]any{"a_version": va.String(), "b_version": vb.String(), "b_binary_alone": hex.EncodeToString(alone[0])}
		rec.Case(va != vb, append(append([]byte{}, ttlv.MarshalTTLV(a)...), alone[0]...), "a="+va.String(), "b="+vb.String())
		if va != vb && rec.WantSample() && len(alone[0]) < 400 {
			rec.Sample(c)
		}
		for i, mk := range []func() ttlv.Encoder{ttlv.NewTTLVEncoder, ttlv.NewXMLEncoder, ttlv.NewJSONEncoder} {
			encName := []string{"binary", "xml", "json"}[i]
			var suffix []byte
			if err := safely(func() error {
				enc := mk()
				enc.Any(a)
				n := len(enc.Bytes())
				enc.Any(b)
				suffix = append([]byte{}, enc.Bytes()[n:]...)
				return nil
			}); err != nil {
				rec.Fail(rt, name, "appended-encode-panics:"+encName, err, c)
				return
			}
			// a payload of b on its own (no header, so no version of its own), written after a and a Clear() made through a copy
			// of the encoder handle (Encoder is a small struct handed around by value): Clear forgets the version too
			var pl any
			plTag := kmip.TagRequestPayload
			if _, isResp := b.(*kmip.ResponseMessage); isResp {
				plTag = kmip.TagResponsePayload
			}
			switch m := b.(type) {
			case *kmip.RequestMessage:
				if len(m.BatchItem) > 0 && m.BatchItem[0].RequestPayload != nil {
					pl = m.BatchItem[0].RequestPayload
				}
			case *kmip.ResponseMessage:
				if len(m.BatchItem) > 0 && m.BatchItem[0].ResponsePayload != nil {
					pl = m.BatchItem[0].ResponsePayload
				}
			}
			if pl != nil {
				var fresh, cleared []byte
				if err := safely(func() error {
					f := mk()
					f.TagAny(plTag, pl)
					fresh = append([]byte{}, f.Bytes()...)
					enc := mk()
					enc.Any(a)
					cp := enc
					cp.Clear()
					enc.TagAny(plTag, pl)
					cleared = append([]byte{}, enc.Bytes()...)
					return nil
				}); err == nil && !bytes.Equal(fresh, cleared) {
					rec.Fail(rt, name, "cleared-encoder-remembers:"+encName, fmt.Errorf("a payload (%T) written on a %s encoder that wrote a message of version %s and was cleared is %d bytes, on a fresh encoder %d bytes", pl, encName, va, len(cleared), len(fresh)), c)
					return
				}
			}
			// (the text encodings may put a separator between two documents: white space is not content)
			if !bytes.Equal(bytes.TrimSpace(suffix), bytes.TrimSpace(alone[i])) {
				rec.Fail(rt, name, "encoding-depends-on-what-the-encoder-wrote-before:"+encName, fmt.Errorf("b (version %s) written after a (version %s) on the same %s encoder is %d bytes, alone %d bytes", vb, va, encName, len(suffix), len(alone[i])), c)
				return
			}
		}
	})
}

// TestC20Versions: messages of different protocol versions encoded at the same time by several goroutines (a server
// with 1.0 and 1.4 clients). The reference bytes are made first, by one goroutine; then 8 goroutines encode the two
// messages alternately, 200 times each, in binary, XML and JSON: every result equals the reference.
func TestC20Versions(t *testing.T) {
	const name = "TestC20Versions"
	rec := evid.New("C20", name, "pairs of generated request / response messages with DIFFERENT header versions, later-version elements left populated (the gate has work to do); reference encodings made sequentially first, then 8 goroutines encode both messages alternately 200 times each in binary, XML and JSON; "+
		"oracle: every concurrent result is byte-identical with the sequential reference; non-trivial = every case (the versions differ by construction); distinct by the pair's reference encodings").Attach(t)
	rapid.Check(t, func(rt *rapid.T) {
		vers := gen.Versions
		ia := rapid.IntRange(0, len(vers)-1).Draw(rt, "version-a")
		ib := rapid.IntRange(0, len(vers)-2).Draw(rt, "version-b")
		if ib >= ia {
			ib++
		}
		draw := func(label string, v kmip.ProtocolVersion) any {
			o := gen.MsgOpts{Alphabet: "xml", TextSafe: true, PopulateAll: rapid.Bool().Draw(rt, label+"-all"), AllowGated: true, ForceVersion: &v}
			if rapid.Bool().Draw(rt, label+"-request") {
				return gen.Request(rt, o)
			}
			return gen.Response(rt, o)
		}
		msgs := []any{draw("a", vers[ia]), draw("b", vers[ib])}
		encs := []func(any) []byte{ttlv.MarshalTTLV, ttlv.MarshalXML, ttlv.MarshalJSON}
		var ref [2][3][]byte
		if err := safely(func() error {
			for i, m := range msgs {
				for k, f := range encs {
					ref[i][k] = append([]byte{}, f(m)...)
				}
			}
			return nil
		}); err != nil {
			rec.Case(false, []byte(err.Error()), "cannot-be-encoded")
			return
		}
		c := map[string]any{"version_a": vers[ia].String(), "version_b": vers[ib].String(), "a_binary": hex.EncodeToString(ref[0][0]), "b_binary": hex.EncodeToString(ref[1][0])}
		rec.Case(true, append(append([]byte{}, ref[0][0]...), ref[1][0]...), "a="+vers[ia].String(), "b="+vers[ib].String())
		if rec.WantSample() && len(ref[0][0])+len(ref[1][0]) < 600 {
			rec.Sample(c)
		}
		var wg sync.WaitGroup
		var mu sync.Mutex
		var bad error
		start := make(chan struct{})
		for g := 0; g < 8; g++ {
			wg.Add(1)
			go func(g int) {
				defer wg.Done()
				<-start
				for it := 0; it < 200; it++ {
					i := (g + it) % 2
					k := (g/2 + it) % 3
					var out []byte
					if err := safely(func() error { out = append([]byte{}, encs[k](msgs[i])...); return nil }); err != nil || !bytes.Equal(out, ref[i][k]) {
						mu.Lock()
						if bad == nil {
							bad = fmt.Errorf("goroutine %d, iteration %d: message %s (version %s) in %s is %d bytes, sequentially %d bytes (%v)", g, it, []string{"a", "b"}[i], []kmip.ProtocolVersion{vers[ia], vers[ib]}[i], []string{"binary", "xml", "json"}[k], len(out), len(ref[i][k]), err)
						}
						mu.Unlock()
						return
					}
				}
			}(g)
		}
		close(start)
		wg.Wait()
		if bad != nil {
			rec.Fail(rt, name, "encoding-depends-on-concurrent-encodes", bad, c)
		}
	})
}
