package codec

import (
	"bytes"
	"encoding/hex"
	"encoding/json"
	"fmt"
	"reflect"
	"testing"

	kmip "github.com/ovh/kmip-go"
	"github.com/ovh/kmip-go/ttlv"
	"pgregory.net/rapid"

	"verif/harness/evid"
	"verif/harness/gen"
	"verif/harness/refwalk"
	"verif/harness/ttlvref"
)

// msgCase is what a failing message case is saved as (the rapid fail file is the exact replay;
// this is the readable form).
type msgCase struct {
	Kind    string `json:"kind"`
	Version string `json:"version"`
	RefHex  string `json:"reference_encoding_hex"`
	RefText string `json:"reference_tree"`
	LibHex  string `json:"library_encoding_hex,omitempty"`
}

func mkMsgCase(kind string, ver kmip.ProtocolVersion, ref *ttlvref.Node, lib []byte) msgCase {
	c := msgCase{Kind: kind, Version: ver.String(), LibHex: hex.EncodeToString(lib)}
	if ref != nil {
		c.RefHex = hex.EncodeToString(ttlvref.Write(ref))
		c.RefText = ref.String()
	}
	return c
}

// drawMessage draws a request or response message; returns the message (pointer), a fresh
// zero value to decode into, and the header version.
func drawMessage(t *rapid.T, o gen.MsgOpts) (msg any, fresh func() any, ver kmip.ProtocolVersion, kind string) {
	// one message in sixteen is made large (its batch items repeated up to 400 times): encodings of tens to hundreds
	// of KiB cross the writers' buffer growth steps with structures open
	large := 0
	if rapid.IntRange(0, 15).Draw(t, "large") == 0 {
		large = rapid.SampledFrom([]int{20, 60, 150, 400}).Draw(t, "repeat")
	}
	if rapid.Bool().Draw(t, "isRequest") {
		m := gen.Request(t, o)
		if n := len(m.BatchItem); large > 0 && n > 0 {
			for i := n; i < large; i++ {
				m.BatchItem = append(m.BatchItem, m.BatchItem[i%n])
			}
			m.Header.BatchCount = int32(len(m.BatchItem))
			if o.Labels != nil {
				o.Labels("large-batch")
			}
		}
		return m, func() any { return &kmip.RequestMessage{} }, m.Header.ProtocolVersion, "request"
	}
	m := gen.Response(t, o)
	if n := len(m.BatchItem); large > 0 && n > 0 {
		for i := n; i < large; i++ {
			m.BatchItem = append(m.BatchItem, m.BatchItem[i%n])
		}
		m.Header.BatchCount = int32(len(m.BatchItem))
		if o.Labels != nil {
			o.Labels("large-batch")
		}
	}
	return m, func() any { return &kmip.ResponseMessage{} }, m.Header.ProtocolVersion, "response"
}

// c01Check runs the C01 relations on one message.
func c01Check(msg any, fresh func() any) (sig string, ref *ttlvref.Node, enc []byte, err error) {
	w := &refwalk.Walker{}
	ref, err = w.Message(msg)
	if err != nil {
		return "harness-refwalk", nil, nil, fmt.Errorf("reference walker: %w", err)
	}
	if err := safely(func() error { enc = ttlv.MarshalTTLV(msg); return nil }); err != nil {
		return "encode-panic", ref, nil, err
	}
	// encoding the same message again gives the same bytes (the encoder does not modify what it is given)
	var again []byte
	if err := safely(func() error { again = ttlv.MarshalTTLV(msg); return nil }); err != nil {
		return "encode-panic", ref, nil, err
	}
	if !bytes.Equal(again, enc) {
		return "encoder-modifies-message", ref, enc, fmt.Errorf("encoding the same message a second time gives %x, the first time %x", again, enc)
	}
	// (1) encoding carries exactly the populated elements
	parsed, perr := ttlvref.Parse(enc, ttlvref.Strict)
	if perr != nil {
		return "encoding-malformed", ref, enc, fmt.Errorf("independent parser rejects the encoding: %w", perr)
	}
	if d := ttlvref.Diff(ref, parsed); d != "" {
		return "encoding-differs-from-populated-elements:" + diffKind(d), ref, enc, fmt.Errorf("encoding does not carry exactly the populated elements (reference vs library): %s", d)
	}
	// (2) decode yields an equal message
	m2 := fresh()
	in := append([]byte{}, enc...)
	if err := safely(func() error { return ttlv.UnmarshalTTLV(in, m2) }); err != nil {
		return "decode-fails:" + errKind(err), ref, enc, fmt.Errorf("decoding the library's own encoding fails: %w", err)
	}
	if d := gen.Diff(msg, m2); d != "" {
		return "decoded-differs:" + pathKind(d), ref, enc, fmt.Errorf("decoded message differs from the original at %s", d)
	}
	// (3) re-encoding is byte identical
	var re []byte
	if err := safely(func() error { re = ttlv.MarshalTTLV(m2); return nil }); err != nil {
		return "reencode-panic", ref, enc, err
	}
	if !bytes.Equal(re, enc) {
		return "reencode-differs", ref, enc, fmt.Errorf("re-encoding differs: %x vs %x", re, enc)
	}
	return "", ref, enc, nil
}

// diffKind / pathKind / errKind reduce a diagnostic to a stable signature fragment
// (tag or field path without indices and values).
func diffKind(d string) string {
	// "/420078[1]/42000F[0]: right has extra child #3 42007F ..."
	i := bytes.IndexByte([]byte(d), ':')
	if i < 0 {
		return "x"
	}
	path := d[:i]
	var out []byte
	skip := false
	for _, c := range []byte(path) {
		if c == '[' {
			skip = true
			continue
		}
		if c == ']' {
			skip = false
			continue
		}
		if !skip {
			out = append(out, c)
		}
	}
	rest := d[i+1:]
	kind := "value"
	switch {
	case bytes.Contains([]byte(rest), []byte("right has extra")):
		kind = "library-adds"
	case bytes.Contains([]byte(rest), []byte("left has extra")):
		kind = "library-drops"
	case bytes.Contains([]byte(rest), []byte("tag ")):
		kind = "tag"
	case bytes.Contains([]byte(rest), []byte("type ")):
		kind = "type"
	}
	// keep only the last two path elements
	parts := bytes.Split(out, []byte("/"))
	if len(parts) > 2 {
		parts = parts[len(parts)-2:]
	}
	return kind + "@" + string(bytes.Join(parts, []byte("/")))
}

func pathKind(d string) string {
	i := bytes.IndexByte([]byte(d), ':')
	if i < 0 {
		return "x"
	}
	var out []byte
	skip := false
	for _, c := range []byte(d[:i]) {
		if c == '[' {
			skip = true
			continue
		}
		if c == ']' {
			skip = false
			continue
		}
		if !skip {
			out = append(out, c)
		}
	}
	parts := bytes.Split(out, []byte("."))
	if len(parts) > 2 {
		parts = parts[len(parts)-2:]
	}
	return string(bytes.Join(parts, []byte(".")))
}

func errKind(err error) string {
	s := err.Error()
	if len(s) > 40 {
		s = s[:40]
	}
	out := make([]byte, 0, len(s))
	for _, c := range []byte(s) {
		switch {
		case c >= 'a' && c <= 'z', c >= 'A' && c <= 'Z':
			out = append(out, c)
		case c == ' ':
			out = append(out, '_')
		}
	}
	return string(out)
}

func c01NonTrivial(ref *ttlvref.Node) bool {
	// contains a managed object / attribute / credential / extension, or a batch item with >=2 payload elements
	nt := false
	ref.Walk(func(n *ttlvref.Node, d int) {
		switch n.Tag {
		case 0x420008, 0x420023, 0x420051, 0x420040: // Attribute, Credential, MessageExtension, KeyBlock
			nt = true
		case 0x420079, 0x42007C: // Request/Response payload
			if len(n.Kids) >= 2 {
				nt = true
			}
		}
	})
	return nt
}

func TestC01Messages(t *testing.T) {
	const name = "TestC01Messages"
	rec := evid.New("C01", name, "gen.Message: reflective generator over the public KMIP types (27 operations x 2 directions + unknown operations, 9 object types, 13 key formats + wrapped/absent key values, "+
		"50 standard + custom + unknown attributes, 3 credential types, message extensions, batches of 0..3 items) at a drawn version 1.0..1.4; "+
		"non-trivial = contains an attribute, credential, message extension or key block, or a payload with >=2 elements; distinct by reference encoding").Attach(t)
	if rp := evid.LoadReplay(name); rp != nil {
		// a saved case is the reference encoder's encoding of the original message (the message itself is a Go value):
		// decoding it and encoding the result again must give back exactly these bytes
		var c msgCase
		if err := json.Unmarshal(rp.Case, &c); err != nil {
			t.Fatal(err)
		}
		raw, err := hex.DecodeString(c.RefHex)
		if err != nil || len(raw) == 0 {
			t.Fatalf("saved case has no reference encoding: %v", err)
		}
		var m any = &kmip.RequestMessage{}
		if c.Kind == "response" {
			m = &kmip.ResponseMessage{}
		}
		if err := safely(func() error { return ttlv.UnmarshalTTLV(append([]byte{}, raw...), m) }); err != nil {
			t.Fatalf("VERIF-FAIL property=C01 test=%s sig=%s replay=: decoding the reference encoding of the saved message fails: %v", name, "replay-decode-fails", err)
		}
		var re []byte
		if err := safely(func() error { re = ttlv.MarshalTTLV(m); return nil }); err != nil {
			t.Fatalf("VERIF-FAIL property=C01 test=%s sig=%s replay=: %v", name, "replay-encode-panics", err)
		}
		if !bytes.Equal(re, raw) {
			t.Fatalf("VERIF-FAIL property=C01 test=%s sig=%s replay=: decoding the reference encoding of the saved message and encoding it again gives %x, want %x", name, "replay-reencode-differs", re, raw)
		}
		return
	}
	rapid.Check(t, func(rt *rapid.T) {
		var labels []string
		o := gen.MsgOpts{Labels: func(l ...string) { labels = append(labels, l...) }}
		o.PopulateAll = rapid.IntRange(0, 9).Draw(rt, "populateAll") == 0
		msg, fresh, ver, kind := drawMessage(rt, o)
		sig, ref, enc, err := c01Check(msg, fresh)
		if ref != nil {
			nt := c01NonTrivial(ref)
			rec.Case(nt, ttlvref.Write(ref), labels...)
			if nt && rec.WantSample() && ref.Count() < 60 {
				rec.Sample(mkMsgCase(kind, ver, ref, nil))
			}
		}
		if err != nil {
			rec.Fail(rt, name, sig, err, mkMsgCase(kind, ver, ref, enc))
		}
	})
	_ = reflect.TypeOf
}
