package codec

import (
	"bytes"
	"encoding/hex"
	"encoding/json"
	"fmt"
	"testing"

	"github.com/ovh/kmip-go/ttlv"
	"pgregory.net/rapid"

	"verif/harness/evid"
	"verif/harness/gen"
	"verif/harness/ttlvref"
)

// treeCase is the replayable form of a generic tree: its canonical reference encoding.
type treeCase struct {
	TreeHex string `json:"tree_hex"`
	Text    string `json:"text,omitempty"`
}

func mkTreeCase(n *ttlvref.Node) treeCase {
	return treeCase{TreeHex: hex.EncodeToString(ttlvref.Write(n)), Text: n.String()}
}

func (c treeCase) tree() (*ttlvref.Node, error) {
	b, err := hex.DecodeString(c.TreeHex)
	if err != nil {
		return nil, err
	}
	return ttlvref.Parse(b, ttlvref.Strict)
}

// safely runs f and converts a panic into an error.
func safely(f func() error) (err error) {
	defer func() {
		if r := recover(); r != nil {
			err = fmt.Errorf("panic: %v", r)
		}
	}()
	return f()
}

// c03Tree checks the three C03 relations on one generic tree.
func c03Tree(n *ttlvref.Node) (sig string, err error) {
	want := ttlvref.Write(n)
	// (1) library encoder -> independent strict parser
	var got []byte
	// the byte strings handed to the encoder are neighbouring sub-slices of one buffer: encoding must not write to it
	shared, arena := gen.ToValueShared(n)
	arenaBefore := append([]byte{}, arena...)
	if err := safely(func() error { got = ttlv.MarshalTTLV(shared); return nil }); err != nil {
		return "encode-panic", err
	}
	// encoding the very same value again gives the very same bytes: the encoder leaves the caller's value (big integers
	// are handed over by pointer) as it found it
	var again []byte
	if err := safely(func() error { again = ttlv.MarshalTTLV(shared); return nil }); err != nil {
		return "encode-panic", err
	}
	if !bytes.Equal(again, got) {
		return "encoder-modifies-callers-value", fmt.Errorf("encoding the same value a second time gives %x, the first time %x", again, got)
	}
	if !bytes.Equal(arena, arenaBefore) {
		return "encoder-writes-to-callers-memory", fmt.Errorf("encoding modified the buffer holding the caller's byte strings (beyond the length of a slice): before %x after %x", arenaBefore, arena)
	}
	// the same tree as a value of its own (fresh slices; "no children" and "no bytes" being nil slices for odd tags and
	// empty non-nil ones for even tags): same bytes
	var plain []byte
	if err := safely(func() error { plain = ttlv.MarshalTTLV(gen.ToValue(n)); return nil }); err != nil {
		return "encode-panic", err
	}
	if !bytes.Equal(plain, got) {
		return "encoder-output-differs", fmt.Errorf("the same tree built from fresh slices (empty ones nil for odd tags) encodes to %x, built over one shared buffer to %x", plain, got)
	}
	parsed, perr := ttlvref.Parse(got, ttlvref.Strict)
	if perr != nil {
		return "encoder-output-malformed", fmt.Errorf("independent strict parser rejects library output %x: %w", got, perr)
	}
	if d := ttlvref.Diff(n, parsed); d != "" {
		return "encoder-output-differs", fmt.Errorf("library output parses to a different tree: %s", d)
	}
	// (2) independent writer -> library decoder
	var v ttlv.Value
	in := append([]byte{}, want...)
	if err := safely(func() error { return ttlv.UnmarshalTTLV(in, &v) }); err != nil {
		return "decoder-rejects-wellformed", fmt.Errorf("library decoder fails on well-formed %x: %w", want, err)
	}
	back, ok := gen.FromValue(v)
	if !ok {
		return "decoder-yields-foreign-value", fmt.Errorf("decoded value has unexpected Go types: %#v", v)
	}
	if d := ttlvref.Diff(n, back); d != "" {
		return "decoder-tree-differs", fmt.Errorf("library decoder yields a different tree: %s", d)
	}
	// (3) canonical form agreement
	var re []byte
	if err := safely(func() error { re = ttlv.MarshalTTLV(v); return nil }); err != nil {
		return "reencode-panic", err
	}
	if !bytes.Equal(re, want) {
		return "canonical-form-differs", fmt.Errorf("re-encoding %x differs from reference encoding %x", re, want)
	}
	return "", nil
}

func c03NonTrivial(n *ttlvref.Node) (bool, []string) {
	nt := false
	var labels []string
	n.Walk(func(k *ttlvref.Node, depth int) {
		switch k.Type {
		case ttlvref.TextString, ttlvref.ByteString:
			if len(k.B)%8 != 0 {
				nt = true
				labels = append(labels, fmt.Sprintf("len%%8=%d", len(k.B)%8))
			}
			if len(k.B) == 0 {
				nt = true
				labels = append(labels, "empty-string")
			}
		case ttlvref.BigInteger:
			raw := new(bytes.Buffer)
			raw.Write(k.Big.Bytes())
			if k.Big.Sign() < 0 {
				nt = true
				labels = append(labels, "big-negative")
			} else if raw.Len() > 0 && raw.Bytes()[0]&0x80 != 0 {
				nt = true
				labels = append(labels, "big-topbit")
			}
			if raw.Len()%8 == 0 && raw.Len() > 0 {
				labels = append(labels, "big-8k-bytes")
			}
		case ttlvref.Structure:
			if len(k.Kids) == 0 {
				nt = true
				labels = append(labels, "empty-struct")
			}
		}
		if depth >= 3 {
			nt = true
		}
	})
	labels = append(labels, "type="+ttlvref.TypeNames[n.Type])
	return nt, labels
}

func TestC03Trees(t *testing.T) {
	const name = "TestC03Trees"
	rec := evid.New("C03", name, "rapid generic TTLV trees (all ten types, tags from both KMIP ranges and arbitrary non-zero tags, depth<=5, fanout<=6, boundary-biased scalars); "+
		"non-trivial = contains a string with len%8!=0 or empty, a big integer that is negative or has its top magnitude bit set, an empty structure, or depth>=3; distinct by reference encoding").Attach(t)
	if rp := evid.LoadReplay(name); rp != nil {
		var c treeCase
		if err := json.Unmarshal(rp.Case, &c); err != nil {
			t.Fatal(err)
		}
		n, err := c.tree()
		if err != nil {
			t.Fatal(err)
		}
		if sig, err := c03Tree(n); err != nil {
			t.Fatalf("VERIF-FAIL property=C03 test=%s sig=%s replay=%s: %v", name, sig, "", err)
		}
		rec.Case(true, []byte(c.TreeHex))
		rec.Sample(c)
		return
	}
	rapid.Check(t, func(rt *rapid.T) {
		to := gen.DefaultTreeOpts()
		to.Alphabet = "bytes"
		n := gen.Tree(rt, to)
		nt, labels := c03NonTrivial(n)
		enc := ttlvref.Write(n)
		rec.Case(nt, enc, labels...)
		if nt && rec.WantSample() {
			rec.Sample(mkTreeCase(n))
		}
		if sig, err := c03Tree(n); err != nil {
			rec.Fail(rt, name, sig, err, mkTreeCase(n))
		}
	})
}

// inflate makes a drawn tree large: a drawn structure gets k cheap filler children, or a drawn string leaf grows
// to l bytes, so that the encoding crosses the encoder's buffer growth steps while structures are open.
func inflate(rt *rapid.T, n *ttlvref.Node) (labels []string) {
	var structs, strs []*ttlvref.Node
	var walk func(x *ttlvref.Node)
	walk = func(x *ttlvref.Node) {
		switch x.Type {
		case ttlvref.Structure:
			structs = append(structs, x)
			for _, k := range x.Kids {
				walk(k)
			}
		case ttlvref.ByteString, ttlvref.TextString:
			strs = append(strs, x)
		}
	}
	walk(n)
	mode := rapid.IntRange(0, 2).Draw(rt, "inflate")
	if (mode == 0 || mode == 2) && len(structs) > 0 {
		s := structs[rapid.IntRange(0, len(structs)-1).Draw(rt, "struct")]
		k := rapid.SampledFrom([]int{40, 130, 260, 520, 1030, 2100, 4200, 9000}).Draw(rt, "fill") + rapid.IntRange(0, 9).Draw(rt, "fill+")
		at := rapid.IntRange(0, len(s.Kids)).Draw(rt, "at")
		base := rapid.Int32().Draw(rt, "base")
		fill := make([]*ttlvref.Node, 0, k)
		for i := 0; i < k; i++ {
			switch i % 3 {
			case 0:
				fill = append(fill, &ttlvref.Node{Tag: 0x420000 + 1 + i%200, Type: ttlvref.Integer, I: int64(base) ^ int64(i)})
			case 1:
				fill = append(fill, &ttlvref.Node{Tag: 0x540000 + i%1000, Type: ttlvref.TextString, B: []byte(fmt.Sprintf("%d", i))})
			default:
				fill = append(fill, &ttlvref.Node{Tag: 0x420000 + 1 + i%200, Type: ttlvref.Structure, Kids: []*ttlvref.Node{{Tag: 0x42000A, Type: ttlvref.Boolean, I: int64(i & 1)}}})
			}
		}
		s.Kids = append(append(append([]*ttlvref.Node{}, s.Kids[:at]...), fill...), s.Kids[at:]...)
		labels = append(labels, "many-children")
	}
	if (mode == 1 || mode == 2 || len(labels) == 0) && len(strs) > 0 {
		s := strs[rapid.IntRange(0, len(strs)-1).Draw(rt, "string")]
		l := rapid.SampledFrom([]int{500, 1000, 2040, 4090, 8185, 16380, 33000, 70000, 150000}).Draw(rt, "strlen") + rapid.IntRange(0, 16).Draw(rt, "strlen+")
		b := make([]byte, l)
		c := rapid.ByteRange('a', 'z').Draw(rt, "fillchar")
		for i := range b {
			b[i] = c + byte(i%3)
		}
		s.B = b
		labels = append(labels, "long-string")
	}
	return labels
}

func TestC03Large(t *testing.T) {
	const name = "TestC03Large"
	rec := evid.New("C03", name, "rapid generic TTLV trees as in TestC03Trees, then inflated: a drawn structure receives 40..9000 filler children (integers, text strings, one-child structures) at a drawn position "+
		"and/or a drawn string leaf grows to 500..150000 bytes, so that encodings of 1 KiB..250 KiB cross every buffer growth step of the encoder while structures are open; same three relations; "+
		"non-trivial = the reference encoding is longer than 4096 bytes; distinct by reference encoding").Attach(t)
	if rp := evid.LoadReplay(name); rp != nil {
		var c treeCase
		if err := json.Unmarshal(rp.Case, &c); err != nil {
			t.Fatal(err)
		}
		n, err := c.tree()
		if err != nil {
			t.Fatal(err)
		}
		if sig, err := c03Tree(n); err != nil {
			t.Fatalf("VERIF-FAIL property=C03 test=%s sig=%s replay=%s: %v", name, sig, "", err)
		}
		return
	}
	rapid.Check(t, func(rt *rapid.T) {
		o := gen.DefaultTreeOpts()
		o.MaxDepth, o.MaxFanout = 4, 4
		n := gen.Tree(rt, o)
		if n.Type != ttlvref.Structure {
			n = &ttlvref.Node{Tag: 0x420078, Type: ttlvref.Structure, Kids: []*ttlvref.Node{n, {Tag: 0x420008, Type: ttlvref.ByteString, B: []byte{1, 2, 3}}}}
		}
		labels := inflate(rt, n)
		enc := ttlvref.Write(n)
		nt := len(enc) > 4096
		labels = append(labels, fmt.Sprintf("size-class=2^%d", bitsLen(len(enc))))
		rec.Case(nt, enc, labels...)
		if nt && len(enc) < 6000 && rec.WantSample() {
			rec.Sample(mkTreeCase(n))
		}
		if sig, err := c03Tree(n); err != nil {
			// keep the message short: the encodings are large
			if len(err.Error()) > 600 {
				err = fmt.Errorf("%s ...", err.Error()[:600])
			}
			rec.Fail(rt, name, sig, err, mkTreeCase(n))
		}
	})
}

func bitsLen(n int) int {
	b := 0
	for n > 0 {
		n >>= 1
		b++
	}
	return b
}
