package codec

import (
	"bytes"
	"encoding/hex"
	"encoding/json"
	"fmt"
	"testing"

	"github.com/ovh/kmip-go/ttlv"
	"pgregory.net/rapid"

	"verif/harness/evid"
	"verif/harness/gen"
	"verif/harness/ttlvref"
)

// treeCase is the replayable form of a generic tree: its canonical reference encoding.
type treeCase struct {
	TreeHex string `json:"tree_hex"`
	Text    string `json:"text,omitempty"`
}

func mkTreeCase(n *ttlvref.Node) treeCase {
	return treeCase{TreeHex: hex.EncodeToString(ttlvref.Write(n)), Text: n.String()}
}

func (c treeCase) tree() (*ttlvref.Node, error) {
	b, err := hex.DecodeString(c.TreeHex)
	if err != nil {
		return nil, err
	}
	return ttlvref.Parse(b, ttlvref.Strict)
}

// safely runs f and converts a panic into an error.
func safely(f func() error) (err error) {
	defer func() {
		if r := recover(); r != nil {
			err = fmt.Errorf("panic: %v", r)
		}
	}()
	return f()
}

// c03Tree checks the three C03 relations on one generic tree.
func c03Tree(n *ttlvref.Node) (sig string, err error) {
	want := ttlvref.Write(n)
	// (1) library encoder -> independent strict parser
	var got []byte
	if err := safely(func() error { got = ttlv.MarshalTTLV(gen.ToValue(n)); return nil }); err != nil {
		return "encode-panic", err
	}
	parsed, perr := ttlvref.Parse(got, ttlvref.Strict)
	if perr != nil {
		return "encoder-output-malformed", fmt.Errorf("independent strict parser rejects library output %x: %w", got, perr)
	}
	if d := ttlvref.Diff(n, parsed); d != "" {
		return "encoder-output-differs", fmt.Errorf("library output parses to a different tree: %s", d)
	}
	// (2) independent writer -> library decoder
	var v ttlv.Value
	in := append([]byte{}, want...)
	if err := safely(func() error { return ttlv.UnmarshalTTLV(in, &v) }); err != nil {
		return "decoder-rejects-wellformed", fmt.Errorf("library decoder fails on well-formed %x: %w", want, err)
	}
	back, ok := gen.FromValue(v)
	if !ok {
		return "decoder-yields-foreign-value", fmt.Errorf("decoded value has unexpected Go types: %#v", v)
	}
	if d := ttlvref.Diff(n, back); d != "" {
		return "decoder-tree-differs", fmt.Errorf("library decoder yields a different tree: %s", d)
	}
	// (3) canonical form agreement
	var re []byte
	if err := safely(func() error { re = ttlv.MarshalTTLV(v); return nil }); err != nil {
		return "reencode-panic", err
	}
	if !bytes.Equal(re, want) {
		return "canonical-form-differs", fmt.Errorf("re-encoding %x differs from reference encoding %x", re, want)
	}
	return "", nil
}

func c03NonTrivial(n *ttlvref.Node) (bool, []string) {
	nt := false
	var labels []string
	n.Walk(func(k *ttlvref.Node, depth int) {
		switch k.Type {
		case ttlvref.TextString, ttlvref.ByteString:
			if len(k.B)%8 != 0 {
				nt = true
				labels = append(labels, fmt.Sprintf("len%%8=%d", len(k.B)%8))
			}
			if len(k.B) == 0 {
				nt = true
				labels = append(labels, "empty-string")
			}
		case ttlvref.BigInteger:
			raw := new(bytes.Buffer)
			raw.Write(k.Big.Bytes())
			if k.Big.Sign() < 0 {
				nt = true
				labels = append(labels, "big-negative")
			} else if raw.Len() > 0 && raw.Bytes()[0]&0x80 != 0 {
				nt = true
				labels = append(labels, "big-topbit")
			}
			if raw.Len()%8 == 0 && raw.Len() > 0 {
				labels = append(labels, "big-8k-bytes")
			}
		case ttlvref.Structure:
			if len(k.Kids) == 0 {
				nt = true
				labels = append(labels, "empty-struct")
			}
		}
		if depth >= 3 {
			nt = true
		}
	})
	labels = append(labels, "type="+ttlvref.TypeNames[n.Type])
	return nt, labels
}

func TestC03Trees(t *testing.T) {
	const name = "TestC03Trees"
	rec := evid.New("C03", name, "rapid generic TTLV trees (all ten types, tags from both KMIP ranges and arbitrary non-zero tags, depth<=5, fanout<=6, boundary-biased scalars); "+
		"non-trivial = contains a string with len%8!=0 or empty, a big integer that is negative or has its top magnitude bit set, an empty structure, or depth>=3; distinct by reference encoding").Attach(t)
	if rp := evid.LoadReplay(name); rp != nil {
		var c treeCase
		if err := json.Unmarshal(rp.Case, &c); err != nil {
			t.Fatal(err)
		}
		n, err := c.tree()
		if err != nil {
			t.Fatal(err)
		}
		if sig, err := c03Tree(n); err != nil {
			t.Fatalf("VERIF-FAIL property=C03 test=%s sig=%s replay=%s: %v", name, sig, "", err)
		}
		rec.Case(true, []byte(c.TreeHex))
		rec.Sample(c)
		return
	}
	rapid.Check(t, func(rt *rapid.T) {
		n := gen.Tree(rt, gen.DefaultTreeOpts())
		nt, labels := c03NonTrivial(n)
		enc := ttlvref.Write(n)
		rec.Case(nt, enc, labels...)
		if nt && rec.WantSample() {
			rec.Sample(mkTreeCase(n))
		}
		if sig, err := c03Tree(n); err != nil {
			rec.Fail(rt, name, sig, err, mkTreeCase(n))
		}
	})
}
