package codec

import (
	"encoding/hex"
	"testing"

	kmip "github.com/ovh/kmip-go"
	"github.com/ovh/kmip-go/payloads"
	"github.com/ovh/kmip-go/ttlv"
)

// Native coverage-guided fuzz targets (thorough tier). The semantic oracles of C02 and C18 run inside
// the target; the seed corpus is added in code (valid encodings + hostile constants), so a campaign is a
// function of the committed sources (native fuzzing cannot be seed-pinned; the saved input is the
// reproducible unit).

func fuzzSeeds(enc string) [][]byte {
	ts := kmip.NewRequestMessage(kmip.V1_4, &payloads.GetRequestPayload{UniqueIdentifier: "id"}, &payloads.ActivateRequestPayload{UniqueIdentifier: "x"})
	reg := kmip.NewRequestMessage(kmip.V1_2, &payloads.RegisterRequestPayload{ObjectType: kmip.ObjectTypeSecretData,
		Object: &kmip.SecretData{SecretDataType: 1, KeyBlock: kmip.KeyBlock{KeyFormatType: kmip.KeyFormatTypeOpaque, KeyValue: &kmip.KeyValue{Plain: &kmip.PlainKeyValue{KeyMaterial: kmip.KeyMaterial{Bytes: &[]byte{1, 2, 3}}}}}}})
	resp := kmip.ResponseMessage{Header: kmip.ResponseHeader{ProtocolVersion: kmip.V1_3, BatchCount: 1},
		BatchItem: []kmip.ResponseBatchItem{{Operation: kmip.OperationLocate, ResultStatus: kmip.ResultStatusOperationFailed, ResultReason: kmip.ResultReasonItemNotFound, ResultMessage: "nope"}}}
	var out [][]byte
	for _, m := range []any{&ts, &reg, &resp} {
		out = append(out, append([]byte{}, libMarshal(enc, m)...))
	}
	if enc == "binary" {
		for _, h := range []string{"", "42", "4200780100000000", "42007801ffffffff", "420078010000000842006904000000000000000000", "4200780400000000", "420078040000000880000000000000ff",
			"42007801000000104200690200000001ff0000000000000000", "4200780b00000008000000000000000000", "00000001000000100000000100000000000000010000000000", "4200780a0000000400000001deadbeef"} {
			b, _ := hex.DecodeString(h)
			out = append(out, b)
		}
	} else if enc == "xml" {
		for _, s := range []string{"", "<A/>", `<TTLV tag="0x420001" type="Foo" value="1"/>`, `<RequestMessage><RequestHeader/></RequestMessage>`, `<X type="BigInteger" value=""/>`,
			`<X type="Integer" value="0x"/>`, `<ProtocolVersionMajor type="Interval" value="-1"/>`, `<BatchItem><BatchItem><BatchItem/></BatchItem>`} {
			out = append(out, []byte(s))
		}
	} else {
		for _, s := range []string{"", "null", "1", "[]", `{"tag":1}`, `{"tag":"0x420001","type":"BigInteger","value":"0x"}`, `{"tag":"BatchCount","type":"Interval","value":-1}`,
			`{"tag":"RequestMessage","value":[1,null,{"tag":"x"}]}`, `{"tag":"CryptographicUsageMask","type":"Integer","value":"|"}`, `{"tag":"0x-1","value":[]}`} {
			out = append(out, []byte(s))
		}
	}
	return out
}

func fuzzC02(f *testing.F, enc string) {
	for i, s := range fuzzSeeds(enc) {
		f.Add(s, uint8(i))
	}
	f.Fuzz(func(t *testing.T, data []byte, sel uint8) {
		if len(data) > 1<<20 {
			return
		}
		tg := targets[int(sel)%len(targets)]
		c := c02Case{Encoding: enc, Target: tg.Name, DataHex: hex.EncodeToString(data)}
		if sig, err := c02Run(c); err != nil {
			t.Fatalf("VERIF-FAIL property=C02 test=FuzzC02 sig=%s replay=: target=%s: %v", sig, tg.Name, err)
		}
	})
}

func FuzzC02Binary(f *testing.F) { fuzzC02(f, "binary") }
func FuzzC02XML(f *testing.F)    { fuzzC02(f, "xml") }
func FuzzC02JSON(f *testing.F)   { fuzzC02(f, "json") }

func fuzzC18(f *testing.F, enc string) {
	for i, s := range fuzzSeeds(enc) {
		f.Add(s, uint8(i%3))
	}
	f.Fuzz(func(t *testing.T, data []byte, sel uint8) {
		if len(data) > 1<<16 {
			return
		}
		tg := targets[int(sel)%3] // ttlv.Value, RequestMessage, ResponseMessage
		c := c18Case{Encoding: enc, Target: tg.Name, DataHex: hex.EncodeToString(data)}
		if _, _, _, sig, err := c18Run(c); err != nil {
			t.Fatalf("VERIF-FAIL property=C18 test=FuzzC18 sig=%s replay=: target=%s: %v", sig, tg.Name, err)
		}
	})
}

func FuzzC18Binary(f *testing.F) { fuzzC18(f, "binary") }
func FuzzC18XML(f *testing.F)    { fuzzC18(f, "xml") }
func FuzzC18JSON(f *testing.F)   { fuzzC18(f, "json") }

var _ = ttlv.MarshalTTLV
