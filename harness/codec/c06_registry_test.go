package codec

import (
	"encoding/json"
	"fmt"
	"reflect"
	"strings"
	"testing"

	kmip "github.com/ovh/kmip-go"
	"github.com/ovh/kmip-go/ttlv"
	"pgregory.net/rapid"

	"verif/harness/evid"
	"verif/harness/ttlvref"
)

// Payload and object types registered at run time through the public registration API.
type vendorReq struct {
	A  string `ttlv:"0x540101"`
	op kmip.Operation
}
type vendorResp struct {
	B  int32 `ttlv:"0x540102"`
	op kmip.Operation
}
type vendorReq2 struct {
	C  []byte `ttlv:"0x540103"`
	op kmip.Operation
}
type vendorResp2 struct {
	D  bool `ttlv:"0x540104"`
	op kmip.Operation
}

func (p *vendorReq) Operation() kmip.Operation   { return vendorOpOf(p) }
func (p *vendorResp) Operation() kmip.Operation  { return vendorOpOf(p) }
func (p *vendorReq2) Operation() kmip.Operation  { return vendorOpOf(p) }
func (p *vendorResp2) Operation() kmip.Operation { return vendorOpOf(p) }

// the registration API creates payloads with reflect.New: the operation a payload reports is looked up by type
var vendorOps = map[string]kmip.Operation{}

func vendorOpOf(p any) kmip.Operation {
	return vendorOps[reflect.TypeOf(p).Elem().Name()+currentVendorKey]
}

var currentVendorKey string

// vendor managed objects registered through RegisterObject
type vendorObjA struct {
	Value []byte `ttlv:"0x540111"`
	ot    kmip.ObjectType
}
type vendorObjB struct {
	Text string `ttlv:"0x540112"`
	ot   kmip.ObjectType
}

var vendorObjTypes = map[string]kmip.ObjectType{}

func (o *vendorObjA) ObjectType() kmip.ObjectType { return o.ot }
func (o *vendorObjB) ObjectType() kmip.ObjectType { return o.ot }

type regStep struct {
	Op   string `json:"op"`   // decode-known | decode-vendor | register | reregister | register-object | decode-object
	Code uint32 `json:"code"` // vendor code index
	Alt  bool   `json:"alt"`  // register the second pair of types
}

// The vendor codes used here lie in 0x8C000000..0x8CFFFFFF; TestC06Dispatch never draws them.
const vendorBase = 0x8C000000

func c06RegistryRun(steps []regStep) (string, error) {
	registered := map[uint32]string{} // code -> "1" or "2" (which pair)
	regObj := map[uint32]string{}     // object type -> "A" or "B"
	for i, s := range steps {
		code := vendorBase + s.Code%8 + regEpoch
		switch s.Op {
		case "register-object":
			if err := safely(func() error {
				if s.Alt {
					kmip.RegisterObject(kmip.ObjectType(code), &vendorObjB{})
					regObj[code] = "B"
				} else {
					kmip.RegisterObject(kmip.ObjectType(code), &vendorObjA{})
					regObj[code] = "A"
				}
				return nil
			}); err != nil {
				return "register-object-panics", err
			}
		case "decode-object":
			// a Get response naming the vendor object type, followed by a structure
			obj := &ttlvref.Node{Tag: 0x540120, Type: ttlvref.Structure, Kids: []*ttlvref.Node{{Tag: 0x540111, Type: ttlvref.ByteString, B: []byte{1}}}}
			want := ""
			switch regObj[code] {
			case "A":
				want = "vendorObjA"
			case "B":
				want = "vendorObjB"
				obj.Tag = 0x540121
				obj.Kids = []*ttlvref.Node{{Tag: 0x540112, Type: ttlvref.TextString, B: []byte("t")}}
			}
			pl := &ttlvref.Node{Tag: tagResponsePayload, Type: ttlvref.Structure, Kids: []*ttlvref.Node{
				{Tag: 0x420057, Type: ttlvref.Enumeration, I: int64(code)}, {Tag: 0x420094, Type: ttlvref.TextString, B: []byte("id")}, obj}}
			tree := itemTree(0x0A, true, nil, pl)
			var it kmip.ResponseBatchItem
			derr := safely(func() error {
				dec, err := ttlv.NewTTLVDecoder(ttlvref.Write(tree))
				if err != nil {
					return err
				}
				return dec.TagAny(tagBatchItem, &it)
			})
			if derr != nil && strings.HasPrefix(derr.Error(), "panic:") {
				return "decode-panics", fmt.Errorf("step %d: decoding an item with object type 0x%08X panics: %w", i, code, derr)
			}
			if want == "" {
				if derr == nil {
					return "unknown-object-type-accepted", fmt.Errorf("step %d: object type 0x%08X was never registered but decoded without error", i, code)
				}
				continue
			}
			if derr != nil {
				return "registered-object-type-rejected", fmt.Errorf("step %d: object type 0x%08X is registered as %s but the Get response does not decode: %w", i, code, want, derr)
			}
			_, o, _ := objectOf(it.ResponsePayload)
			if o == nil {
				return "registered-object-type-not-used", fmt.Errorf("step %d: object type 0x%08X decodes to no object, registered type is %s", i, code, want)
			}
			if got := reflect.TypeOf(o).Elem().Name(); got != want {
				return "registered-object-type-not-used", fmt.Errorf("step %d: object type 0x%08X decodes to %s, registered type is %s", i, code, got, want)
			}
		case "register", "reregister":
			if s.Op == "reregister" && registered[code] == "" {
				continue
			}
			if err := safely(func() error {
				if s.Alt {
					kmip.RegisterOperationPayload[vendorReq2, vendorResp2](kmip.Operation(code))
					registered[code] = "2"
				} else {
					kmip.RegisterOperationPayload[vendorReq, vendorResp](kmip.Operation(code))
					registered[code] = "1"
				}
				return nil
			}); err != nil {
				return "register-panics", err
			}
		case "decode-known", "decode-vendor":
			c := code
			want := "UnknownPayload"
			var payload *ttlvref.Node
			if s.Op == "decode-known" {
				c = 0x12 // Activate
				want = "ActivateRequestPayload"
				payload = &ttlvref.Node{Tag: tagRequestPayload, Type: ttlvref.Structure, Kids: []*ttlvref.Node{{Tag: 0x420094, Type: ttlvref.TextString, B: []byte("id")}}}
			} else {
				switch registered[code] {
				case "1":
					want = "vendorReq"
					payload = &ttlvref.Node{Tag: tagRequestPayload, Type: ttlvref.Structure, Kids: []*ttlvref.Node{{Tag: 0x540101, Type: ttlvref.TextString, B: []byte("a")}}}
				case "2":
					want = "vendorReq2"
					payload = &ttlvref.Node{Tag: tagRequestPayload, Type: ttlvref.Structure, Kids: []*ttlvref.Node{{Tag: 0x540103, Type: ttlvref.ByteString, B: []byte{1, 2}}}}
				default:
					payload = &ttlvref.Node{Tag: tagRequestPayload, Type: ttlvref.Structure, Kids: []*ttlvref.Node{{Tag: 0x540199, Type: ttlvref.Integer, I: 7}}}
				}
			}
			tree := itemTree(c, false, nil, payload)
			var it kmip.RequestBatchItem
			if err := safely(func() error {
				dec, err := ttlv.NewTTLVDecoder(ttlvref.Write(tree))
				if err != nil {
					return err
				}
				return dec.TagAny(tagBatchItem, &it)
			}); err != nil {
				return "decode-fails", fmt.Errorf("step %d: operation 0x%08X (registered as %q): %w", i, c, registered[code], err)
			}
			if got := reflect.TypeOf(it.RequestPayload).Elem().Name(); got != want {
				return "registered-type-not-used", fmt.Errorf("step %d: operation 0x%08X decodes to %s, registered type is %s", i, c, got, want)
			}
		}
	}
	return "", nil
}

// regEpoch shifts the vendor code window for every rapid case, so that cases do not see each other's registrations.
var regEpoch uint32

func TestC06RuntimeRegistration(t *testing.T) {
	const name = "TestC06RuntimeRegistration"
	rec := evid.New("C06", name, "stateful: sequences of {decode an implemented operation, decode a vendor operation, register a payload pair for a vendor operation, re-register another pair for it, register a vendor object type, decode a Get response naming it} through the public RegisterOperationPayload / RegisterObject APIs, "+
		"in any order (in particular registering after the first decode); oracle: a vendor operation decodes to the pair registered last, to opaque TTLV before any registration; non-trivial = a registration happens after a decode; distinct by step list").Attach(t)
	// a vendor object needs a tag of its own, known by Go type (as every built-in object has); done here and not in an
	// init function so that only the process running this test sees the two extra tag names
	ttlv.RegisterTag("VerifVendorObjectA", 0x540120, reflect.TypeFor[vendorObjA]())
	ttlv.RegisterTag("VerifVendorObjectB", 0x540121, reflect.TypeFor[vendorObjB]())
	rapid.Check(t, func(rt *rapid.T) {
		regEpoch = (regEpoch + 8) % 0x00FFFF00 // a fresh window of codes for every execution (also while shrinking)
		n := rapid.IntRange(2, 10).Draw(rt, "steps")
		var steps []regStep
		decoded, nt := false, false
		for i := 0; i < n; i++ {
			s := regStep{Op: rapid.SampledFrom([]string{"decode-known", "decode-vendor", "decode-vendor", "register", "reregister", "register-object", "decode-object"}).Draw(rt, "op"),
				Code: uint32(rapid.IntRange(0, 2).Draw(rt, "code")), Alt: rapid.Bool().Draw(rt, "alt")}
			if s.Op == "decode-known" || s.Op == "decode-vendor" || s.Op == "decode-object" {
				decoded = true
			} else if decoded {
				nt = true
			}
			steps = append(steps, s)
		}
		key, _ := json.Marshal(steps)
		rec.Case(nt, key)
		if nt && rec.WantSample() {
			rec.Sample(steps)
		}
		if sig, err := c06RegistryRun(steps); err != nil {
			rec.Fail(rt, name, sig, err, steps)
		}
	})
}
