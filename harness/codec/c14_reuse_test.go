package codec

import (
	"crypto"
	"crypto/ecdsa"
	"crypto/rsa"
	"fmt"
	"testing"

	kmip "github.com/ovh/kmip-go"
	"github.com/ovh/kmip-go/kmipclient"
	"github.com/ovh/kmip-go/payloads"
	"pgregory.net/rapid"

	"verif/harness/evid"
	"verif/harness/gen"
)

// Applications that fetch many keys decode into the same Go variable again and again. The key an accessor extracts is
// the one of the object transported last, whatever the variable held - and was asked - before. Both objects have the same
// kind, format and half, so that each decode overwrites every element the previous one set.

type c14ReuseCase struct {
	Kind     string   `json:"kind"`
	Format   string   `json:"format"`
	Version  string   `json:"version"`
	Encoding string   `json:"encoding"`
	Public   bool     `json:"public_half"`
	Target   string   `json:"decode_target"`
	Keys     []string `json:"keys"`
	AskFirst bool     `json:"accessor_called_between_decodes"`
}

func TestC14ReusedVariable(t *testing.T) {
	const name = "TestC14ReusedVariable"
	rec := evid.New("C14", name, "2..3 different keys of one kind (RSA, or ECDSA on one of the four curves drawn per key) registered in one format, each transported in turn ({binary, XML, JSON}, versions 1.0..1.4) and decoded into the SAME Go variable "+
		"(kmip.PrivateKey / kmip.PublicKey), the accessors being called after each decode (or only after the last one); oracle: every accessor returns the key of the object decoded last; "+
		"non-trivial = every case (at least two decodes into one variable); distinct by (keys, format, version, encoding, half, target)").Attach(t)
	rapid.Check(t, func(rt *rapid.T) {
		ver := rapid.SampledFrom(gen.Versions).Draw(rt, "version")
		enc := rapid.SampledFrom(encodings).Draw(rt, "encoding")
		public := rapid.Bool().Draw(rt, "public")
		isRSA := rapid.Bool().Draw(rt, "rsa")
		target := "object" // (a payloads.GetResponsePayload makes a new object at every decode: nothing is reused there)
		askFirst := rapid.IntRange(0, 3).Draw(rt, "askfirst") != 0
		usage := kmip.CryptographicUsageSign | kmip.CryptographicUsageVerify
		cl := versionClient(ver)
		fname := map[kmipclient.KeyFormat]string{kmipclient.PKCS1: "PKCS1", kmipclient.PKCS8: "PKCS8", kmipclient.SEC1: "SEC1", kmipclient.X509: "X509", kmipclient.Transparent: "Transparent", 0: "default"}
		var formats []kmipclient.KeyFormat
		switch {
		case isRSA && public:
			formats = []kmipclient.KeyFormat{0, kmipclient.PKCS1, kmipclient.X509, kmipclient.Transparent}
		case isRSA:
			formats = []kmipclient.KeyFormat{0, kmipclient.PKCS1, kmipclient.PKCS8, kmipclient.Transparent}
		case public:
			formats = []kmipclient.KeyFormat{0, kmipclient.X509, kmipclient.Transparent}
		default:
			formats = []kmipclient.KeyFormat{0, kmipclient.SEC1, kmipclient.PKCS8, kmipclient.Transparent}
		}
		f := rapid.SampledFrom(formats).Draw(rt, "format")
		n := rapid.IntRange(2, 3).Draw(rt, "nkeys")
		c := c14ReuseCase{Kind: "ecdsa", Format: fname[f], Version: ver.String(), Encoding: enc, Public: public, Target: target, AskFirst: askFirst}
		if isRSA {
			c.Kind = "rsa"
		}
		var privs []crypto.PrivateKey
		var pubs []crypto.PublicKey
		for i := 0; i < n; i++ {
			if isRSA {
				k, l := drawRSA(rt)
				privs, pubs = append(privs, k), append(pubs, &k.PublicKey)
				c.Keys = append(c.Keys, fmt.Sprintf("%s n=%x...", l, k.N.Bytes()[:8]))
			} else {
				k, l := drawECDSA(rt)
				privs, pubs = append(privs, k), append(pubs, &k.PublicKey)
				c.Keys = append(c.Keys, fmt.Sprintf("%s x=%x", l, k.X.Bytes()))
			}
		}
		rec.Case(true, []byte(fmt.Sprintf("%+v", c)), "kind="+c.Kind, "format="+c.Format, "enc="+enc, "target="+target, fmt.Sprintf("public=%v", public))
		if rec.WantSample() {
			rec.Sample(c)
		}
		fail := func(sig string, err error) { rec.Fail(rt, name, sig+":"+c.Format, err, c) }
		// the variables every object is decoded into
		var privVar kmip.PrivateKey
		var pubVar kmip.PublicKey
		var getVar payloads.GetResponsePayload
		for i := 0; i < n; i++ {
			var ex kmipclient.ExecRegister
			if err := safely(func() error {
				w := cl.Register().WithKeyFormat(f)
				if public {
					ex = w.PublicKey(pubs[i], usage)
				} else {
					ex = w.PrivateKey(privs[i], usage)
				}
				return nil
			}); err != nil {
				fail("builder-panics", err)
				return
			}
			pl, err := ex.Build()
			if err != nil {
				fail("builder-fails", err)
				return
			}
			reg := pl.(*payloads.RegisterRequestPayload)
			var derr error
			switch {
			case target == "get-response-payload":
				src := &payloads.GetResponsePayload{ObjectType: reg.ObjectType, UniqueIdentifier: fmt.Sprintf("id-%d", i), Object: reg.Object}
				derr = safely(func() error { return libUnmarshal(enc, append([]byte{}, libMarshal(enc, src)...), &getVar) })
			case public:
				derr = safely(func() error { return libUnmarshal(enc, append([]byte{}, libMarshal(enc, reg.Object)...), &pubVar) })
			default:
				derr = safely(func() error { return libUnmarshal(enc, append([]byte{}, libMarshal(enc, reg.Object)...), &privVar) })
			}
			if derr != nil {
				fail("transport", fmt.Errorf("object %d does not survive %s into the reused variable: %w", i, enc, derr))
				return
			}
			if !askFirst && i < n-1 {
				continue
			}
			type acc struct {
				what string
				f    func() (any, error)
			}
			var accs []acc
			switch {
			case target == "get-response-payload" && public:
				accs = []acc{{"GetResponsePayload.PublicKey", func() (any, error) { return getVar.PublicKey() }}}
				if isRSA {
					accs = append(accs, acc{"GetResponsePayload.RsaPublicKey", func() (any, error) { return getVar.RsaPublicKey() }})
				} else {
					accs = append(accs, acc{"GetResponsePayload.EcdsaPublicKey", func() (any, error) { return getVar.EcdsaPublicKey() }})
				}
			case target == "get-response-payload":
				accs = []acc{{"GetResponsePayload.PrivateKey", func() (any, error) { return getVar.PrivateKey() }}}
				if isRSA {
					accs = append(accs, acc{"GetResponsePayload.RsaPrivateKey", func() (any, error) { return getVar.RsaPrivateKey() }})
				} else {
					accs = append(accs, acc{"GetResponsePayload.EcdsaPrivateKey", func() (any, error) { return getVar.EcdsaPrivateKey() }})
				}
			case public:
				accs = []acc{{"PublicKey.CryptoPublicKey", func() (any, error) { return pubVar.CryptoPublicKey() }}}
				if isRSA {
					accs = append(accs, acc{"PublicKey.RSA", func() (any, error) { return pubVar.RSA() }})
				} else {
					accs = append(accs, acc{"PublicKey.ECDSA", func() (any, error) { return pubVar.ECDSA() }})
				}
			default:
				accs = []acc{{"PrivateKey.CryptoPrivateKey", func() (any, error) { return privVar.CryptoPrivateKey() }}}
				if isRSA {
					accs = append(accs, acc{"PrivateKey.RSA", func() (any, error) { return privVar.RSA() }})
				} else {
					accs = append(accs, acc{"PrivateKey.ECDSA", func() (any, error) { return privVar.ECDSA() }})
				}
			}
			// (two passes: the order in which the accessors are asked does not matter either)
			for pass := 0; pass < 2; pass++ {
				for _, a := range accs {
					var got any
					if err := safely(func() error { var e error; got, e = a.f(); return e }); err != nil {
						fail("accessor-"+a.what, fmt.Errorf("%s after decode %d of %d into the same variable: %w", a.what, i+1, n, err))
						return
					}
					ok := false
					switch k := got.(type) {
					case *rsa.PrivateKey:
						ok = !public && k.Equal(privs[i])
					case *ecdsa.PrivateKey:
						ok = !public && k.Equal(privs[i])
					case *rsa.PublicKey:
						ok = public && k.Equal(pubs[i])
					case *ecdsa.PublicKey:
						ok = public && k.Equal(pubs[i])
					}
					if !ok {
						sig := "key-differs-after-reuse"
						for j := 0; j < i; j++ {
							if e, isEq := got.(interface{ Equal(crypto.PrivateKey) bool }); isEq && !public && e.Equal(privs[j]) {
								sig = "earlier-key-returned-after-reuse"
							}
							if e, isEq := got.(interface{ Equal(crypto.PublicKey) bool }); isEq && public && e.Equal(pubs[j]) {
								sig = "earlier-key-returned-after-reuse"
							}
						}
						fail(sig, fmt.Errorf("%s after decode %d of %d into the same variable does not return the key of the object decoded last", a.what, i+1, n))
						return
					}
				}
			}
		}
	})
}
