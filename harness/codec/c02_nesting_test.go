package codec

import (
	"bytes"
	"encoding/hex"
	"encoding/json"
	"fmt"
	"testing"

	kmip "github.com/ovh/kmip-go"
	"github.com/ovh/kmip-go/ttlv"
	"pgregory.net/rapid"

	"verif/harness/evid"
	"verif/harness/gen"
	"verif/harness/refwalk"
	"verif/harness/ttlvref"
)

// Nesting: an element belongs to the structure that encloses it in the input, in every encoding. A well-formed message
// is changed at tree level - a later sibling of a structure is moved INTO that structure (behind an element the
// structure's type does not know, itself a structure or a scalar) - and the same tree is handed to the three decoders
// in the three encodings (independent writers). An element that sits inside a nested structure must never be taken
// for a field of the outer one: the three decoders must agree on acceptance and, where they accept, on the value.

type c02NestCase struct {
	Kind     string `json:"kind"` // request | response
	TreeHex  string `json:"tree_hex"`
	TreeText string `json:"tree"`
}

func c02NestRun(c c02NestCase) (sig string, err error) {
	raw, _ := hex.DecodeString(c.TreeHex)
	tree, perr := ttlvref.Parse(raw, ttlvref.Strict)
	if perr != nil {
		return "harness-tree", perr
	}
	fresh := func() any {
		if c.Kind == "response" {
			return &kmip.ResponseMessage{}
		}
		return &kmip.RequestMessage{}
	}
	type outcome struct {
		err error
		bin []byte
	}
	outs := map[string]outcome{}
	for _, enc := range encodings {
		in := refEncode(tree, enc)
		v := fresh()
		derr := safely(func() error { return libUnmarshal(enc, append([]byte{}, in...), v) })
		if derr != nil && len(derr.Error()) > 6 && derr.Error()[:6] == "panic:" {
			return "panic:" + enc, fmt.Errorf("%s decoder panics: %w", enc, derr)
		}
		o := outcome{err: derr}
		if derr == nil {
			if eerr := safely(func() error { o.bin = ttlv.MarshalTTLV(v); return nil }); eerr != nil {
				return "reencode-panics:" + enc, eerr
			}
		}
		outs[enc] = o
	}
	ref := outs["binary"]
	for _, enc := range []string{"xml", "json"} {
		o := outs[enc]
		if (o.err == nil) != (ref.err == nil) {
			return "decoders-disagree-on-acceptance:" + enc, fmt.Errorf("the same tree is accepted by one decoder and rejected by another: binary: %v; %s: %v", ref.err, enc, o.err)
		}
		if o.err == nil && !bytes.Equal(o.bin, ref.bin) {
			return "element-leaves-its-structure:" + enc, fmt.Errorf("the %s decoder reads another message than the binary decoder from the same tree (an element nested in an inner structure was taken for a field of an outer one, or the reverse):\n %s gives %x\n binary gives %x", enc, enc, o.bin, ref.bin)
		}
	}
	return "", nil
}

func TestC02Nesting(t *testing.T) {
	const name = "TestC02Nesting"
	rec := evid.New("C02", name, "well-formed requests and responses changed at tree level: a later sibling of a structure is moved into that structure, behind an element unknown to the structure's type (a structure holding one integer, a scalar, or nothing); "+
		"the same tree is rendered in binary, XML and JSON by the independent writers and decoded by the library into the message type; oracle: no panic, the three decoders agree on acceptance and on the decoded message (compared by its binary re-encoding): "+
		"an element is never taken from a nested structure into an outer one; non-trivial = an unknown structure precedes the moved element; distinct by tree").Attach(t)
	if rp := evid.LoadReplay(name); rp != nil {
		var c c02NestCase
		if err := json.Unmarshal(rp.Case, &c); err != nil {
			t.Fatal(err)
		}
		if sig, err := c02NestRun(c); err != nil {
			t.Fatalf("VERIF-FAIL property=C02 test=%s sig=%s replay=: %v", name, sig, err)
		}
		return
	}
	rapid.Check(t, func(rt *rapid.T) {
		o := gen.MsgOpts{Alphabet: "xml", TextSafe: true, NoUnknownOps: true}
		o.PopulateAll = rapid.IntRange(0, 3).Draw(rt, "populateAll") == 0
		w := &refwalk.Walker{}
		var tree *ttlvref.Node
		kind := "request"
		if rapid.Bool().Draw(rt, "isRequest") {
			tree, _ = w.Message(gen.Request(rt, o))
		} else {
			kind = "response"
			tree, _ = w.Message(gen.Response(rt, o))
		}
		if tree == nil {
			rt.Fatalf("harness: no tree")
		}
		// candidate positions: a structure child that has a later sibling
		type pos struct {
			parent *ttlvref.Node
			s, n   int
		}
		var cands []pos
		tree.Walk(func(p *ttlvref.Node, _ int) {
			for i, k := range p.Kids {
				if k.Type == ttlvref.Structure && i+1 < len(p.Kids) {
					cands = append(cands, pos{p, i, i + 1})
				}
			}
		})
		if len(cands) == 0 {
			rt.Skip("no structure with a later sibling")
		}
		c := cands[rapid.IntRange(0, len(cands)-1).Draw(rt, "position")]
		moved := c.parent.Kids[c.n]
		inner := c.parent.Kids[c.s]
		label := "separator=none"
		switch rapid.IntRange(0, 3).Draw(rt, "separator") {
		case 0, 1:
			inner.Kids = append(inner.Kids, &ttlvref.Node{Tag: 0x54F001, Type: ttlvref.Structure, Kids: []*ttlvref.Node{{Tag: 0x54F002, Type: ttlvref.Integer, I: 2}}})
			label = "separator=unknown-structure"
		case 2:
			inner.Kids = append(inner.Kids, &ttlvref.Node{Tag: 0x54F003, Type: ttlvref.Integer, I: 3})
			label = "separator=unknown-scalar"
		}
		inner.Kids = append(inner.Kids, moved)
		c.parent.Kids = append(c.parent.Kids[:c.n:c.n], c.parent.Kids[c.n+1:]...)
		enc := ttlvref.Write(tree)
		cs := c02NestCase{Kind: kind, TreeHex: hex.EncodeToString(enc), TreeText: tree.String()}
		nt := label == "separator=unknown-structure"
		rec.Case(nt, enc, label, "kind="+kind)
		rec.Eval(3)
		if nt && rec.WantSample() && tree.Count() < 40 {
			rec.Sample(cs)
		}
		if sig, err := c02NestRun(cs); err != nil {
			rec.Fail(rt, name, sig, err, cs)
		}
	})
}
