package codec

import (
	"encoding/json"
	"fmt"
	"strings"
	"sync"
	"testing"

	kmip "github.com/ovh/kmip-go"
	"github.com/ovh/kmip-go/ttlv"
	"pgregory.net/rapid"

	"verif/harness/evid"
	"verif/harness/vendortypes"
)

// Registrations made at run time through the public API (vendor tags, vendor values added to a built-in
// enumeration, vendor enumerations and masks) are part of the registry as well: whatever order lookups and
// registrations come in, every registered number keeps exactly one name and that name reads back as the number.
//
// The registry is process-wide and cannot be reset, so every execution (also while shrinking) uses fresh
// numbers and names: value = 0x80000000 | epoch<<8 | k, name = "Verif<epoch>x<k>".

// (the second vendor enumeration and the vendor mask are Go types of another package that happen to be called like
// standard tags - State, StorageStatusMask: a registration is by type and tag, the Go type's name means nothing)
type vendorEnumA uint32
type vendorEnumB = vendortypes.State
type vendorMaskA = vendortypes.StorageStatusMask

type c17Step struct {
	Op    string `json:"op"`    // by-name | by-name-unknown | by-value | register | register-tag | register-mask | roundtrip
	Scope int    `json:"scope"` // index into the scope list
	N     int    `json:"n"`     // register: number of values; others: which known entry
}

type c17Entry struct {
	tag   int
	value uint32
	name  string
}

var c17Epoch uint32
var c17MaskOnce sync.Once

func c17RuntimeRun(steps []c17Step) (string, error) {
	c17Epoch++
	ep := c17Epoch
	// scopes: three built-in enumerations and two vendor enumerations with tags of their own (fresh per execution)
	// sixteen tag numbers of its own for every execution, outside the two KMIP ranges (0x42xxxx, 0x54xxxx), so that neither
	// an earlier execution nor the built-in registry ever shares a tag or a name with this one
	base := 0x100000 + int(ep%0x30000)*16
	// (the Go types whose values are also encoded as such keep one tag for the whole process, as a type registered by a
	// vendor package does: vendorEnumB under 0x0FF001, the mask under 0x0FF002, registered once)
	vtagA, vtagB := base, 0x0FF001
	scopes := []int{0x420057 /* ObjectType */, 0x42005C /* Operation */, 0x420028 /* CryptographicAlgorithm */, vtagA, vtagB}
	var entries []c17Entry
	tagNames := map[int]string{}
	tagOfName := map[string]int{}
	var maskTag int
	var maskNames []string
	k := uint32(0)
	register := func(scope int, pairs map[uint32]string) error {
		return safely(func() error {
			switch scope {
			case 0:
				m := map[kmip.ObjectType]string{}
				for v, n := range pairs {
					m[kmip.ObjectType(v)] = n
				}
				ttlv.RegisterEnum(scopes[0], m)
			case 1:
				m := map[kmip.Operation]string{}
				for v, n := range pairs {
					m[kmip.Operation(v)] = n
				}
				ttlv.RegisterEnum(scopes[1], m)
			case 2:
				m := map[kmip.CryptographicAlgorithm]string{}
				for v, n := range pairs {
					m[kmip.CryptographicAlgorithm(v)] = n
				}
				ttlv.RegisterEnum(scopes[2], m)
			case 3:
				m := map[vendorEnumA]string{}
				for v, n := range pairs {
					m[vendorEnumA(v)] = n
				}
				ttlv.RegisterEnum(scopes[3], m)
			default:
				m := map[vendorEnumB]string{}
				for v, n := range pairs {
					m[vendorEnumB(v)] = n
				}
				ttlv.RegisterEnum(scopes[4], m)
			}
			return nil
		})
	}
	checkEntry := func(i int, e c17Entry, codecs bool) (string, error) {
		if got := ttlv.EnumName(e.tag, e.value); got != e.name {
			return "runtime-enum-name", fmt.Errorf("step %d: EnumName(0x%06X, 0x%08X) = %q, registered as %q", i, e.tag, e.value, got, e.name)
		}
		if got, err := ttlv.EnumByName(e.tag, e.name); err != nil || got != e.value {
			return "runtime-enum-by-name", fmt.Errorf("step %d: EnumByName(0x%06X, %q) = 0x%08X, %v; registered as 0x%08X (the name is written by the text forms but cannot be read back)", i, e.tag, e.name, got, err, e.value)
		}
		if !codecs {
			return "", nil
		}
		gv := ttlv.Value{Tag: e.tag, Value: ttlv.Enum(e.value)}
		for encName, codec := range map[string]struct {
			m func(any) []byte
			u func([]byte, any) error
		}{"xml": {ttlv.MarshalXML, ttlv.UnmarshalXML}, "json": {ttlv.MarshalJSON, ttlv.UnmarshalJSON}} {
			var out []byte
			var back ttlv.Value
			if err := safely(func() error { out = codec.m(gv); return codec.u(out, &back) }); err != nil {
				return "runtime-enum-roundtrip-" + encName, fmt.Errorf("step %d: 0x%06X=%s is written as %s and read back with: %w", i, e.tag, e.name, out, err)
			}
			if !strings.Contains(string(out), `"`+e.name+`"`) {
				return "runtime-enum-not-written-by-name-" + encName, fmt.Errorf("step %d: 0x%06X=%s written as %s", i, e.tag, e.name, out)
			}
			if ev, ok := back.Value.(ttlv.Enum); !ok || uint32(ev) != e.value || back.Tag != e.tag {
				return "runtime-enum-roundtrip-" + encName, fmt.Errorf("step %d: 0x%06X=%s (0x%08X) reads back as tag 0x%06X %#v", i, e.tag, e.name, e.value, back.Tag, back.Value)
			}
		}
		if txt := string(ttlv.MarshalText(gv)); !strings.HasSuffix(txt, ": "+e.name) {
			return "runtime-enum-text", fmt.Errorf("step %d: text form of 0x%06X=%s is %q", i, e.tag, e.name, txt)
		}
		// the same value as a Go value of the registered type (the vendor enumeration that keeps its tag; the other one gets a
		// new tag with every execution, which no real type does, and the encoder rightly resolves a type's scope once)
		typed := func(encName string, m func(any) []byte, u func([]byte, any) error) (string, error) {
			var out []byte
			var got uint32
			err := safely(func() error {
				switch e.tag {
				case vtagB:
					var back vendorEnumB
					out = m(vendorEnumB(e.value))
					err := u(out, &back)
					got = uint32(back)
					return err
				}
				got = e.value
				return nil
			})
			if err != nil || got != e.value {
				return "runtime-typed-enum-roundtrip-" + encName, fmt.Errorf("step %d: 0x%06X=%s as a value of its Go type is written as %s and reads back as 0x%08X, %v", i, e.tag, e.name, out, got, err)
			}
			if out != nil && !strings.Contains(string(out), `"`+e.name+`"`) {
				return "runtime-typed-enum-not-written-by-name-" + encName, fmt.Errorf("step %d: 0x%06X=%s as a value of its Go type is written as %s", i, e.tag, e.name, out)
			}
			return "", nil
		}
		if sig, err := typed("xml", ttlv.MarshalXML, ttlv.UnmarshalXML); err != nil {
			return sig, err
		}
		if sig, err := typed("json", ttlv.MarshalJSON, ttlv.UnmarshalJSON); err != nil {
			return sig, err
		}
		return "", nil
	}
	for i, s := range steps {
		scope := s.Scope % len(scopes)
		switch s.Op {
		case "register":
			pairs := map[uint32]string{}
			for j := 0; j <= s.N%3; j++ {
				k++
				v := 0x80000000 | (ep&0x7FFFFF)<<8 | (k & 0xFF)
				pairs[v] = fmt.Sprintf("Verif%dx%d", ep, k)
			}
			if err := register(scope, pairs); err != nil {
				return "runtime-register-panics", fmt.Errorf("step %d: %w", i, err)
			}
			for v, n := range pairs {
				entries = append(entries, c17Entry{scopes[scope], v, n})
			}
		case "register-tag":
			// three vendor tags and four names: a tag may be renamed and a name may move to another tag (the latest
			// registration decides); only tags whose current name currently denotes them are checked below
			tag := base + 5 + s.Scope%3
			name := fmt.Sprintf("VerifTag%dn%d", ep, s.N%4)
			if err := safely(func() error { ttlv.RegisterTag(name, tag); return nil }); err != nil {
				return "runtime-register-panics", fmt.Errorf("step %d: %w", i, err)
			}
			tagNames[tag] = name
			tagOfName[name] = tag
		case "register-mask":
			if maskTag != 0 {
				continue
			}
			maskTag = 0x0FF002
			// four bits, the second one reserved (no name), as the registration API allows
			maskNames = []string{"VerifFlagA", "", "VerifFlagC", "VerifFlagD"}
			var err error
			c17MaskOnce.Do(func() {
				err = safely(func() error { ttlv.RegisterBitmask[vendorMaskA](maskTag, maskNames...); return nil })
			})
			if err != nil {
				return "runtime-register-panics", fmt.Errorf("step %d: %w", i, err)
			}
		case "by-name-unknown":
			// a name nobody registered in this scope: an error, and (on implementations that index lazily) the first by-name lookup of the scope
			if v, err := ttlv.EnumByName(scopes[scope], fmt.Sprintf("VerifNever%dx%d", ep, i)); err == nil {
				return "runtime-unknown-name-resolves", fmt.Errorf("step %d: a never registered name resolves to 0x%08X", i, v)
			}
		case "by-name", "by-value", "roundtrip":
			var in []c17Entry
			for _, e := range entries {
				if e.tag == scopes[scope] {
					in = append(in, e)
				}
			}
			if len(in) == 0 {
				// nothing registered here yet: look up a built-in name where there is one
				if scope < 3 {
					for v, n := range ttlv.EnumValuesByTag(scopes[scope]) {
						if got, err := ttlv.EnumByName(scopes[scope], n); err != nil || got != v {
							return "runtime-enum-by-name", fmt.Errorf("step %d: built-in EnumByName(0x%06X, %q) = 0x%08X, %v; want 0x%08X", i, scopes[scope], n, got, err, v)
						}
						break
					}
				}
				continue
			}
			if sig, err := checkEntry(i, in[s.N%len(in)], s.Op == "roundtrip"); err != nil {
				return sig, err
			}
		}
		// invariant after every step: every entry registered so far has its name and its inverse
		for _, e := range entries {
			if sig, err := checkEntry(i, e, false); err != nil {
				return sig, err
			}
		}
		for tag, name := range tagNames {
			if tagOfName[name] != tag {
				continue // the name has since been given to another tag: this tag has no name of its own until it is renamed
			}
			if got := ttlv.TagString(tag); got != name {
				return "runtime-tag-name", fmt.Errorf("step %d: TagString(0x%06X) = %q, registered as %q", i, tag, got, name)
			}
			v := ttlv.Value{Tag: tag, Value: int32(7)}
			var back ttlv.Value
			var out []byte
			if err := safely(func() error { out = ttlv.MarshalXML(v); return ttlv.UnmarshalXML(out, &back) }); err != nil || back.Tag != tag || !strings.Contains(string(out), name) {
				return "runtime-tag-roundtrip", fmt.Errorf("step %d: tag %s (0x%06X) is written as %s and reads back as 0x%06X, %v", i, name, tag, out, back.Tag, err)
			}
		}
		if maskTag != 0 {
			for b, n := range maskNames {
				if n == "" {
					continue
				}
				if got, err := ttlv.BitmaskByStr(maskTag, n); err != nil || got != 1<<b {
					return "runtime-mask-by-name", fmt.Errorf("step %d: BitmaskByStr(0x%06X, %q) = %d, %v; want %d", i, maskTag, n, got, err, 1<<b)
				}
			}
			if got := string(ttlv.AppendBitmaskString(nil, maskTag, vendorMaskA(13), "|")); got != maskNames[0]+"|"+maskNames[2]+"|"+maskNames[3] {
				return "runtime-mask-name", fmt.Errorf("step %d: mask value 13 of 0x%06X is written %q", i, maskTag, got)
			}
			for encName, codec := range map[string]struct {
				m func(any) []byte
				u func([]byte, any) error
			}{"xml": {ttlv.MarshalXML, ttlv.UnmarshalXML}, "json": {ttlv.MarshalJSON, ttlv.UnmarshalJSON}} {
				var out []byte
				var back vendorMaskA
				err := safely(func() error { out = codec.m(vendorMaskA(13)); return codec.u(out, &back) })
				if err != nil || back != 13 {
					return "runtime-typed-mask-roundtrip-" + encName, fmt.Errorf("step %d: mask value 13 of 0x%06X as a value of its Go type is written as %s and reads back as %d, %v", i, maskTag, out, back, err)
				}
				// bits that have no name (the reserved second bit, bits beyond the registered ones) are numbers like any
				// other: whatever is written for them reads back as the same number; so is "no flag at all"
				for _, v := range []vendorMaskA{0, 2, 7, 0x10, 0x1F, 0x40000002} {
					var o2 []byte
					var b2 vendorMaskA
					err := safely(func() error { o2 = codec.m(v); return codec.u(o2, &b2) })
					if err != nil || b2 != v {
						return "runtime-mask-unnamed-bit-lost-" + encName, fmt.Errorf("step %d: mask value 0x%X of 0x%06X (flags %q, the second bit reserved) is written as %s and reads back as 0x%X, %v", i, int32(v), maskTag, maskNames, o2, int32(b2), err)
					}
				}
				for _, b := range []int{0, 2, 3} {
					if !strings.Contains(string(out), maskNames[b]) {
						return "runtime-typed-mask-not-written-by-name-" + encName, fmt.Errorf("step %d: mask value 13 of 0x%06X as a value of its Go type is written as %s", i, maskTag, out)
					}
				}
			}
		}
	}
	return "", nil
}

func TestC17RuntimeRegistration(t *testing.T) {
	const name = "TestC17RuntimeRegistration"
	rec := evid.New("C17", name, "stateful: sequences of 3..14 steps over {look a name up (registered / never registered), look a value up, register 1..3 vendor values in a scope (three built-in enumerations, two vendor enumerations), register a vendor tag, register a vendor mask, XML/JSON/text round trip of a registered value} "+
		"through the public RegisterEnum / RegisterTag / RegisterBitmask / EnumByName / EnumName APIs, in any order; oracle (model = the list of registrations): after every step every registered number has its name and the name reads back as the number, through the functions and through the text encodings; "+
		"non-trivial = a registration follows a by-name lookup in the same scope; distinct by step list").Attach(t)
	if rp := evid.LoadReplay(name); rp != nil {
		var steps []c17Step
		if err := json.Unmarshal(rp.Case, &steps); err != nil {
			t.Fatal(err)
		}
		if sig, err := c17RuntimeRun(steps); err != nil {
			t.Fatalf("VERIF-FAIL property=C17 test=%s sig=%s replay=: %v", name, sig, err)
		}
		return
	}
	ops := []string{"by-name", "by-name-unknown", "by-value", "register", "register", "register-tag", "register-mask", "roundtrip", "roundtrip"}
	rapid.Check(t, func(rt *rapid.T) {
		n := rapid.IntRange(3, 14).Draw(rt, "steps")
		var steps []c17Step
		looked := map[int]bool{}
		nt := false
		for i := 0; i < n; i++ {
			s := c17Step{Op: rapid.SampledFrom(ops).Draw(rt, "op"), Scope: rapid.IntRange(0, 4).Draw(rt, "scope"), N: rapid.IntRange(0, 5).Draw(rt, "n")}
			if strings.HasPrefix(s.Op, "by-name") || s.Op == "roundtrip" {
				looked[s.Scope] = true
			}
			if s.Op == "register" && looked[s.Scope] {
				nt = true
			}
			steps = append(steps, s)
		}
		key, _ := json.Marshal(steps)
		rec.Case(nt, key, fmt.Sprintf("register-after-lookup=%v", nt))
		rec.Eval(n)
		if nt && rec.WantSample() {
			rec.Sample(steps)
		}
		if sig, err := c17RuntimeRun(steps); err != nil {
			rec.Fail(rt, name, sig, err, steps)
		}
	})
}
