package codec

import (
	"bytes"
	"fmt"
	"reflect"
	"sort"
	"strings"
	"testing"

	kmip "github.com/ovh/kmip-go"
	"pgregory.net/rapid"

	"verif/harness/evid"
	"verif/harness/gen"
	"verif/harness/pins"
	"verif/harness/refwalk"
	"verif/harness/ttlvref"
)

var versionRows = func() []string {
	var out []string
	for k := range pins.Versions {
		out = append(out, k)
	}
	sort.Strings(out)
	return out
}()

func freshLike(msg any) any {
	if _, ok := msg.(*kmip.RequestMessage); ok {
		return &kmip.RequestMessage{}
	}
	return &kmip.ResponseMessage{}
}

// c05Check: encode side (gating per pinned table) and decode side (later elements accepted), in one encoding.
func c05Check(enc string, msg any, ver kmip.ProtocolVersion) (sig string, ref *ttlvref.Node, out []byte, err error) {
	w := &refwalk.Walker{Ver: &refwalk.Version{Major: int(ver.ProtocolVersionMajor), Minor: int(ver.ProtocolVersionMinor)}}
	ref, err = w.Message(msg)
	if err != nil {
		return "harness-refwalk", nil, nil, err
	}
	if err := safely(func() error { out = append([]byte{}, libMarshal(enc, msg)...); return nil }); err != nil {
		return "encode-panic:" + enc, ref, nil, err
	}
	// the same message handed to the encoder by value instead of through a pointer: same bytes (what is written does not
	// depend on whether the caller's variable is addressable)
	var byValue []byte
	if err := safely(func() error {
		byValue = append([]byte{}, libMarshal(enc, reflect.ValueOf(msg).Elem().Interface())...)
		return nil
	}); err != nil {
		return "encode-panic:" + enc + ":by-value", ref, nil, err
	}
	if !bytes.Equal(byValue, out) {
		return "gating-differs:" + enc + ":by-value", ref, byValue, fmt.Errorf("%s encoding at version %s of the message passed BY VALUE differs from the encoding of the same message passed by pointer:\n by value   %x\n by pointer %x", enc, ver, byValue, out)
	}
	var parsed *ttlvref.Node
	var perr error
	if enc == "binary" {
		parsed, perr = ttlvref.Parse(out, ttlvref.Strict)
	} else {
		parsed, perr = parseText(enc, out)
	}
	if perr != nil {
		return "encoding-malformed:" + enc, ref, out, perr
	}
	if d := ttlvref.Diff(ref, parsed); d != "" {
		return "gating-differs:" + enc + ":" + diffKind(d), ref, out, fmt.Errorf("%s encoding at version %s differs from the pinned gating (reference vs library): %s", enc, ver, d)
	}
	// decode direction: every populated element on the wire although the header says ver
	w2 := &refwalk.Walker{Ver: w.Ver, NoGate: true}
	full, err := w2.Message(msg)
	if err != nil {
		return "harness-refwalk", ref, out, err
	}
	wire := refEncode(full, enc)
	m2 := freshLike(msg)
	if err := safely(func() error { return libUnmarshal(enc, wire, m2) }); err != nil {
		return "decode-rejects-later-elements:" + enc + ":" + errKind(err), full, wire, fmt.Errorf("%s decoder at version %s rejects later-version elements present on the wire: %w", enc, ver, err)
	}
	if d := gen.Diff(msg, m2); d != "" {
		return "decode-loses-later-elements:" + enc + ":" + pathKind(d), full, wire, fmt.Errorf("%s decoder at version %s does not return later-version elements: %s", enc, ver, d)
	}
	return "", ref, out, nil
}

func TestC05Gating(t *testing.T) {
	const name = "TestC05Gating"
	rec := evid.New("C05", name, "for a drawn row of the pinned version table (61 fields in 20 structures) and a drawn version 1.0..1.4, a message forced to contain the owning structure "+
		"(directed operation/attribute/key-block choice) with random surroundings and later-version fields left populated, in a drawn encoding (binary, XML, JSON; text documents are read by the independent parsers); "+
		"non-trivial = some gated field is populated and the header version is lower than its first version; distinct by (populated gated rows, version, reference encoding)").Attach(t)
	covered := map[string]bool{}
	coveredEnc := map[string]bool{}
	rapid.Check(t, func(rt *rapid.T) {
		row := rapid.SampledFrom(versionRows).Draw(rt, "row")
		ver := rapid.SampledFrom(gen.Versions).Draw(rt, "version")
		owner := row[:strings.IndexByte(row, '.')]
		enc := rapid.SampledFrom(encodings).Draw(rt, "encoding")
		o := gen.MsgOpts{PopulateAll: rapid.IntRange(0, 2).Draw(rt, "populateAll") > 0, TextSafe: true,
			Alphabet: map[string]string{"binary": "utf8", "xml": "xml", "json": "json"}[enc]}
		msg, _ := gen.Directed(rt, owner, ver, o)
		rows := gen.PopulatedRows(msg)
		nt := false
		var labels []string
		for r := range rows {
			fv := pins.Versions[r]
			early := !pins.VersionAtLeast(int(ver.ProtocolVersionMajor), int(ver.ProtocolVersionMinor), fv[0], fv[1])
			if early {
				nt = true
			}
			l := fmt.Sprintf("%s@%s", r, ver)
			labels = append(labels, l)
			covered[l] = true
			coveredEnc[l+"/"+enc] = true
		}
		sig, ref, out, err := c05Check(enc, msg, ver)
		labels = append(labels, "enc="+enc)
		if ref != nil {
			rec.Case(nt, append([]byte(enc), ttlvref.Write(ref)...), labels...)
			if nt && rec.WantSample() && ref.Count() < 50 {
				rec.Sample(map[string]any{"row": row, "version": ver.String(), "expected_tree_at_version": ref.String()})
			}
		}
		if err != nil {
			c := mkMsgCase("row="+row+" enc="+enc, ver, ref, nil)
			if enc == "binary" {
				c.LibHex = fmt.Sprintf("%x", out)
			} else {
				c.LibHex = string(out)
			}
			rec.Fail(rt, name, sig, err, c)
		}
	})
	rec.Set("row_x_version_populated_covered", len(covered))
	rec.Set("row_x_version_total", len(versionRows)*len(gen.Versions))
	rec.Set("row_x_version_x_encoding_covered", len(coveredEnc))
	var missing []string
	for _, r := range versionRows {
		for _, v := range gen.Versions {
			if !covered[fmt.Sprintf("%s@%s", r, v)] {
				missing = append(missing, fmt.Sprintf("%s@%s", r, v))
			}
		}
	}
	rec.Set("row_x_version_missing", missing)
}
