package codec

import (
	"encoding"
	"encoding/json"
	"fmt"
	"reflect"
	"sort"
	"testing"

	"pgregory.net/rapid"

	"verif/harness/evid"
	"verif/harness/pins"
)

// What is written by name is read back as the same number - also when the reader gets round to it later. A program
// that renders several values (the rows of a listing, the fields of a log record) holds the texts MarshalText returned
// while it renders the next ones; each text keeps denoting its own number.

type c17HeldItem struct {
	Type  string `json:"go_type"`
	Value int64  `json:"value"`
}


// c17HeldRun renders the values one after the other, holds the texts, and reads them back.
func c17HeldRun(items []c17HeldItem, types []reflect.Type) (sig string, err error) {
	n := len(items)
	var vals []reflect.Value
	for _, it := range items {
		var ty reflect.Type
		for _, t := range types {
			if t.Name() == it.Type {
				ty = t
			}
		}
		if ty == nil {
			return "harness-unknown-type", fmt.Errorf("no type %s", it.Type)
		}
		pv := reflect.New(ty).Elem()
		if ty.Kind() == reflect.Int32 {
			pv.SetInt(it.Value)
		} else {
			pv.SetUint(uint64(it.Value))
		}
		vals = append(vals, pv)
	}
	texts := make([][]byte, n)
	first := make([]string, n)
	for i, pv := range vals {
		var merr error
		if perr := safely(func() error { texts[i], merr = pv.Interface().(encoding.TextMarshaler).MarshalText(); return nil }); perr != nil || merr != nil {
			return "marshaltext-fails", fmt.Errorf("%s(%d).MarshalText: %v %v", items[i].Type, items[i].Value, perr, merr)
		}
		first[i] = string(texts[i])
	}
	for i, pv := range vals {
		back := reflect.New(pv.Type())
		tu, ok := back.Interface().(encoding.TextUnmarshaler)
		if !ok {
			continue
		}
		uerr := safely(func() error { return tu.UnmarshalText(texts[i]) })
		same := uerr == nil
		if same && pv.Kind() == reflect.Int32 {
			same = back.Elem().Int() == pv.Int()
		} else if same {
			same = back.Elem().Uint() == pv.Uint()
		}
		if !same {
			sig := "text-read-back-differs"
			if string(texts[i]) != first[i] {
				sig = "held-text-changed-by-later-marshaltext"
			}
			return sig, fmt.Errorf("value %d of %d: %s(%d) was written as %q; after the other values were written the held text is %q and reads back as %v (error %v)",
				i+1, n, items[i].Type, items[i].Value, first[i], texts[i], back.Elem().Interface(), uerr)
		}
	}
	return "", nil
}

func TestC17HeldTexts(t *testing.T) {
	const name = "TestC17HeldTexts"
	ets, mts := enumGoTypes()
	var types []reflect.Type
	for _, et := range append(append([]reflect.Type{}, ets...), mts...) {
		if _, ok := pins.Tags[et.Name()]; !ok {
			continue
		}
		if _, ok := reflect.New(et).Elem().Interface().(encoding.TextMarshaler); ok {
			types = append(types, et)
		}
	}
	sort.Slice(types, func(i, j int) bool { return types[i].Name() < types[j].Name() })
	var maskTypes []reflect.Type
	for _, mt := range types {
		if mt.Kind() == reflect.Int32 {
			maskTypes = append(maskTypes, mt)
		}
	}
	rec := evid.New("C17", name, fmt.Sprintf("2..8 values of the %d typed enumerations and %d typed bit masks (registered and unregistered numbers, masks with any combination of flags; half of the cases masks only) rendered by MarshalText one after the other, "+
		"the returned texts being held as they were returned; then every text is read back with UnmarshalText; oracle: each text still reads back as its own number; non-trivial = every case (distinct by the value list)", len(types)-len(maskTypes), len(maskTypes))).Attach(t)
	if len(maskTypes) == 0 {
		t.Fatalf("VERIF-INCONCLUSIVE harness-no-mask-types")
	}
	if rp := evid.LoadReplay(name); rp != nil {
		var items []c17HeldItem
		if err := json.Unmarshal(rp.Case, &items); err != nil {
			t.Fatal(err)
		}
		if sig, err := c17HeldRun(items, types); err != nil {
			t.Fatalf("VERIF-FAIL property=C17 test=%s sig=%s replay=: %v", name, sig, err)
		}
		return
	}
	rapid.Check(t, func(rt *rapid.T) {
		n := rapid.IntRange(2, 8).Draw(rt, "n")
		masksOnly := rapid.Bool().Draw(rt, "masksonly")
		var items []c17HeldItem
		var vals []reflect.Value
		for i := 0; i < n; i++ {
			ty := rapid.SampledFrom(types).Draw(rt, "type")
			if masksOnly {
				ty = rapid.SampledFrom(maskTypes).Draw(rt, "masktype")
			}
			pv := reflect.New(ty).Elem()
			if ty.Kind() == reflect.Int32 {
				flags := pins.Masks[pins.Tags[ty.Name()]]
				v := int32(rapid.Uint32Range(0, uint32(1)<<uint(len(flags))-1).Draw(rt, "mask"))
				if rapid.IntRange(0, 5).Draw(rt, "unnamedbit") == 0 {
					v |= int32(uint32(1) << uint(rapid.IntRange(len(flags), 31).Draw(rt, "bit")))
				}
				pv.SetInt(int64(v))
				items = append(items, c17HeldItem{ty.Name(), int64(v)})
			} else {
				known := make([]uint32, 0)
				for v := range pins.Enums[pins.Tags[ty.Name()]] {
					known = append(known, v)
				}
				sort.Slice(known, func(i, j int) bool { return known[i] < known[j] })
				v := rapid.Uint32().Draw(rt, "unregistered")
				if len(known) > 0 && rapid.IntRange(0, 4).Draw(rt, "registered") != 0 {
					v = rapid.SampledFrom(known).Draw(rt, "value")
				}
				pv.SetUint(uint64(v))
				items = append(items, c17HeldItem{ty.Name(), int64(v)})
			}
			vals = append(vals, pv)
		}
		rec.Case(true, []byte(fmt.Sprintf("%v", items)), fmt.Sprintf("masksonly=%v", masksOnly))
		if rec.WantSample() {
			rec.Sample(items)
		}
		if sig, err := c17HeldRun(items, types); err != nil {
			rec.Fail(rt, name, sig, err, items)
			return
		}
		rec.Eval(n)
	})
}
