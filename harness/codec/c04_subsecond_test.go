package codec

import (
	"bytes"
	"fmt"
	"math"
	"testing"
	"time"

	"github.com/ovh/kmip-go/ttlv"
	"pgregory.net/rapid"

	"verif/harness/evid"
	"verif/harness/gen"
)

// Go's time.Duration and time.Time are finer than the second the wire formats carry. Whatever an encoder does with
// the part below a second, the three encoders do the same: the XML and JSON documents of a value decode to something
// whose binary encoding is that of the value itself.

func TestC04SubSecond(t *testing.T) {
	const name = "TestC04SubSecond"
	rec := evid.New("C04", name, "single Interval and Date-Time items (registered and vendor tags, alone or three in a structure) whose Go values are not whole seconds: N seconds (N boundary-biased over 0..2^32-1, dates over years 1..9999 in several locations) plus or minus 1 ns, 100 ns, 238 ns, 1 us, 0.5 s, 999999999 ns; "+
		"oracle: binary(decode(xml(v))) == binary(v) == binary(decode(json(v))), and both documents decode; non-trivial = every case (distinct by the values)").Attach(t)
	fracs := []int64{1, -1, 100, -100, 238, -238, 1000, -1000, 500000000, -500000000, 999999999, -999999999, 0}
	rapid.Check(t, func(rt *rapid.T) {
		n := rapid.SampledFrom([]int{1, 1, 3}).Draw(rt, "items")
		var items ttlv.Struct
		var desc []string
		for i := 0; i < n; i++ {
			f := rapid.SampledFrom(fracs).Draw(rt, "fraction")
			if rapid.Bool().Draw(rt, "interval") {
				sec := gen.IntervalSec(rt, "sec")
				if sec == 0 && f < 0 || sec == math.MaxUint32 && f > 0 {
					f = 0 // stays inside what an Interval can hold
				}
				d := time.Duration(sec)*time.Second + time.Duration(f)
				if sec > math.MaxInt64/int64(time.Second) {
					d = time.Duration(sec) * time.Second
				}
				tag := rapid.SampledFrom([]int{0x420049, 0x540001}).Draw(rt, "tag")
				items = append(items, ttlv.Value{Tag: tag, Value: d})
				desc = append(desc, fmt.Sprintf("interval %d ns", int64(d)))
			} else {
				sec := gen.DateSec(rt, "date", true)
				tm := gen.InZone(time.Unix(sec, f).Add(0), rapid.IntRange(0, 79).Draw(rt, "zone"))
				tag := rapid.SampledFrom([]int{0x420092, 0x540002}).Draw(rt, "tag")
				items = append(items, ttlv.Value{Tag: tag, Value: tm})
				desc = append(desc, fmt.Sprintf("date %d s %+d ns in %s", sec, f, tm.Location()))
			}
		}
		var v any = items[0]
		if n > 1 {
			v = ttlv.Value{Tag: 0x540010, Value: items}
		}
		rec.Case(true, []byte(fmt.Sprint(desc)), fmt.Sprintf("items=%d", n))
		if rec.WantSample() {
			rec.Sample(desc)
		}
		var bin []byte
		if err := safely(func() error { bin = append([]byte{}, ttlv.MarshalTTLV(v)...); return nil }); err != nil {
			rec.Fail(rt, name, "encode-panics:binary", err, desc)
			return
		}
		for _, enc := range []string{"xml", "json"} {
			var doc []byte
			if err := safely(func() error { doc = append([]byte{}, libMarshal(enc, v)...); return nil }); err != nil {
				rec.Fail(rt, name, "encode-panics:"+enc, err, desc)
				return
			}
			var back ttlv.Value
			if err := safely(func() error { return libUnmarshal(enc, doc, &back) }); err != nil {
				rec.Fail(rt, name, "own-document-rejected:"+enc, fmt.Errorf("%s document %s of %v is not accepted by the %s decoder: %w", enc, doc, desc, enc, err), desc)
				return
			}
			var bin2 []byte
			if err := safely(func() error { bin2 = ttlv.MarshalTTLV(back); return nil }); err != nil {
				rec.Fail(rt, name, "encode-panics:binary-after-"+enc, err, desc)
				return
			}
			if !bytes.Equal(bin, bin2) {
				rec.Fail(rt, name, "binary-differs-after-"+enc+":sub-second", fmt.Errorf("%v: binary encoding %x, after the %s round trip (%s) %x", desc, bin, enc, doc, bin2), desc)
				return
			}
		}
		rec.Eval(2 * n)
	})
}
