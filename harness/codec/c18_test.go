package codec

import (
	"bytes"
	"encoding/hex"
	"encoding/json"
	"fmt"
	"strconv"
	"strings"
	"testing"
	"time"
	"unicode/utf8"

	"github.com/ovh/kmip-go/ttlv"
	"pgregory.net/rapid"

	"verif/harness/evid"
	"verif/harness/gen"
	"verif/harness/pins"
	"verif/harness/refwalk"
	"verif/harness/ttlvref"
)

type c18Case struct {
	Encoding string `json:"encoding"`
	Target   string `json:"target"`
	DataHex  string `json:"data_hex"`
	Text     string `json:"data_text,omitempty"`
	Rewrite  string `json:"rewrite,omitempty"`
	// LocalOffsetMin != 0: the process runs in a local time zone that many minutes east of UTC (time.Local is set for the
	// duration of the case): a forwarding process is not necessarily configured for UTC
	LocalOffsetMin int `json:"process_local_zone_offset_minutes,omitempty"`
}

func encodeSafely(enc string, v any) (out []byte, err error) {
	err = safely(func() error { out = append([]byte{}, libMarshal(enc, v)...); return nil })
	return
}

func xmlRepresentable(s []byte) bool {
	if !utf8.Valid(s) {
		return false
	}
	for _, r := range string(s) {
		if !(r == 0x9 || r == 0xA || r == 0xD || r >= 0x20 && r <= 0xD7FF || r >= 0xE000 && r <= 0xFFFD || r >= 0x10000 && r <= 0x10FFFF) {
			return false
		}
	}
	return true
}

// c18Run: the literal fixed-point statement. Returns accepted=false when the input is rejected (no obligation).
func c18Run(c c18Case) (accepted bool, nonCanonical bool, skippedB int, sig string, err error) {
	if c.LocalOffsetMin != 0 {
		old := time.Local
		time.Local = time.FixedZone("verif-local", c.LocalOffsetMin*60)
		defer func() { time.Local = old }()
	}
	data, _ := hex.DecodeString(c.DataHex)
	tg := targetByName(c.Target)
	r := decodeInto(c.Encoding, append([]byte{}, data...), tg)
	if r.hung || r.panicked {
		return false, false, 0, "", nil // C02's business
	}
	if r.err != nil {
		return false, false, 0, "", nil
	}
	v := r.val
	A := c.Encoding
	fix := func(E string, val any, first []byte) (string, error) {
		// first = Enc_E(val); decode it again and re-encode: must succeed and be identical
		r2 := decodeInto(E, append([]byte{}, first...), tg)
		if r2.hung || r2.panicked || r2.err != nil {
			return "redecode-fails:" + E, fmt.Errorf("re-encoding in %s is not accepted by the %s decoder: %v\n%s", E, E, r2.err, clip(first))
		}
		second, err := encodeSafely(E, r2.val)
		if err != nil {
			return "second-encode-panics:" + E, err
		}
		if !bytes.Equal(first, second) {
			return "no-fixed-point:" + E, fmt.Errorf("second re-encoding in %s differs from the first:\n first  %s\n second %s", E, clip(first), clip(second))
		}
		return "", nil
	}
	e1, eerr := encodeSafely(A, v)
	if eerr != nil {
		return true, true, 0, "encode-panics:" + A + ":" + errKind(eerr), fmt.Errorf("encoding the accepted value in %s panics: %w", A, eerr)
	}
	nonCanonical = !bytes.Equal(e1, data)
	if s, err := fix(A, v, e1); err != nil {
		return true, nonCanonical, 0, s, err
	}
	// representability of the decoded value in the other encodings, evaluated on the value itself
	bin, berr := encodeSafely("binary", v)
	if berr != nil {
		return true, nonCanonical, 0, "encode-panics:binary:" + errKind(berr), fmt.Errorf("encoding the accepted value in binary panics: %w", berr)
	}
	tree, perr := ttlvref.Parse(bin, ttlvref.Lenient)
	xmlOK, jsonOK, datesOK := true, true, true
	if perr != nil {
		// cannot evaluate the predicate: count as skipped, not as passed
		return true, nonCanonical, 2, "", nil
	}
	tree.Walk(func(n *ttlvref.Node, _ int) {
		switch n.Type {
		case ttlvref.TextString:
			if !utf8.Valid(n.B) {
				jsonOK = false
			}
			if !xmlRepresentable(n.B) {
				xmlOK = false
			}
		case ttlvref.DateTime:
			if n.I < -62135596800+86400 || n.I > 253402300799-86400 {
				datesOK = false
			}
		}
	})
	for _, B := range encodings {
		if B == A {
			continue
		}
		if B != "binary" && (!datesOK || (B == "xml" && !xmlOK) || (B == "json" && !jsonOK)) {
			skippedB++
			continue
		}
		b1, err := encodeSafely(B, v)
		if err != nil {
			return true, nonCanonical, skippedB, "encode-panics:" + B + ":" + errKind(err), fmt.Errorf("encoding the value accepted from %s in %s panics: %w", A, B, err)
		}
		if s, err := fix(B, v, b1); err != nil {
			return true, nonCanonical, skippedB, "via-" + s, err
		}
	}
	return true, nonCanonical, skippedB, "", nil
}

func clip(b []byte) string {
	s := string(b)
	if !utf8.Valid(b) || bytes.IndexByte(b, 0) >= 0 {
		s = hex.EncodeToString(b)
	}
	if len(s) > 600 {
		s = s[:600] + "..."
	}
	return s
}

// ---- non-canonical binary writer

func writeNonCanonical(rt *rapid.T, n *ttlvref.Node, b []byte, notes *[]string) []byte {
	hdr := func(l int) {
		b = append(b, byte(n.Tag>>16), byte(n.Tag>>8), byte(n.Tag), byte(n.Type), byte(l>>24), byte(l>>16), byte(l>>8), byte(l))
	}
	odd := func(label string) bool { return rapid.IntRange(0, 3).Draw(rt, label) == 0 }
	switch n.Type {
	case ttlvref.Structure:
		var body []byte
		kids := n.Kids
		for _, k := range kids {
			body = writeNonCanonical(rt, k, body, notes)
		}
		hdr(len(body))
		return append(b, body...)
	case ttlvref.Integer, ttlvref.Enumeration, ttlvref.Interval:
		hdr(4)
		b = append(b, byte(n.I>>24), byte(n.I>>16), byte(n.I>>8), byte(n.I))
		if odd("pad4") {
			*notes = append(*notes, "nonzero-padding")
			return append(b, 0xDE, 0xAD, 0xBE, 0xEF)
		}
		return append(b, 0, 0, 0, 0)
	case ttlvref.LongInteger, ttlvref.DateTime:
		hdr(8)
		for i := 7; i >= 0; i-- {
			b = append(b, byte(uint64(n.I)>>(8*uint(i))))
		}
		return b
	case ttlvref.Boolean:
		hdr(8)
		raw := uint64(0)
		if n.I != 0 {
			raw = 1
		}
		if odd("boolraw") {
			raw = rapid.SampledFrom([]uint64{2, 0xFF, 0x100, 0x0100000000000000, 0xFFFFFFFFFFFFFFFF, 0x8000000000000001}).Draw(rt, "boolval")
			*notes = append(*notes, "boolean-not-0-1")
		}
		for i := 7; i >= 0; i-- {
			b = append(b, byte(raw>>(8*uint(i))))
		}
		return b
	case ttlvref.BigInteger:
		raw := ttlvref.ToTwos(n.Big, 8)
		if odd("biglong") {
			ext := byte(0)
			if n.Big.Sign() < 0 {
				ext = 0xFF
			}
			k := 8 * rapid.IntRange(1, 3).Draw(rt, "bigext")
			raw = append(bytes.Repeat([]byte{ext}, k), raw...)
			*notes = append(*notes, "overlong-bigint")
		}
		hdr(len(raw))
		return append(b, raw...)
	default:
		hdr(len(n.B))
		b = append(b, n.B...)
		p := (8 - len(n.B)%8) % 8
		if p > 0 && odd("padv") {
			*notes = append(*notes, "nonzero-padding")
			return append(b, bytes.Repeat([]byte{0xA5}, p)...)
		}
		return append(b, make([]byte, p)...)
	}
}

// structural rewrites on a message tree: unknown trailing fields, reordering, dropping.
func rewriteTree(rt *rapid.T, root *ttlvref.Node, notes *[]string) {
	var structs []*ttlvref.Node
	root.Walk(func(n *ttlvref.Node, _ int) {
		if n.Type == ttlvref.Structure {
			structs = append(structs, n)
		}
	})
	// zero-length strings: one input in four has one or two of its byte / text strings emptied (an empty value is a value;
	// whether it survives a hop must not depend on the encoding the hop goes through)
	var strs []*ttlvref.Node
	root.Walk(func(n *ttlvref.Node, _ int) {
		if n.Type == ttlvref.ByteString || n.Type == ttlvref.TextString {
			strs = append(strs, n)
			if n.Type == ttlvref.ByteString {
				strs = append(strs, n, n)
			}
		}
	})
	switch es := rapid.IntRange(0, 5).Draw(rt, "emptystrings"); {
	case len(strs) > 0 && es == 0:
		for i := rapid.IntRange(1, 2).Draw(rt, "nempty"); i > 0; i-- {
			strs[rapid.IntRange(0, len(strs)-1).Draw(rt, "whichstr")].B = []byte{}
		}
		*notes = append(*notes, "emptied-string")
	case len(strs) > 0 && es == 1:
		// every byte string at once (few message fields hold byte strings; fewer still are optional)
		for _, n := range strs {
			if n.Type == ttlvref.ByteString {
				n.B = []byte{}
			}
		}
		*notes = append(*notes, "emptied-all-byte-strings")
	}
	k := rapid.IntRange(0, 2).Draw(rt, "nrewrites")
	for i := 0; i < k && len(structs) > 0; i++ {
		s := structs[rapid.IntRange(0, len(structs)-1).Draw(rt, "which")]
		switch rapid.IntRange(0, 3).Draw(rt, "rewrite") {
		case 0:
			to := gen.DefaultTreeOpts()
			to.MaxDepth, to.MaxFanout, to.TextSafe, to.Alphabet = 2, 2, true, "ascii"
			extra := gen.Tree(rt, to)
			extra.Tag = 0x540000 + rapid.IntRange(1, 50).Draw(rt, "xtag")
			s.Kids = append(s.Kids, extra)
			*notes = append(*notes, "unknown-trailing-field")
		case 1:
			if len(s.Kids) >= 2 {
				a := rapid.IntRange(0, len(s.Kids)-2).Draw(rt, "swap")
				s.Kids[a], s.Kids[a+1] = s.Kids[a+1], s.Kids[a]
				*notes = append(*notes, "reordered-fields")
			}
		case 2:
			if len(s.Kids) >= 1 {
				d := rapid.IntRange(0, len(s.Kids)-1).Draw(rt, "drop")
				s.Kids = append(s.Kids[:d:d], s.Kids[d+1:]...)
				*notes = append(*notes, "dropped-field")
			}
		default:
			if len(s.Kids) >= 1 {
				d := rapid.IntRange(0, len(s.Kids)-1).Draw(rt, "dup")
				s.Kids = append(s.Kids, s.Kids[d].Clone())
				*notes = append(*notes, "duplicated-field")
			}
		}
	}
}

// ---- alternative lexical forms for XML and JSON

var maskTags = map[int]bool{0x42002C: true, 0x42008E: true}

// altScalar returns the alternative XML value text (xml) or raw JSON value (json) of a leaf.
func altScalar(rt *rapid.T, n *ttlvref.Node, enc string, notes *[]string) (string, bool) {
	if rapid.IntRange(0, 2).Draw(rt, "alt") != 0 {
		return "", false
	}
	q := func(s string) string {
		if enc == "json" {
			b, _ := json.Marshal(s)
			return string(b)
		}
		return s
	}
	switch n.Type {
	case ttlvref.Integer:
		if flags, ok := pins.Masks[n.Tag]; ok || maskTags[n.Tag] {
			// mask written as tokens: names, hex and decimal numbers, extra blanks
			sep := " "
			if enc == "json" {
				sep = "|"
			}
			var toks []string
			for i := 0; i < 31; i++ {
				if n.I&(1<<uint(i)) == 0 {
					continue
				}
				switch {
				case i < len(flags) && rapid.Bool().Draw(rt, "byname"):
					toks = append(toks, flags[i])
				case rapid.Bool().Draw(rt, "hextok"):
					toks = append(toks, fmt.Sprintf("0x%08X", uint32(1)<<uint(i)))
				default:
					toks = append(toks, strconv.Itoa(1<<uint(i)))
				}
			}
			if n.I < 0 || len(toks) == 0 {
				return "", false
			}
			if rapid.Bool().Draw(rt, "blanks") {
				if enc == "json" {
					sep = " | "
				} else {
					sep = "  "
				}
			}
			*notes = append(*notes, "mask-tokens")
			return q(strings.Join(toks, sep)), true
		}
		if n.I >= 0 {
			*notes = append(*notes, "integer-hex")
			return q(fmt.Sprintf("0x%X", n.I)), true
		}
		if enc == "json" {
			*notes = append(*notes, "integer-decimal-string")
			return q(strconv.FormatInt(n.I, 10)), true
		}
	case ttlvref.LongInteger:
		*notes = append(*notes, "long-hex")
		return q(fmt.Sprintf("0x%016x", uint64(n.I))), true
	case ttlvref.Enumeration:
		switch rapid.IntRange(0, 2).Draw(rt, "enumform") {
		case 0:
			if name, ok := pins.Enums[n.Tag][uint32(n.I)]; ok {
				*notes = append(*notes, "enum-by-name")
				return q(name), true
			}
		case 1:
			*notes = append(*notes, "enum-decimal")
			if enc == "json" && rapid.Bool().Draw(rt, "enumnum") {
				return strconv.FormatInt(n.I, 10), true
			}
			return q(strconv.FormatInt(n.I, 10)), true
		default:
			*notes = append(*notes, "enum-short-hex")
			return q(fmt.Sprintf("0x%x", n.I)), true
		}
	case ttlvref.Boolean:
		*notes = append(*notes, "boolean-alt")
		if enc == "json" {
			if n.I != 0 {
				return q(rapid.SampledFrom([]string{"0x1", "0x0000000000000001", "1", "0xFF"}).Draw(rt, "jb")), true
			}
			return q(rapid.SampledFrom([]string{"0x0", "0"}).Draw(rt, "jb")), true
		}
		if n.I != 0 {
			return rapid.SampledFrom([]string{"True", "TRUE", "1", "T", "t"}).Draw(rt, "xb"), true
		}
		return rapid.SampledFrom([]string{"False", "FALSE", "0", "F", "f"}).Draw(rt, "xb"), true
	case ttlvref.DateTime:
		t := time.Unix(n.I, 0).UTC()
		*notes = append(*notes, "date-zoned-or-fractional")
		switch rapid.IntRange(0, 4).Draw(rt, "dateform") {
		case 3, 4:
			// the hexadecimal epoch form (JSON) / a plain year boundary, with values around the years the text forms can carry
			sec := rapid.SampledFrom([]int64{n.I, 253402300799, 253402300800, 253402300800 + 86400*366, 1 << 40, -62135596800, -62135596801, -62167219200, 1<<63 - 1, -1 << 63, 0, -1}).Draw(rt, "epoch")
			if enc == "json" {
				*notes = append(*notes, "date-hex-epoch")
				return q(fmt.Sprintf("0x%016X", uint64(sec))), true
			}
			*notes = append(*notes, "date-year-boundary")
			if rapid.Bool().Draw(rt, "boundaryzone") {
				// the local time of a year boundary with a zone offset that puts the instant on the other side of it
				return q(rapid.SampledFrom([]string{"9999-12-31T23:59:59-01:00", "9999-12-31T23:59:59-00:01", "9999-12-31T10:00:00-14:00", "9999-12-31T23:59:59+00:00",
					"0001-01-01T00:00:00+01:00", "0001-01-01T00:00:00+14:00", "0001-01-01T00:00:00-01:00", "9999-12-31T23:59:59.999999999-00:01"}).Draw(rt, "zonedboundary")), true
			}
			return q(time.Unix(sec, 0).UTC().Format(time.RFC3339)), true
		case 0:
			return q(t.In(time.FixedZone("", 2*3600+1800)).Format(time.RFC3339)), true
		case 1:
			return q(t.Add(500 * time.Millisecond).Format(time.RFC3339Nano)), true
		default:
			return q(t.In(time.FixedZone("", -11*3600)).Format(time.RFC3339)), true
		}
	case ttlvref.Interval:
		*notes = append(*notes, "interval-alt")
		if enc == "json" {
			switch rapid.IntRange(0, 3).Draw(rt, "ivform") {
			case 0:
				return q(fmt.Sprintf("0x%X", n.I)), true
			case 1:
				return strconv.FormatInt(-n.I-1, 10), true // negative number
			case 2:
				return strconv.FormatInt(n.I+(1<<32), 10), true // beyond 32 bits
			default:
				return rapid.SampledFrom([]string{"9223372036", "9223372037", "18446744073709551615", "-9223372036854775808"}).Draw(rt, "ivhuge"), true
			}
		}
		return fmt.Sprintf("0x%X", n.I), true
	case ttlvref.ByteString:
		*notes = append(*notes, "hex-lowercase")
		return q(hex.EncodeToString(n.B)), true
	case ttlvref.BigInteger:
		if enc == "json" && n.Big.IsInt64() && n.Big.Int64() > -(1<<52) && n.Big.Int64() < 1<<52 {
			*notes = append(*notes, "bigint-json-number")
			return n.Big.String(), true
		}
		raw := ttlvref.ToTwos(n.Big, 1)
		*notes = append(*notes, "bigint-unpadded-hex")
		s := hex.EncodeToString(raw)
		if enc == "json" {
			return q("0x" + s), true
		}
		return s, true
	}
	return "", false
}

func writeXMLAlt(rt *rapid.T, b *bytes.Buffer, n *ttlvref.Node, notes *[]string) {
	name := pins.TagNames[n.Tag]
	el, attrs := name, ""
	if name == "" || rapid.IntRange(0, 15).Draw(rt, "ttlvform") == 0 {
		el, attrs = "TTLV", fmt.Sprintf(` tag="0x%06x"`, n.Tag)
	}
	if n.Type == ttlvref.Structure {
		fmt.Fprintf(b, "<%s%s>", el, attrs)
		if rapid.IntRange(0, 9).Draw(rt, "ws") == 0 {
			b.WriteString("\n  <!-- c -->\n")
		}
		for _, k := range n.Kids {
			writeXMLAlt(rt, b, k, notes)
		}
		fmt.Fprintf(b, "</%s>", el)
		return
	}
	var one bytes.Buffer
	sub := &ttlvref.Node{}
	*sub = *n
	one.Write(ttlvref.WriteXML(sub, func(int) string { return "" }))
	val, ok := altScalar(rt, n, "xml", notes)
	if !ok {
		// canonical scalar text from the independent writer
		s := one.String()
		i := strings.Index(s, `value="`)
		val = s[i+7 : len(s)-3]
		fmt.Fprintf(b, `<%s%s type="%s" value="%s"/>`, el, attrs, ttlvref.TypeNames[n.Type], val)
		return
	}
	var esc bytes.Buffer
	esc.WriteString(strings.NewReplacer("&", "&amp;", "<", "&lt;", `"`, "&quot;").Replace(val))
	if rapid.Bool().Draw(rt, "openclose") {
		fmt.Fprintf(b, `<%s%s type="%s" value="%s"></%s>`, el, attrs, ttlvref.TypeNames[n.Type], esc.String(), el)
	} else {
		fmt.Fprintf(b, `<%s%s value="%s" type="%s"/>`, el, attrs, esc.String(), ttlvref.TypeNames[n.Type])
	}
}

func writeJSONAlt(rt *rapid.T, b *bytes.Buffer, n *ttlvref.Node, notes *[]string) {
	name := pins.TagNames[n.Tag]
	if name == "" || rapid.IntRange(0, 15).Draw(rt, "hextag") == 0 {
		name = fmt.Sprintf("0x%06x", n.Tag)
	}
	tagj, _ := json.Marshal(name)
	if n.Type == ttlvref.Structure {
		fmt.Fprintf(b, `{"tag":%s, "value":[`, tagj)
		for i, k := range n.Kids {
			if i > 0 {
				b.WriteString(" ,\n")
			}
			writeJSONAlt(rt, b, k, notes)
		}
		b.WriteString("]}")
		return
	}
	val, ok := altScalar(rt, n, "json", notes)
	if !ok {
		s := string(ttlvref.WriteJSON(n, func(int) string { return "" }))
		i := strings.Index(s, `"value":`)
		val = s[i+8 : len(s)-1]
	}
	if rapid.Bool().Draw(rt, "keyorder") {
		fmt.Fprintf(b, `{"value":%s,"type":"%s","tag":%s}`, val, ttlvref.TypeNames[n.Type], tagj)
	} else {
		fmt.Fprintf(b, `{"tag":%s,"type":"%s","value":%s}`, tagj, ttlvref.TypeNames[n.Type], val)
	}
}

func drawC18(rt *rapid.T) (c18Case, []string) {
	enc := rapid.SampledFrom(encodings).Draw(rt, "encoding")
	alphabet := map[string]string{"binary": "utf8", "xml": "xml", "json": "json"}[enc]
	var notes []string
	var tree *ttlvref.Node
	tg := targets[0]
	o := gen.MsgOpts{Alphabet: alphabet, TextSafe: enc != "binary" || rapid.Bool().Draw(rt, "textsafe")}
	w := &refwalk.Walker{}
	switch rapid.IntRange(0, 3).Draw(rt, "source") {
	case 0:
		to := gen.DefaultTreeOpts()
		to.MaxDepth, to.Alphabet, to.TextSafe = 4, alphabet, o.TextSafe
		tree = gen.Tree(rt, to)
		if rapid.IntRange(0, 7).Draw(rt, "large") == 0 {
			// one generic input in eight is large (1 KiB .. 250 KiB binary): re-encodings cross the writers' buffer growth steps
			if tree.Type != ttlvref.Structure {
				tree = &ttlvref.Node{Tag: 0x420078, Type: ttlvref.Structure, Kids: []*ttlvref.Node{tree}}
			}
			notes = append(notes, inflate(rt, tree)...)
		}
		if rapid.IntRange(0, 7).Draw(rt, "deep") == 0 {
			// one generic input in eight is deeply nested (vendor content may be): 20..40, 100 or 300 levels
			levels := rapid.SampledFrom([]int{20, 31, 32, 33, 34, 40, 100, 300}).Draw(rt, "levels")
			for i := 0; i < levels; i++ {
				tree = &ttlvref.Node{Tag: 0x540100 + i%7, Type: ttlvref.Structure, Kids: []*ttlvref.Node{tree}}
			}
			notes = append(notes, fmt.Sprintf("nested-%d-levels", levels))
		}
		if enc != "binary" && rapid.Bool().Draw(rt, "registered") {
			// registered enumeration / mask tags so that names can be used
			tree.Walk(func(n *ttlvref.Node, _ int) {
				if n.Type == ttlvref.Enumeration {
					n.Tag = 0x420028
				}
				if n.Type == ttlvref.Integer && n.Tag&1 == 0 {
					n.Tag = 0x42002C
				}
			})
		}
	case 1, 2:
		m := gen.Request(rt, o)
		tree, _ = w.Message(m)
		if rapid.IntRange(0, 2).Draw(rt, "typed") > 0 {
			tg = targets[1]
		}
	default:
		m := gen.Response(rt, o)
		tree, _ = w.Message(m)
		if rapid.IntRange(0, 2).Draw(rt, "typed") > 0 {
			tg = targets[2]
		}
	}
	if tree == nil {
		rt.Fatalf("harness: no tree")
	}
	rewriteTree(rt, tree, &notes)
	var data []byte
	switch enc {
	case "binary":
		data = writeNonCanonical(rt, tree, nil, &notes)
	case "xml":
		var b bytes.Buffer
		writeXMLAlt(rt, &b, tree, &notes)
		data = b.Bytes()
	default:
		var b bytes.Buffer
		writeJSONAlt(rt, &b, tree, &notes)
		data = b.Bytes()
	}
	c := c18Case{Encoding: enc, Target: tg.Name, DataHex: hex.EncodeToString(data), Rewrite: strings.Join(notes, ",")}
	if rapid.IntRange(0, 2).Draw(rt, "localzone") == 0 {
		c.LocalOffsetMin = rapid.SampledFrom([]int{540, -300, 330, 60, -720}).Draw(rt, "localoffset")
	}
	if enc != "binary" {
		c.Text = string(data)
	}
	return c, notes
}

func TestC18FixedPoint(t *testing.T) {
	const name = "TestC18FixedPoint"
	rec := evid.New("C18", name, "non-canonical inputs no encoder of the library emits, built from generic trees and KMIP messages by independent writers: binary with non-zero padding, over-long big integers, booleans other than 0/1, "+
		"unknown trailing / reordered / dropped / duplicated fields; XML and JSON with alternative lexical forms (hex and decimal strings, enumerations by name/decimal/short hex, mixed-case and numeric booleans, zoned and fractional dates, "+
		"mask tokens with names/numbers/blanks, negative and oversized intervals, lower-case hex, TTLV elements with a tag attribute, swapped attribute/key order); targets ttlv.Value and the typed messages; one case in three runs with the process's local time zone (time.Local) set to +09:00, -05:00, +05:30, +01:00 or -12:00 instead of UTC; "+
		"only accepted inputs create an obligation; non-trivial = accepted and different from its own re-encoding; distinct by (encoding,target,bytes)").Attach(t)
	if rp := evid.LoadReplay(name); rp != nil {
		var c c18Case
		if err := json.Unmarshal(rp.Case, &c); err != nil {
			t.Fatal(err)
		}
		if _, _, _, sig, err := c18Run(c); err != nil {
			t.Fatalf("VERIF-FAIL property=C18 test=%s sig=%s replay=: %v", name, sig, err)
		}
		return
	}
	rapid.Check(t, func(rt *rapid.T) {
		c, notes := drawC18(rt)
		accepted, nonCanon, skipped, sig, err := c18Run(c)
		labels := []string{"enc=" + c.Encoding, fmt.Sprintf("accepted=%v", accepted)}
		for _, n := range notes {
			labels = append(labels, "rw="+n)
		}
		if skipped > 0 {
			labels = append(labels, "other-encoding-skipped-unrepresentable")
		}
		rec.Case(accepted && nonCanon, append([]byte(c.Encoding+c.Target+"|"), c.DataHex...), labels...)
		if accepted && nonCanon && rec.WantSample() && len(c.DataHex) < 600 {
			rec.Sample(c)
		}
		if err != nil {
			rec.Fail(rt, name, sig, err, c)
		}
	})
}

// TestC18Mutants: byte/document-level mutants of C02 that happen to be accepted.
func TestC18Mutants(t *testing.T) {
	const name = "TestC18Mutants"
	rec := evid.New("C18", name, "the C02 mutation generators (binary header mutations, XML/JSON document mutations); every mutant the decoder accepts must reach a fixed point; "+
		"non-trivial = accepted and different from its own re-encoding; distinct by (encoding,target,bytes)").Attach(t)
	if rp := evid.LoadReplay(name); rp != nil {
		var c c18Case
		if err := json.Unmarshal(rp.Case, &c); err != nil {
			t.Fatal(err)
		}
		if _, _, _, sig, err := c18Run(c); err != nil {
			t.Fatalf("VERIF-FAIL property=C18 test=%s sig=%s replay=: %v", name, sig, err)
		}
		return
	}
	rapid.Check(t, func(rt *rapid.T) {
		enc := rapid.SampledFrom(encodings).Draw(rt, "encoding")
		var data []byte
		var tg target
		var desc string
		switch enc {
		case "binary":
			var valid []byte
			valid, tg = validBinary(rt)
			data, desc, _ = mutateBinary(rt, valid)
		case "xml":
			var valid []byte
			valid, tg = validText(rt, enc)
			data, desc = mutateXML(rt, valid)
		default:
			var valid []byte
			valid, tg = validText(rt, enc)
			data, desc = mutateJSON(rt, valid)
		}
		if tg.Tag != 0 {
			tg = targets[0] // payload targets have no default tag for Marshal; use the generic value
		}
		c := c18Case{Encoding: enc, Target: tg.Name, DataHex: hex.EncodeToString(data), Rewrite: desc}
		if enc != "binary" {
			c.Text = string(data)
		}
		accepted, nonCanon, _, sig, err := c18Run(c)
		rec.Case(accepted && nonCanon, append([]byte(enc+tg.Name+"|"), data...), "enc="+enc, fmt.Sprintf("accepted=%v", accepted))
		if accepted && nonCanon && rec.WantSample() && len(data) < 300 {
			rec.Sample(c)
		}
		if err != nil {
			rec.Fail(rt, name, sig, err, c)
		}
	})
	_ = ttlv.MarshalXML
}
