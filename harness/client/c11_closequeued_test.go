package client

import (
	"encoding/json"
	"fmt"
	"testing"

	"pgregory.net/rapid"

	"verif/harness/evid"
)

// TestC11CloseQueued: Close while one call is waiting for an answer and other callers are queued behind it on the same
// client. Real time (goroutines waiting for the client's lock are not "durably blocked", so this does not fit a
// synctest bubble): the server never answers the first request; 20..100 ms after the callers have started the client
// is closed; every call must return - with an error, or with its own response if it was quick enough.
func TestC11CloseQueued(t *testing.T) {
	const name = "TestC11CloseQueued"
	rec := evid.New("C11", name, "2..6 caller goroutines released together on one client (or a fresh clone), each issuing 1..2 calls; the server never answers the calls of the first caller and answers the others at once; the client is closed 20, 50 or 100 ms after the start, i.e. while one call is in flight and the others wait for the client; real time; "+
		"oracle: every call returns within 30 s after the start (an error, or the response echoing its own identifier) - a call that never returns is a hang; non-trivial = three or more callers (at least two queued when Close arrives); distinct by case").Attach(t)
	if rp := evid.LoadReplay(name); rp != nil {
		var c c10Case
		if err := json.Unmarshal(rp.Case, &c); err != nil {
			t.Fatal(err)
		}
		for i := 0; i < 3; i++ {
			if sig, err := c10Run(c); err != nil {
				t.Fatalf("VERIF-FAIL property=C11 test=%s sig=%s replay=: %v", name, sig, err)
			}
		}
		return
	}
	rapid.Check(t, func(rt *rapid.T) {
		c := c10Case{FreshClone: rapid.Bool().Draw(rt, "clone"), CloseAfterMs: rapid.SampledFrom([]int{20, 50, 100}).Draw(rt, "close-after-ms"), HangAfterS: 30}
		n := rapid.IntRange(2, 6).Draw(rt, "callers")
		for ci := 0; ci < n; ci++ {
			var calls []callPlan
			for i, m := 0, rapid.IntRange(1, 2).Draw(rt, "calls"); i < m; i++ {
				p := callPlan{ID: fmt.Sprintf("call-%d-%d", ci, i), Cancel: "none", Server: "reply"}
				if ci == 0 {
					p.Server = "never"
				}
				calls = append(calls, p)
			}
			c.Callers = append(c.Callers, calls)
		}
		key, _ := json.Marshal(c)
		rec.Case(n >= 3, key, fmt.Sprintf("callers=%d", n), fmt.Sprintf("close-after-ms=%d", c.CloseAfterMs))
		if n >= 3 && rec.WantSample() {
			rec.Sample(c)
		}
		evid.Journal("C11", name, c)
		if sig, err := c10Run(c); err != nil {
			rec.Fail(rt, name, sig, err, c)
		}
	})
}
