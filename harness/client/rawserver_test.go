package client

import (
	"io"
	"net"
	"sync"

	"verif/harness/ttlvref"
)

// rawServer is a scripted KMIP-agnostic server end: it frames requests with the independent
// codec and answers each with whatever bytes the script returns.
type rawServer struct {
	mu       sync.Mutex
	respond  func(conn int, n int, req *ttlvref.Node, raw []byte) (reply []byte, closeAfter bool)
	conns    int
	Requests [][]byte
}

func readFrame(c net.Conn) ([]byte, error) {
	hdr := make([]byte, 8)
	if _, err := io.ReadFull(c, hdr); err != nil {
		return nil, err
	}
	total, _ := ttlvref.ItemLen(hdr)
	buf := make([]byte, total)
	copy(buf, hdr)
	if _, err := io.ReadFull(c, buf[8:]); err != nil {
		return nil, err
	}
	return buf, nil
}

func (s *rawServer) serve(c net.Conn) {
	s.mu.Lock()
	id := s.conns
	s.conns++
	s.mu.Unlock()
	n := 0
	for {
		raw, err := readFrame(c)
		if err != nil {
			return
		}
		tree, _ := ttlvref.Parse(raw, ttlvref.Lenient)
		s.mu.Lock()
		s.Requests = append(s.Requests, raw)
		s.mu.Unlock()
		reply, closeAfter := s.respond(id, n, tree, raw)
		n++
		if reply != nil {
			if _, err := c.Write(reply); err != nil {
				return
			}
		}
		if closeAfter {
			c.Close()
			return
		}
	}
}

// find returns the first descendant with the tag.
func find(n *ttlvref.Node, tag int) *ttlvref.Node {
	if n == nil {
		return nil
	}
	if n.Tag == tag {
		return n
	}
	for _, k := range n.Kids {
		if r := find(k, tag); r != nil {
			return r
		}
	}
	return nil
}

func findAll(n *ttlvref.Node, tag int, out *[]*ttlvref.Node) {
	if n == nil {
		return
	}
	if n.Tag == tag {
		*out = append(*out, n)
	}
	for _, k := range n.Kids {
		findAll(k, tag, out)
	}
}
