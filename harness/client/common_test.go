package client

import (
	"fmt"
	"io"
	"log/slog"
	"os"
	"testing"
)

func TestMain(m *testing.M) {
	slog.SetDefault(slog.New(slog.NewTextHandler(io.Discard, nil)))
	os.Exit(m.Run())
}

func safely(f func() error) (err error) {
	defer func() {
		if r := recover(); r != nil {
			err = fmt.Errorf("panic: %v", r)
		}
	}()
	return f()
}
