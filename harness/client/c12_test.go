package client

import (
	"io"
	"context"
	"encoding/hex"
	"encoding/json"
	"fmt"
	"net"
	"reflect"
	"strings"
	"testing"
	"time"

	kmip "github.com/ovh/kmip-go"
	"github.com/ovh/kmip-go/kmipclient"
	"github.com/ovh/kmip-go/payloads"
	"github.com/ovh/kmip-go/ttlv"
	"pgregory.net/rapid"

	"verif/harness/evid"
	"verif/harness/gen"
	"verif/harness/memnet"
	"verif/harness/pins"
	"verif/harness/refwalk"
	"verif/harness/ttlvref"
)

const (
	tBatchItem       = 0x42000F
	tOperation       = 0x42005C
	tResponsePayload = 0x42007C
	tRequestPayload  = 0x420079
	tResultStatus    = 0x42007F
	tResultReason    = 0x42007E
	tResultMessage   = 0x42007D
	tUniqueBatchID   = 0x420093
	tBatchCount      = 0x42000D
	tProtoVersion    = 0x420069
)

// The calls of the fluent API (and the generic entry points) with the operation they request.
type apiCall struct {
	Name string
	Op   kmip.Operation
	// Exec returns the payload the call produced (nil interface if none) and its error.
	Exec func(cl *kmipclient.Client, ctx context.Context) (kmip.OperationPayload, error)
}

// execCtx calls ExecContext on any executor through reflection and normalises the result.
func execCtx(ex any, ctx context.Context) (kmip.OperationPayload, error) {
	out := reflect.ValueOf(ex).MethodByName("ExecContext").Call([]reflect.Value{reflect.ValueOf(ctx)})
	var err error
	if !out[1].IsNil() {
		err = out[1].Interface().(error)
	}
	if out[0].Kind() == reflect.Pointer && out[0].IsNil() {
		return nil, err
	}
	p, _ := out[0].Interface().(kmip.OperationPayload)
	return p, err
}

var apiCalls = []apiCall{
	{"Activate", kmip.OperationActivate, func(c *kmipclient.Client, ctx context.Context) (kmip.OperationPayload, error) {
		return execCtx(c.Activate("id"), ctx)
	}},
	{"AddAttribute", kmip.OperationAddAttribute, func(c *kmipclient.Client, ctx context.Context) (kmip.OperationPayload, error) {
		return execCtx(c.AddAttribute("id", kmip.AttributeNameComment, "x"), ctx)
	}},
	{"Archive", kmip.OperationArchive, func(c *kmipclient.Client, ctx context.Context) (kmip.OperationPayload, error) {
		return execCtx(c.Archive("id"), ctx)
	}},
	{"Recover", kmip.OperationRecover, func(c *kmipclient.Client, ctx context.Context) (kmip.OperationPayload, error) {
		return execCtx(c.Recover("id"), ctx)
	}},
	{"Create", kmip.OperationCreate, func(c *kmipclient.Client, ctx context.Context) (kmip.OperationPayload, error) {
		return execCtx(c.Create().AES(256, kmip.CryptographicUsageEncrypt), ctx)
	}},
	{"CreateKeyPair", kmip.OperationCreateKeyPair, func(c *kmipclient.Client, ctx context.Context) (kmip.OperationPayload, error) {
		return execCtx(c.CreateKeyPair().RSA(2048, kmip.CryptographicUsageSign, kmip.CryptographicUsageVerify), ctx)
	}},
	{"DeleteAttribute", kmip.OperationDeleteAttribute, func(c *kmipclient.Client, ctx context.Context) (kmip.OperationPayload, error) {
		return execCtx(c.DeleteAttribute("id", kmip.AttributeNameComment), ctx)
	}},
	{"Destroy", kmip.OperationDestroy, func(c *kmipclient.Client, ctx context.Context) (kmip.OperationPayload, error) {
		return execCtx(c.Destroy("id"), ctx)
	}},
	{"Encrypt", kmip.OperationEncrypt, func(c *kmipclient.Client, ctx context.Context) (kmip.OperationPayload, error) {
		return execCtx(c.Encrypt("id").Data([]byte("data")), ctx)
	}},
	{"Decrypt", kmip.OperationDecrypt, func(c *kmipclient.Client, ctx context.Context) (kmip.OperationPayload, error) {
		return execCtx(c.Decrypt("id").Data([]byte("data")), ctx)
	}},
	{"Get", kmip.OperationGet, func(c *kmipclient.Client, ctx context.Context) (kmip.OperationPayload, error) {
		return execCtx(c.Get("id"), ctx)
	}},
	{"GetAttributeList", kmip.OperationGetAttributeList, func(c *kmipclient.Client, ctx context.Context) (kmip.OperationPayload, error) {
		return execCtx(c.GetAttributeList("id"), ctx)
	}},
	{"GetAttributes", kmip.OperationGetAttributes, func(c *kmipclient.Client, ctx context.Context) (kmip.OperationPayload, error) {
		return execCtx(c.GetAttributes("id", kmip.AttributeNameState), ctx)
	}},
	{"GetUsageAllocation", kmip.OperationGetUsageAllocation, func(c *kmipclient.Client, ctx context.Context) (kmip.OperationPayload, error) {
		return execCtx(c.GetUsageAllocation("id", 5), ctx)
	}},
	{"Import", kmip.OperationImport, func(c *kmipclient.Client, ctx context.Context) (kmip.OperationPayload, error) {
		return execCtx(c.Import("id", &kmip.OpaqueObject{OpaqueDataType: 1, OpaqueDataValue: []byte{1}}), ctx)
	}},
	{"Export", kmip.OperationExport, func(c *kmipclient.Client, ctx context.Context) (kmip.OperationPayload, error) {
		return execCtx(c.Export("id"), ctx)
	}},
	{"Locate", kmip.OperationLocate, func(c *kmipclient.Client, ctx context.Context) (kmip.OperationPayload, error) {
		return execCtx(c.Locate().WithMaxItems(3), ctx)
	}},
	{"ModifyAttribute", kmip.OperationModifyAttribute, func(c *kmipclient.Client, ctx context.Context) (kmip.OperationPayload, error) {
		return execCtx(c.ModifyAttribute("id", kmip.AttributeNameComment, "y"), ctx)
	}},
	{"ObtainLease", kmip.OperationObtainLease, func(c *kmipclient.Client, ctx context.Context) (kmip.OperationPayload, error) {
		return execCtx(c.ObtainLease("id"), ctx)
	}},
	{"Query", kmip.OperationQuery, func(c *kmipclient.Client, ctx context.Context) (kmip.OperationPayload, error) {
		return execCtx(c.Query().Operations().Objects(), ctx)
	}},
	{"Register", kmip.OperationRegister, func(c *kmipclient.Client, ctx context.Context) (kmip.OperationPayload, error) {
		return execCtx(c.Register().Secret(kmip.SecretDataTypePassword, []byte("pw")), ctx)
	}},
	{"Rekey", kmip.OperationReKey, func(c *kmipclient.Client, ctx context.Context) (kmip.OperationPayload, error) {
		return execCtx(c.Rekey("id"), ctx)
	}},
	{"RekeyKeyPair", kmip.OperationReKeyKeyPair, func(c *kmipclient.Client, ctx context.Context) (kmip.OperationPayload, error) {
		return execCtx(c.RekeyKeyPair("id"), ctx)
	}},
	{"Revoke", kmip.OperationRevoke, func(c *kmipclient.Client, ctx context.Context) (kmip.OperationPayload, error) {
		return execCtx(c.Revoke("id"), ctx)
	}},
	{"Sign", kmip.OperationSign, func(c *kmipclient.Client, ctx context.Context) (kmip.OperationPayload, error) {
		return execCtx(c.Sign("id").Data([]byte("data")), ctx)
	}},
	{"SignatureVerify", kmip.OperationSignatureVerify, func(c *kmipclient.Client, ctx context.Context) (kmip.OperationPayload, error) {
		return execCtx(c.SignatureVerify("id").Data([]byte("data")).Signature([]byte("sig")), ctx)
	}},
	{"Request", kmip.OperationActivate, func(c *kmipclient.Client, ctx context.Context) (kmip.OperationPayload, error) {
		return c.Request(ctx, &payloads.ActivateRequestPayload{UniqueIdentifier: "id"})
	}},
	{"Request-Get", kmip.OperationGet, func(c *kmipclient.Client, ctx context.Context) (kmip.OperationPayload, error) {
		return c.Request(ctx, &payloads.GetRequestPayload{UniqueIdentifier: "id"})
	}},
}

// How one response item deviates from the conformant one.
type itemPlan struct {
	OpMode      string `json:"operation"` // requested | other | unknown | absent
	OtherOp     uint32 `json:"other_operation,omitempty"`
	Status      uint32 `json:"status"`
	Reason      uint32 `json:"reason"`
	Message     string `json:"message"`
	PayloadMode string `json:"payload"` // absent | requested | other | generic
	PayloadHex  string `json:"payload_hex,omitempty"`
	// IDFrom (batches): 0 = the item echoes the Unique Batch Item ID of the request item at its own position;
	// k > 0 = it carries the ID of request item k-1 (duplicated or permuted IDs); -1 = it carries none;
	// -2 / -3 / -4 = it carries an ID of the server's own making of 3 / 12 / 0 bytes (an ID is a byte string of any length)
	IDFrom int `json:"id_from_request_item,omitempty"`
}
type respPlan struct {
	HeaderCount int        `json:"header_count_delta"`
	ItemsDelta  int        `json:"item_count_delta"`
	Items       []itemPlan `json:"items"`
	// HeaderVersion: "" = the response header carries the request's protocol version; else this "major.minor"
	HeaderVersion string `json:"header_version,omitempty"`
}
type c12Case struct {
	BatchSize int        `json:"batch_size,omitempty"`
	Call      string     `json:"call"`
	Version   string     `json:"version"`
	Plans     []respPlan `json:"responses"`
	// Reregistered (call Activate only): the application has registered other payload types for the operation at run time,
	// so a well-formed answer decodes to a Go type the fluent builder does not expect (registration restored afterwards)
	Reregistered bool `json:"operation_reregistered,omitempty"`
	// OnBatchErr (call Batch): the batch is sent with BatchOpt and OnBatchErr(continue | stop | undo); "" = plain Batch
	OnBatchErr string `json:"on_batch_error_option,omitempty"`
	// Debug: the client carries kmipclient.DebugMiddleware (as nearly every example and test of the library does); what it
	// logs does not change what the calls return
	Debug bool `json:"debug_middleware_installed,omitempty"`
}

// c12Debug: the case in progress asks for the debug middleware (one case at a time per process).
var c12Debug bool

// altActivateResp is what an application might register for Activate in place of the library's response payload.
type altActivateResp struct {
	UniqueIdentifier string
}

func (*altActivateResp) Operation() kmip.Operation { return kmip.OperationActivate }

func payloadTree(rt *rapid.T, op kmip.Operation) string {
	if op == kmip.OperationDiscoverVersions && rapid.IntRange(0, 3).Draw(rt, "plausibleversions") != 0 {
		// a version list a real server could send (so that what else the answer says decides, not an empty intersection)
		pl := &ttlvref.Node{Tag: tResponsePayload, Type: ttlvref.Structure}
		for _, v := range rapid.SliceOfNDistinct(rapid.SampledFrom([][2]int64{{1, 4}, {1, 3}, {1, 2}, {1, 1}, {1, 0}, {2, 0}}), 1, 4, func(x [2]int64) [2]int64 { return x }).Draw(rt, "versions") {
			pl.Kids = append(pl.Kids, &ttlvref.Node{Tag: tProtoVersion, Type: ttlvref.Structure, Kids: []*ttlvref.Node{
				{Tag: 0x42006A, Type: ttlvref.Integer, I: v[0]}, {Tag: 0x42006B, Type: ttlvref.Integer, I: v[1]}}})
		}
		return hex.EncodeToString(ttlvref.Write(pl))
	}
	for _, e := range gen.Ops {
		if e.Op == op {
			g := gen.NewG(rt, gen.MsgOpts{Alphabet: "ascii", TextSafe: true})
			p := g.Payload(e, true)
			w := &refwalk.Walker{}
			ns, err := w.Emit(tResponsePayload, reflect.ValueOf(p))
			if err != nil || len(ns) != 1 {
				rt.Fatalf("harness: %v", err)
			}
			return hex.EncodeToString(ttlvref.Write(ns[0]))
		}
	}
	return ""
}

func drawItemPlan(rt *rapid.T, op kmip.Operation, conformantBias bool) itemPlan {
	p := itemPlan{OpMode: "requested", PayloadMode: "requested"}
	if !conformantBias || rapid.IntRange(0, 2).Draw(rt, "deviateop") == 0 {
		p.OpMode = rapid.SampledFrom([]string{"requested", "requested", "other", "unknown", "absent"}).Draw(rt, "opmode")
	}
	if p.OpMode == "other" {
		p.OtherOp = uint32(rapid.SampledFrom(gen.Ops).Draw(rt, "otherop").Op)
		if kmip.Operation(p.OtherOp) == op {
			p.OtherOp = uint32(kmip.OperationQuery)
			if op == kmip.OperationQuery {
				p.OtherOp = uint32(kmip.OperationActivate)
			}
		}
	}
	if p.OpMode == "unknown" {
		p.OtherOp = rapid.SampledFrom([]uint32{0x05, 0x2C, 0x80000001, 0xFFFFFFFF}).Draw(rt, "unknownop")
	}
	p.Status = rapid.SampledFrom([]uint32{0, 0, 0, 1, 1, 2, 3, 0x99}).Draw(rt, "status")
	if p.Status != 0 || rapid.IntRange(0, 5).Draw(rt, "reasononsuccess") == 0 {
		p.Reason = rapid.SampledFrom([]uint32{0, 1, 4, 0x100, 0x7777, 0x80000001}).Draw(rt, "reason")
		// the server's text is data: anything a text string can hold, including what formatting or quoting code trips over
		p.Message = rapid.OneOf(
			rapid.SampledFrom([]string{"", "no such object", "permission denied: key 17", "m", "storage is 100% full", "key%2Fprod not found", "%s %d %v %!", "100%", "a\"b'c\\d", "line1\nline2\ttab", "nicht gefunden: Schlüssel ÄÖ€ 🔑"}),
			rapid.StringOfN(rapid.RuneFrom([]rune("ab %svd!(){}[]\"'\\\n:;,.-_=+#é€")), 1, 24, -1),
		).Draw(rt, "message")
	}
	if rapid.IntRange(0, 5).Draw(rt, "ownid") == 0 {
		p.IDFrom = rapid.SampledFrom([]int{-2, -3, -4, -1}).Draw(rt, "idkind")
	}
	p.PayloadMode = rapid.SampledFrom([]string{"requested", "requested", "requested", "absent", "other", "generic"}).Draw(rt, "payloadmode")
	switch p.PayloadMode {
	case "requested":
		p.PayloadHex = payloadTree(rt, op)
	case "other":
		o := kmip.Operation(p.OtherOp)
		if p.OpMode != "other" {
			o = rapid.SampledFrom(gen.Ops).Draw(rt, "payloadop").Op
		}
		if o == op {
			// the "other" operation drawn is the requested one: that is simply the conformant payload
			p.PayloadMode = "requested"
		}
		p.PayloadHex = payloadTree(rt, o)
	case "generic":
		to := gen.DefaultTreeOpts()
		to.MaxDepth, to.MaxFanout, to.TextSafe, to.Alphabet = 2, 3, true, "ascii"
		n := gen.Tree(rt, to)
		n.Tag, n.Type, n.Big, n.B, n.I = tResponsePayload, ttlvref.Structure, nil, nil, 0
		p.PayloadHex = hex.EncodeToString(ttlvref.Write(n))
	}
	return p
}

func drawRespPlan(rt *rapid.T, op kmip.Operation, nItems int) respPlan {
	rp := respPlan{}
	if rapid.IntRange(0, 5).Draw(rt, "countdev") == 0 {
		rp.HeaderCount = rapid.SampledFrom([]int{-1, 1, 5}).Draw(rt, "hdrdelta")
	}
	if rapid.IntRange(0, 5).Draw(rt, "itemsdev") == 0 {
		rp.ItemsDelta = rapid.SampledFrom([]int{-1, 1, 2}).Draw(rt, "itemsdelta")
	}
	if rapid.IntRange(0, 3).Draw(rt, "hdrverdev") == 0 {
		rp.HeaderVersion = rapid.SampledFrom([]string{"1.0", "1.0", "1.1", "1.4", "2.0", "0.0"}).Draw(rt, "hdrver")
	}
	n := nItems + rp.ItemsDelta
	if n < 0 {
		n = 0
	}
	for i := 0; i < n; i++ {
		rp.Items = append(rp.Items, drawItemPlan(rt, op, true))
	}
	return rp
}

// buildResponse renders the planned response for a request as raw bytes (reference writer).
func buildResponse(rp respPlan, req *ttlvref.Node) []byte {
	var reqItems []*ttlvref.Node
	findAll(req, tBatchItem, &reqItems)
	ver := find(req, tProtoVersion)
	hdr := &ttlvref.Node{Tag: 0x42007A, Type: ttlvref.Structure}
	if ver != nil {
		v := ver.Clone()
		var maj, min int64
		if n, _ := fmt.Sscanf(rp.HeaderVersion, "%d.%d", &maj, &min); n == 2 && len(v.Kids) == 2 {
			v.Kids[0].I, v.Kids[1].I = maj, min
		}
		hdr.Kids = append(hdr.Kids, v)
	}
	hdr.Kids = append(hdr.Kids, &ttlvref.Node{Tag: 0x420092, Type: ttlvref.DateTime, I: 1700000000})
	hdr.Kids = append(hdr.Kids, &ttlvref.Node{Tag: tBatchCount, Type: ttlvref.Integer, I: int64(len(rp.Items) + rp.HeaderCount)})
	msg := &ttlvref.Node{Tag: 0x42007B, Type: ttlvref.Structure, Kids: []*ttlvref.Node{hdr}}
	for i, ip := range rp.Items {
		it := &ttlvref.Node{Tag: tBatchItem, Type: ttlvref.Structure}
		var reqOp int64
		var reqID *ttlvref.Node
		if i < len(reqItems) {
			if o := find(reqItems[i], tOperation); o != nil {
				reqOp = o.I
			}
			reqID = find(reqItems[i], tUniqueBatchID)
			if ip.IDFrom > 0 && ip.IDFrom-1 < len(reqItems) {
				reqID = find(reqItems[ip.IDFrom-1], tUniqueBatchID)
			} else if ip.IDFrom == -1 {
				reqID = nil
			}
		} else if len(reqItems) > 0 {
			if o := find(reqItems[0], tOperation); o != nil {
				reqOp = o.I
			}
		}
		switch ip.OpMode {
		case "requested":
			it.Kids = append(it.Kids, &ttlvref.Node{Tag: tOperation, Type: ttlvref.Enumeration, I: reqOp})
		case "other", "unknown":
			it.Kids = append(it.Kids, &ttlvref.Node{Tag: tOperation, Type: ttlvref.Enumeration, I: int64(ip.OtherOp)})
		}
		switch ip.IDFrom {
		case -2:
			reqID = &ttlvref.Node{Tag: tUniqueBatchID, Type: ttlvref.ByteString, B: []byte{0x01, 0x02, 0x03}}
		case -3:
			reqID = &ttlvref.Node{Tag: tUniqueBatchID, Type: ttlvref.ByteString, B: []byte("twelve bytes")}
		case -4:
			reqID = &ttlvref.Node{Tag: tUniqueBatchID, Type: ttlvref.ByteString, B: []byte{}}
		}
		if reqID != nil {
			it.Kids = append(it.Kids, reqID.Clone())
		}
		it.Kids = append(it.Kids, &ttlvref.Node{Tag: tResultStatus, Type: ttlvref.Enumeration, I: int64(ip.Status)})
		if ip.Reason != 0 || ip.Status == 1 {
			it.Kids = append(it.Kids, &ttlvref.Node{Tag: tResultReason, Type: ttlvref.Enumeration, I: int64(ip.Reason)})
		}
		if ip.Message != "" {
			it.Kids = append(it.Kids, &ttlvref.Node{Tag: tResultMessage, Type: ttlvref.TextString, B: []byte(ip.Message)})
		}
		if ip.PayloadHex != "" {
			raw, _ := hex.DecodeString(ip.PayloadHex)
			if p, err := ttlvref.Parse(raw, ttlvref.Strict); err == nil {
				it.Kids = append(it.Kids, p)
			}
		}
		msg.Kids = append(msg.Kids, it)
	}
	return ttlvref.Write(msg)
}

func respTypeName(op kmip.Operation) string {
	return pins.Ops[uint32(op)].Response
}

func statusText(v uint32) string {
	if n, ok := pins.Enums[pins.Tags["ResultStatus"]][v]; ok {
		return n
	}
	return fmt.Sprintf("0x%08X", v)
}

func reasonText(v uint32) string {
	if n, ok := pins.Enums[pins.Tags["ResultReason"]][v]; ok {
		return n
	}
	return fmt.Sprintf("0x%08X", v)
}

// checkError: a failed item must surface as an error carrying status, reason and message.
// carries: the text contains the registered name, or the value in hexadecimal or decimal
func carries(txt, name string, v uint32) bool {
	low := strings.ToLower(txt)
	for _, c := range []string{name, fmt.Sprintf("0x%08x", v), fmt.Sprintf("0x%x", v)} {
		if c != "" && strings.Contains(low, strings.ToLower(c)) {
			return true
		}
	}
	return false
}

func checkErrorCarries(err error, ip itemPlan) string {
	if err == nil {
		return "failed-item-not-an-error"
	}
	txt := err.Error()
	if !carries(txt, statusText(ip.Status), ip.Status) {
		return "error-lacks-status"
	}
	if ip.Reason != 0 && !carries(txt, reasonText(ip.Reason), ip.Reason) {
		return "error-lacks-reason"
	}
	if ip.Message != "" && !strings.Contains(txt, ip.Message) {
		return "error-lacks-message"
	}
	return ""
}

// decodableByConstruction: a response every item of which has nothing in it that a decoder could trip over - no payload
// at all, or a payload next to no Operation (which nobody can interpret, so it is passed over). Whether such a response
// "can be decoded" is not for the library's decoder to say: what its failed items say must reach the caller.
func decodableByConstruction(rp respPlan) bool {
	for _, ip := range rp.Items {
		if ip.PayloadMode != "absent" && ip.OpMode != "absent" {
			return false
		}
	}
	return len(rp.Items) > 0
}

func newScriptedClient(ver kmip.ProtocolVersion, srv *rawServer, enforce bool) (*kmipclient.Client, []*memnet.Conn, error) {
	var conns []*memnet.Conn
	opts := []kmipclient.Option{kmipclient.WithDialerUnsafe(func(ctx context.Context) (net.Conn, error) {
		a, b := memnet.Pipe()
		conns = append(conns, a, b)
		go srv.serve(b)
		return a, nil
	})}
	if enforce {
		opts = append(opts, kmipclient.EnforceVersion(ver))
	}
	if c12Debug {
		opts = append(opts, kmipclient.WithMiddlewares(kmipclient.DebugMiddleware(io.Discard, nil)))
	}
	cl, err := kmipclient.Dial("verif", opts...)
	return cl, conns, err
}

func c12Run(c c12Case) (sig string, err error) {
	c12Debug = c.Debug
	defer func() { c12Debug = false }()
	var call apiCall
	for _, a := range apiCalls {
		if a.Name == c.Call {
			call = a
		}
	}
	ver := kmip.V1_4
	for _, v := range gen.Versions {
		if v.String() == c.Version {
			ver = v
		}
	}
	srv := &rawServer{}
	srv.respond = func(conn, n int, req *ttlvref.Node, raw []byte) ([]byte, bool) {
		srv.mu.Lock()
		k := len(srv.Requests) - 1
		srv.mu.Unlock()
		if k < len(c.Plans) {
			return buildResponse(c.Plans[k], req), false
		}
		return buildResponse(respPlan{Items: []itemPlan{{OpMode: "requested", Status: 1, Reason: 1, Message: "script exhausted"}}}, req), false
	}
	ctx, cancel := context.WithTimeout(context.Background(), 20*time.Second)
	defer cancel()
	switch c.Call {
	case "Dial":
		var cl *kmipclient.Client
		var conns []*memnet.Conn
		var derr error
		perr := safely(func() error { cl, conns, derr = newScriptedClient(ver, srv, false); return nil })
		defer func() {
			for _, x := range conns {
				x.Close()
			}
		}()
		if perr != nil {
			return "dial-panics", perr
		}
		if derr != nil && len(srv.Requests) > 0 {
			// connecting failed: whatever the counts, what the failed items of a decodable discovery answer say is in the error
			rp := c.Plans[0]
			if reqTree, perr := ttlvref.Parse(srv.Requests[0], ttlvref.Lenient); perr == nil {
				var rm kmip.ResponseMessage
				if (safely(func() error { return ttlv.UnmarshalTTLV(buildResponse(rp, reqTree), &rm) }) == nil || decodableByConstruction(rp)) {
					for i, ip := range rp.Items {
						if ip.Status == 1 {
							if s := checkErrorCarries(derr, ip); s != "" {
								return "dial-" + s, fmt.Errorf("Dial() = %v does not carry failed item %d %+v of the discovery answer (%d items, header delta %d)", derr, i, ip, len(rp.Items), rp.HeaderCount)
							}
						}
					}
				}
			}
		}
		if derr == nil {
			defer cl.Close()
			ip := c.Plans[0]
			if len(ip.Items) != 1 || ip.HeaderCount != 0 {
				return "dial-accepts-wrong-count", fmt.Errorf("Dial succeeded on a discovery response with %d items / header delta %d", len(ip.Items), ip.HeaderCount)
			}
			it := ip.Items[0]
			fellBack := it.Status == 1 && it.Reason == 4
			if !fellBack && (it.Status != 0 || it.OpMode != "requested" || it.PayloadMode != "requested") {
				return "dial-accepts-violating-discovery-response", fmt.Errorf("Dial succeeded on discovery response %+v", it)
			}
		}
		return "", nil
	case "Signer":
		cl, conns, derr := newScriptedClient(ver, srv, true)
		defer func() {
			for _, x := range conns {
				x.Close()
			}
		}()
		if derr != nil {
			return "harness-dial", derr
		}
		defer cl.Close()
		if perr := safely(func() error { _, _ = cl.Signer(ctx, "priv", ""); return nil }); perr != nil {
			return "signer-panics", perr
		}
		return "", nil
	case "Batch":
		cl, conns, derr := newScriptedClient(ver, srv, true)
		defer func() {
			for _, x := range conns {
				x.Close()
			}
		}()
		if derr != nil {
			return "harness-dial", derr
		}
		defer cl.Close()
		var res kmipclient.BatchResult
		var berr error
		nreq := c.BatchSize
		if nreq < 2 {
			nreq = 2
		}
		var reqs []kmip.OperationPayload
		for i := 0; i < nreq; i++ {
			reqs = append(reqs, &payloads.ActivateRequestPayload{UniqueIdentifier: fmt.Sprintf("item-%d", i)})
		}
		if perr := safely(func() error {
			switch c.OnBatchErr {
			case "continue":
				res, berr = cl.BatchOpt(ctx, reqs, kmipclient.OnBatchErr(kmip.BatchErrorContinuationOptionContinue))
			case "stop":
				res, berr = cl.BatchOpt(ctx, reqs, kmipclient.OnBatchErr(kmip.BatchErrorContinuationOptionStop))
			case "undo":
				res, berr = cl.BatchOpt(ctx, reqs, kmipclient.OnBatchErr(kmip.BatchErrorContinuationOptionUndo))
			default:
				res, berr = cl.Batch(ctx, reqs...)
			}
			return nil
		}); perr != nil {
			return "batch-panics", perr
		}
		rp := c.Plans[0]
		conformantCounts := rp.HeaderCount == 0 && len(rp.Items) == nreq
		if berr == nil && !conformantCounts {
			return "batch-accepts-wrong-counts", fmt.Errorf("Batch succeeded with %d items (header delta %d) for %d requests", len(rp.Items), rp.HeaderCount, nreq)
		}
		if berr != nil {
			// the counts are wrong (a server that rejects a request as a whole answers with ONE failed item, whatever the
			// number of request items): the call fails, and what the failed items say is still in the error
			if reqTree, perr := ttlvref.Parse(srv.Requests[len(srv.Requests)-1], ttlvref.Lenient); perr == nil && len(srv.Requests) > 0 {
				var rm kmip.ResponseMessage
				if (safely(func() error { return ttlv.UnmarshalTTLV(buildResponse(rp, reqTree), &rm) }) == nil || decodableByConstruction(rp)) {
					for i, ip := range rp.Items {
						if ip.Status == 1 {
							if s := checkErrorCarries(berr, ip); s != "" {
								return "batch-error-" + s, fmt.Errorf("Batch() = %v does not carry failed item %d %+v of a response with %d items (header delta %d) for %d requests", berr, i, ip, len(rp.Items), rp.HeaderCount, nreq)
							}
						}
					}
				}
			}
			return "", nil
		}
		var uerr error
		var upl []kmip.OperationPayload
		if perr := safely(func() error { upl, uerr = res.Unwrap(); return nil }); perr != nil {
			return "unwrap-panics", perr
		}
		idsDeviate, wantPayloads, gotPayloads := false, 0, 0
		for _, ip := range rp.Items {
			idsDeviate = idsDeviate || ip.IDFrom != 0
			if ip.Status == 0 && ip.OpMode == "requested" && ip.PayloadMode == "requested" {
				wantPayloads++
			}
		}
		for _, p := range upl {
			if p != nil {
				gotPayloads++
			}
		}
		if idsDeviate {
			// the items carry duplicated, permuted or no IDs: the client may hand them out in another order than they were
			// sent in, but every item the server sent is still there - a failed one as an error, a successful one as a payload
			for i, ip := range rp.Items {
				if ip.Status != 1 {
					continue
				}
				if s := checkErrorCarries(uerr, ip); s != "" {
					return "unwrap-" + s, fmt.Errorf("Unwrap() = %v does not carry failed item %d %+v (batch item IDs deviate)", uerr, i, ip)
				}
				found := false
				for j := range res {
					found = found || checkErrorCarries(res[j].Err(), ip) == ""
				}
				if !found {
					return "batch-item-lost", fmt.Errorf("no item of the result carries failed item %d %+v of the response (batch item IDs deviate)", i, ip)
				}
			}
			if uerr == nil && gotPayloads < wantPayloads {
				return "unwrap-drops-successful-payload", fmt.Errorf("Unwrap() returned %d payloads, the response carries %d successful items (batch item IDs deviate)", gotPayloads, wantPayloads)
			}
			return "", nil
		}
		for i, ip := range rp.Items {
			if ip.Status == 1 {
				// every failed item is surfaced by Unwrap, wherever it stands in the batch
				if s := checkErrorCarries(uerr, ip); s != "" {
					return "unwrap-" + s, fmt.Errorf("Unwrap() = %v does not carry failed item %d %+v", uerr, i, ip)
				}
			}
			if ip.Status == 0 && ip.OpMode == "requested" && ip.PayloadMode == "requested" && (i >= len(upl) || upl[i] == nil) {
				return "unwrap-drops-successful-payload", fmt.Errorf("Unwrap() returned no payload for successful item %d", i)
			}
			if ip.Status == 1 { // (Batch returned no error, so the response was decodable)
				if s := checkErrorCarries(res[i].Err(), ip); s != "" {
					return "batch-item-" + s, fmt.Errorf("item %d: Err() = %v for plan %+v", i, res[i].Err(), ip)
				}
				if uerr == nil {
					return "unwrap-hides-failed-item", fmt.Errorf("Unwrap() returned no error although item %d failed", i)
				}
			}
		}
		return "", nil
	}
	cl, conns, derr := newScriptedClient(ver, srv, true)
	defer func() {
		for _, x := range conns {
			x.Close()
		}
	}()
	if derr != nil {
		return "harness-dial", derr
	}
	defer cl.Close()
	if c.Reregistered && c.Call == "Activate" {
		kmip.RegisterOperationPayload[payloads.ActivateRequestPayload, altActivateResp](kmip.OperationActivate)
		defer kmip.RegisterOperationPayload[payloads.ActivateRequestPayload, payloads.ActivateResponsePayload](kmip.OperationActivate)
	}
	var got kmip.OperationPayload
	var cerr error
	if perr := safely(func() error { got, cerr = call.Exec(cl, ctx); return nil }); perr != nil {
		return "call-panics:" + strings.SplitN(c.Call, "-", 2)[0], fmt.Errorf("%s: %w", c.Call, perr)
	}
	rp := c.Plans[0]
	// the "carries status/reason/message" obligation exists for responses the codec can decode at all
	decodable := false
	if len(srv.Requests) > 0 {
		if reqTree, perr := ttlvref.Parse(srv.Requests[0], ttlvref.Lenient); perr == nil {
			var rm kmip.ResponseMessage
			decodable = (safely(func() error { return ttlv.UnmarshalTTLV(buildResponse(rp, reqTree), &rm) }) == nil || decodableByConstruction(rp))
		}
	}
	if decodable {
		// whatever the counts: every failed item of a decodable response is in the error
		for i, ip := range rp.Items {
			if ip.Status == 1 {
				if s := checkErrorCarries(cerr, ip); s != "" {
					return s, fmt.Errorf("%s returned (%T, %v) for failed item %d %+v (response with %d items, header delta %d)", c.Call, got, cerr, i, ip, len(rp.Items), rp.HeaderCount)
				}
			}
		}
	}
	if cerr != nil {
		return "", nil
	}
	// success: must be the payload type of the requested operation
	if got == nil {
		return "success-without-payload", fmt.Errorf("%s returned no error and no payload (plan %+v)", c.Call, rp)
	}
	if tn := reflect.TypeOf(got).Elem().Name(); tn != respTypeName(call.Op) || got.Operation() != call.Op {
		return "payload-of-another-operation", fmt.Errorf("%s returned a %s (operation %v) as success, want %s", c.Call, tn, got.Operation(), respTypeName(call.Op))
	}
	if rp.HeaderCount != 0 || len(rp.Items) != 1 {
		return "accepts-wrong-counts", fmt.Errorf("%s succeeded with %d items (header delta %d)", c.Call, len(rp.Items), rp.HeaderCount)
	}
	if rp.Items[0].Status != 0 {
		return "non-success-status-returned-as-success", fmt.Errorf("%s succeeded although the item status is %s", c.Call, statusText(rp.Items[0].Status))
	}
	return "", nil
}

func TestC12Responses(t *testing.T) {
	const name = "TestC12Responses"
	rec := evid.New("C12", name, "for every fluent builder (26), Request, Batch+Unwrap (plain or with OnBatchErr continue / stop / undo), the discovery exchange of Dial and the crypto.Signer construction: a generated well-formed response message from a scripted in-memory server - "+
		"header protocol version {the request's, 1.0, 1.1, 1.4, 2.0, 0.0}, header batch count in {n, n-1, n+1, n+5}, item count n-1..n+2, per item operation {requested, other implemented, unknown, absent}, status {4 named, unnamed}, reason {none, named, unnamed}, message, payload {absent, of the requested operation, of another operation, generic}, Unique Batch Item IDs {echoed in place, in batches of another request item (duplicated or permuted), absent, of the server's own making with 0 / 3 / 12 bytes}; "+
		"oracle: returns; error or the requested operation's payload type; a failed item surfaces as an error carrying status, reason and message; non-trivial = the response deviates from the conformant one; distinct by case").Attach(t)
	if rp := evid.LoadReplay(name); rp != nil {
		var c c12Case
		if err := json.Unmarshal(rp.Case, &c); err != nil {
			t.Fatal(err)
		}
		if sig, err := c12Run(c); err != nil {
			t.Fatalf("VERIF-FAIL property=C12 test=%s sig=%s replay=: %v", name, sig, err)
		}
		return
	}
	names := []string{"Dial", "Signer", "Batch"}
	for _, a := range apiCalls {
		names = append(names, a.Name)
	}
	rapid.Check(t, func(rt *rapid.T) {
		c := c12Case{Call: rapid.SampledFrom(names).Draw(rt, "call"), Version: rapid.SampledFrom(gen.Versions).Draw(rt, "version").String()}
		c.Debug = rapid.IntRange(0, 2).Draw(rt, "debug") == 0
		if c.Call == "Activate" {
			c.Reregistered = rapid.IntRange(0, 2).Draw(rt, "reregistered") == 0
		}
		switch c.Call {
		case "Dial":
			c.Plans = []respPlan{drawRespPlan(rt, kmip.OperationDiscoverVersions, 1)}
		case "Signer":
			c.Plans = []respPlan{drawRespPlan(rt, kmip.OperationGetAttributes, 1), drawRespPlan(rt, kmip.OperationGetAttributes, 1), drawRespPlan(rt, kmip.OperationGet, 1)}
		case "Batch":
			c.BatchSize = rapid.IntRange(2, 4).Draw(rt, "batchsize")
			c.Plans = []respPlan{drawRespPlan(rt, kmip.OperationActivate, c.BatchSize)}
			c.OnBatchErr = rapid.SampledFrom([]string{"", "", "continue", "stop", "undo"}).Draw(rt, "onbatcherr")
			if rapid.IntRange(0, 2).Draw(rt, "iddeviation") == 0 {
				for i := range c.Plans[0].Items {
					c.Plans[0].Items[i].IDFrom = rapid.SampledFrom([]int{0, 0, -1, 1, 2, c.BatchSize}).Draw(rt, "idfrom")
				}
			}
		default:
			for _, a := range apiCalls {
				if a.Name == c.Call {
					c.Plans = []respPlan{drawRespPlan(rt, a.Op, 1)}
				}
			}
		}
		nt := false
		for _, p := range c.Plans {
			if p.HeaderCount != 0 || p.ItemsDelta != 0 || p.HeaderVersion != "" {
				nt = true
			}
			for _, it := range p.Items {
				if it.OpMode != "requested" || it.Status != 0 || it.PayloadMode != "requested" || it.IDFrom != 0 {
					nt = true
				}
			}
		}
		key, _ := json.Marshal(c)
		rec.Case(nt, key, "call="+c.Call)
		if nt && rec.WantSample() && len(key) < 1500 {
			rec.Sample(c)
		}
		if sig, err := c12Run(c); err != nil {
			rec.Fail(rt, name, sig, err, c)
		}
	})
}
