package client

import (
	"context"
	"crypto"
	"crypto/ecdsa"
	"crypto/elliptic"
	"crypto/rand"
	"crypto/rsa"
	"crypto/x509"
	"encoding/hex"
	"encoding/json"
	"fmt"
	"sync"
	"testing"
	"time"

	kmip "github.com/ovh/kmip-go"
	"github.com/ovh/kmip-go/payloads"
	"github.com/ovh/kmip-go/ttlv"
	"pgregory.net/rapid"

	"verif/harness/evid"
	"verif/harness/gen"
	"verif/harness/memnet"
	"verif/harness/ttlvref"
)

// Client.Signer is the one API of the client that makes several dependent requests in one call (attributes of one key,
// attributes of the linked key, material of the public key). TestC12Responses feeds it generated responses, which
// rarely get it past the first request. Here the scripted server knows the conversation: every request gets the
// answer a conformant server would give, except the k-th one, which gets a generated deviation. Whatever the position,
// a failed item, a missing payload or wrong counts must end the call with an error.

type c12SignerCase struct {
	Variant string   `json:"signer_called_with"` // private | public | both
	Alg     string   `json:"algorithm"`          // rsa | ec
	Version string   `json:"version"`
	At      int      `json:"deviating_response"` // index of the request whose answer deviates (-1: none)
	Plan    respPlan `json:"deviation"`
	// KeyAlg: the public key material the server hands out: "" / ec = an EC P-256 key, rsa = an RSA key - whatever the
	// attributes said (an inconsistent server is still a server); Sign: after a successful Signer call the signer is
	// used once (the server answers the Sign request with SignLen signature bytes)
	KeyAlg  string `json:"public_key_material,omitempty"`
	Sign    bool   `json:"then_sign,omitempty"`
	SignLen int    `json:"signature_bytes,omitempty"`
}

var (
	c12PubOnce   sync.Once
	c12PubDER    []byte
	c12RSAPubDER []byte
)

// signerPayload builds the conformant response payload for a request of the Signer conversation.
func signerPayload(req *ttlvref.Node, alg kmip.CryptographicAlgorithm, opt ...c12SignerCase) string {
	op := find(req, tOperation)
	uid := find(req, 0x420094)
	if op == nil || uid == nil {
		return ""
	}
	id := string(uid.B)
	enc := ttlv.NewTTLVEncoder()
	switch op.I {
	case 0x0B: // Get Attributes
		ot, mask, lt, other := kmip.ObjectTypePrivateKey, kmip.CryptographicUsageSign, kmip.LinkTypePublicKeyLink, "pub"
		if id == "pub" {
			ot, mask, lt, other = kmip.ObjectTypePublicKey, kmip.CryptographicUsageVerify, kmip.LinkTypePrivateKeyLink, "priv"
		}
		pl := payloads.GetAttributesResponsePayload{UniqueIdentifier: id, Attribute: []kmip.Attribute{
			{AttributeName: kmip.AttributeNameObjectType, AttributeValue: ot},
			{AttributeName: kmip.AttributeNameCryptographicAlgorithm, AttributeValue: alg},
			{AttributeName: kmip.AttributeNameLink, AttributeValue: kmip.Link{LinkType: lt, LinkedObjectIdentifier: other}},
			{AttributeName: kmip.AttributeNameCryptographicUsageMask, AttributeValue: mask},
		}}
		enc.TagAny(kmip.TagResponsePayload, &pl)
	case 0x0A: // Get (of the public key)
		c12PubOnce.Do(func() {
			k, err := ecdsa.GenerateKey(elliptic.P256(), rand.Reader)
			if err != nil {
				panic(err)
			}
			c12PubDER, err = x509.MarshalPKIXPublicKey(&k.PublicKey)
			if err != nil {
				panic(err)
			}
			rk, err := rsa.GenerateKey(rand.Reader, 1024)
			if err != nil {
				panic(err)
			}
			c12RSAPubDER, err = x509.MarshalPKIXPublicKey(&rk.PublicKey)
			if err != nil {
				panic(err)
			}
		})
		der, kalg, klen := &c12PubDER, kmip.CryptographicAlgorithmEC, int32(256)
		if len(opt) > 0 && opt[0].KeyAlg == "rsa" {
			der, kalg, klen = &c12RSAPubDER, kmip.CryptographicAlgorithmRSA, 1024
		}
		pl := payloads.GetResponsePayload{ObjectType: kmip.ObjectTypePublicKey, UniqueIdentifier: id, Object: &kmip.PublicKey{KeyBlock: kmip.KeyBlock{
			KeyFormatType: kmip.KeyFormatTypeX_509, KeyValue: &kmip.KeyValue{Plain: &kmip.PlainKeyValue{KeyMaterial: kmip.KeyMaterial{Bytes: der}}},
			CryptographicAlgorithm: kalg, CryptographicLength: klen}}}
		enc.TagAny(kmip.TagResponsePayload, &pl)
	case 0x21: // Sign
		n := 64
		if len(opt) > 0 {
			n = opt[0].SignLen
		}
		sigBytes := make([]byte, n)
		for i := range sigBytes {
			sigBytes[i] = byte(i + 1)
		}
		pl := payloads.SignResponsePayload{UniqueIdentifier: id, SignatureData: sigBytes}
		enc.TagAny(kmip.TagResponsePayload, &pl)
	default:
		return ""
	}
	return hex.EncodeToString(enc.Bytes())
}

func c12SignerRun(c c12SignerCase) (sig string, err error) {
	ver := kmip.V1_4
	for _, v := range gen.Versions {
		if v.String() == c.Version {
			ver = v
		}
	}
	alg := kmip.CryptographicAlgorithmEC
	if c.Alg == "rsa" {
		alg = kmip.CryptographicAlgorithmRSA
	}
	srv := &rawServer{}
	srv.respond = func(conn, n int, req *ttlvref.Node, raw []byte) ([]byte, bool) {
		srv.mu.Lock()
		k := len(srv.Requests) - 1
		srv.mu.Unlock()
		if k == c.At {
			return buildResponse(c.Plan, req), false
		}
		return buildResponse(respPlan{Items: []itemPlan{{OpMode: "requested", PayloadMode: "requested", PayloadHex: signerPayload(req, alg, c)}}}, req), false
	}
	cl, conns, derr := newScriptedClient(ver, srv, true)
	defer func() {
		for _, x := range conns {
			x.Close()
		}
	}()
	if derr != nil {
		return "harness-dial", derr
	}
	defer cl.Close()
	ctx, cancel := context.WithTimeout(context.Background(), 20*time.Second)
	defer cancel()
	priv, pub := "priv", "pub"
	switch c.Variant {
	case "private":
		pub = ""
	case "public":
		priv = ""
	}
	var sg crypto.Signer
	var serr error
	if perr := safely(func() error { sg, serr = cl.Signer(ctx, priv, pub); return nil }); perr != nil {
		return "signer-panics", perr
	}
	srv.mu.Lock()
	nreq := len(srv.Requests)
	srv.mu.Unlock()
	if c.At < 0 || c.At >= nreq {
		// the conversation was conformant as far as it went
		if c.At < 0 && serr != nil && c.KeyAlg == "" {
			return "harness-signer-baseline", fmt.Errorf("Signer(%q, %q) fails on a conformant conversation of %d requests: %v", priv, pub, nreq, serr)
		}
		if serr == nil && sg != nil && c.Sign {
			// the signer is used: whatever the server had said about the key, signing returns a signature or an error
			if perr := safely(func() error { _, _ = sg.Sign(rand.Reader, make([]byte, 32), crypto.SHA256); return nil }); perr != nil {
				return "sign-panics", fmt.Errorf("Signer(%q, %q) succeeded (attributes say %s, public key material is %q); its Sign then panics: %w", priv, pub, c.Alg, c.KeyAlg, perr)
			}
		}
		return "", nil
	}
	// the response that deviates was delivered: does it violate the protocol in a way that must surface?
	rp := c.Plan
	mustFail, why := false, ""
	switch {
	case rp.HeaderCount != 0 || len(rp.Items) != 1:
		mustFail, why = true, fmt.Sprintf("item count %d, header count delta %d", len(rp.Items), rp.HeaderCount)
	case rp.Items[0].Status != 0:
		mustFail, why = true, "item status "+statusText(rp.Items[0].Status)
	case rp.Items[0].PayloadMode == "absent" && rp.Items[0].OpMode != "absent":
		// (a payload "of another operation" under the requested operation code is just a payload: nothing on the wire says
		// which operation a payload structure belongs to but the item's operation field)
		mustFail, why = true, "no payload"
	}
	if mustFail && serr == nil {
		return "signer-hides-violating-response", fmt.Errorf("Signer(%q, %q) returned a signer (%T) and no error although the answer to request %d of its conversation had %s", priv, pub, sg, c.At+1, why)
	}
	if mustFail && len(rp.Items) == 1 && rp.HeaderCount == 0 && rp.Items[0].Status == 1 {
		if s := checkErrorCarries(serr, rp.Items[0]); s != "" {
			// (only when the response is decodable at all)
			if reqTree, perr := ttlvref.Parse(srv.Requests[c.At], ttlvref.Lenient); perr == nil {
				var rm kmip.ResponseMessage
				if safely(func() error { return ttlv.UnmarshalTTLV(buildResponse(rp, reqTree), &rm) }) == nil {
					return "signer-" + s, fmt.Errorf("Signer(%q, %q) = %v does not carry the failed item %+v of request %d", priv, pub, serr, rp.Items[0], c.At+1)
				}
			}
		}
	}
	return "", nil
}

func TestC12Signer(t *testing.T) {
	const name = "TestC12Signer"
	rec := evid.New("C12", name, "Client.Signer called with a private key ID, a public key ID or both (RSA or EC attributes, versions 1.0..1.4) against a scripted server that knows the conversation (Get Attributes of one key, Get Attributes of the linked key, Get of the public key): "+
		"every request gets a conformant answer except the 1st, 2nd or 3rd one, which gets a generated deviation (counts, operation, status, reason, message, payload as in TestC12Responses); oracle: no panic; a failed item, a missing payload or wrong counts at ANY position ends the call with an error, "+
		"which carries status, reason and message of a failed item; a fully conformant conversation yields a signer (checked first, else inconclusive); one case in three has no deviation and uses the signer once (Sign request answered with 0..132 signature bytes), the public key material being EC or RSA whatever the attributes announce: Sign returns or fails, it does not panic; non-trivial = the deviating answer was delivered and violates the protocol; distinct by case").Attach(t)
	if rp := evid.LoadReplay(name); rp != nil {
		var c c12SignerCase
		if err := json.Unmarshal(rp.Case, &c); err != nil {
			t.Fatal(err)
		}
		if sig, err := c12SignerRun(c); err != nil {
			t.Fatalf("VERIF-FAIL property=C12 test=%s sig=%s replay=: %v", name, sig, err)
		}
		return
	}
	for _, v := range []string{"private", "public", "both"} {
		for _, a := range []string{"rsa", "ec"} {
			if sig, err := c12SignerRun(c12SignerCase{Variant: v, Alg: a, Version: "1.4", At: -1}); err != nil {
				t.Fatalf("VERIF-INCONCLUSIVE %s: %v", sig, err)
			}
		}
	}
	rapid.Check(t, func(rt *rapid.T) {
		c := c12SignerCase{Variant: rapid.SampledFrom([]string{"private", "public", "both"}).Draw(rt, "variant"), Alg: rapid.SampledFrom([]string{"rsa", "ec"}).Draw(rt, "alg"),
			Version: rapid.SampledFrom(gen.Versions).Draw(rt, "version").String(), At: rapid.IntRange(0, 2).Draw(rt, "at")}
		if rapid.IntRange(0, 2).Draw(rt, "usesigner") == 0 {
			// no deviation in the conversation: the signer is obtained and used, against a server whose key material may
			// not be of the algorithm its attributes announce
			c.At, c.Sign = -1, true
			c.KeyAlg = rapid.SampledFrom([]string{"ec", "rsa"}).Draw(rt, "keyalg")
			c.SignLen = rapid.SampledFrom([]int{0, 1, 63, 64, 65, 70, 72, 128, 132}).Draw(rt, "signlen")
		}
		op := kmip.OperationGetAttributes
		if c.At == 2 {
			op = kmip.OperationGet
		}
		c.Plan = drawRespPlan(rt, op, 1)
		nt := c.Plan.HeaderCount != 0 || len(c.Plan.Items) != 1 || c.Plan.Items[0].Status != 0 || c.Plan.Items[0].PayloadMode == "absent"
		key, _ := json.Marshal(c)
		rec.Case(nt, key, "variant="+c.Variant, fmt.Sprintf("at=%d", c.At))
		if nt && rec.WantSample() && len(key) < 1500 {
			rec.Sample(c)
		}
		if sig, err := c12SignerRun(c); err != nil {
			// the conversation is deterministic (one caller, a scripted server): a verdict that the very same case does not
			// reproduce three more times in a row is not evidence against the library - it is reported as inconclusive
			for k := 0; k < 3; k++ {
				if sig2, err2 := c12SignerRun(c); err2 == nil || sig2 != sig {
					rec.Fail(rt, name, "harness-not-reproducible:"+sig, fmt.Errorf("the same case passed when it was run again (%d); first verdict: %w", k+1, err), c)
					return
				}
			}
			rec.Fail(rt, name, sig, err, c)
		}
	})
}

var _ = memnet.Pipe
