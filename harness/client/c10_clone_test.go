package client

import (
	"encoding/json"
	"fmt"
	"testing"

	"pgregory.net/rapid"

	"verif/harness/evid"
)

// TestC10FreshClone: a clone of a client handed to a pool of callers that all make their first call at the same
// moment. Nothing disturbs the exchanges; every call must get the response to its own request. Run under the race
// detector in both tiers: what serialises the exchanges of a client must exist before two callers need it.
func TestC10FreshClone(t *testing.T) {
	const name = "TestC10FreshClone"
	rec := evid.New("C10", name, "2..6 caller goroutines released together on a Clone() of the dialled client that has not been used before, (one case in two: the callers with an even index use the dialled client itself, so that two clients of the process are at work at once), each issuing 1..2 undisturbed calls (Activate through Request, or Query / Discover Versions through Roundtrip) with unique identifiers; the correlation middleware optionally installed; built with the race detector in both tiers; "+
		"oracle: every call returns the response echoing its own identifier, and the race detector reports nothing in the library; non-trivial = every case (>= 2 callers making the clone's first calls); distinct by case").Attach(t)
	if rp := evid.LoadReplay(name); rp != nil {
		var c c10Case
		if err := json.Unmarshal(rp.Case, &c); err != nil {
			t.Fatal(err)
		}
		for i := 0; i < 20; i++ {
			if sig, err := c10Run(c); err != nil {
				t.Fatalf("VERIF-FAIL property=C10 test=%s sig=%s replay=: %v", name, sig, err)
			}
		}
		return
	}
	rapid.Check(t, func(rt *rapid.T) {
		c := c10Case{FreshClone: true, Correlation: rapid.SampledFrom([]string{"", "", "unique", "shared"}).Draw(rt, "correlation")}
		c.BothClients = rapid.Bool().Draw(rt, "both-clients")
		n := rapid.IntRange(2, 6).Draw(rt, "callers")
		for ci := 0; ci < n; ci++ {
			var calls []callPlan
			for i, m := 0, rapid.IntRange(1, 2).Draw(rt, "calls"); i < m; i++ {
				calls = append(calls, callPlan{ID: fmt.Sprintf("call-%d-%d", ci, i), Cancel: "none", Server: "reply", Op: rapid.SampledFrom([]string{"", "", "query", "discover"}).Draw(rt, "op")})
			}
			c.Callers = append(c.Callers, calls)
		}
		key, _ := json.Marshal(c)
		rec.Case(true, key, fmt.Sprintf("callers=%d", n), "correlation="+c.Correlation)
		if rec.WantSample() {
			rec.Sample(c)
		}
		evid.Journal("C10", name, c)
		if sig, err := c10Run(c); err != nil {
			rec.Fail(rt, name, sig, err, c)
		}
	})
}
