package client

import (
	"context"
	"encoding/json"
	"fmt"
	"net"
	"sort"
	"sync"
	"testing"
	"time"

	kmip "github.com/ovh/kmip-go"
	"github.com/ovh/kmip-go/kmipclient"
	"github.com/ovh/kmip-go/kmipserver"
	"github.com/ovh/kmip-go/payloads"
	"github.com/ovh/kmip-go/ttlv"

	"verif/harness/evid"
	"verif/harness/memnet"
)

var allVersions = []kmip.ProtocolVersion{kmip.V1_0, kmip.V1_1, kmip.V1_2, kmip.V1_3, kmip.V1_4}

func subset(mask int) []kmip.ProtocolVersion {
	var out []kmip.ProtocolVersion
	for i, v := range allVersions {
		if mask&(1<<i) != 0 {
			out = append(out, v)
		}
	}
	return out
}

func vless(a, b kmip.ProtocolVersion) bool { return ttlv.CompareVersions(a, b) < 0 }

func contains(s []kmip.ProtocolVersion, v kmip.ProtocolVersion) bool {
	for _, x := range s {
		if x == v {
			return true
		}
	}
	return false
}

const (
	bConformant  = "conformant"
	bUnsupported = "discovery-unsupported"
	bNotOffered  = "lists-versions-not-offered"
	bUnordered   = "unordered-list"
	bEmpty       = "empty-list"
	bLibraryExec = "library-batch-executor"
	// bHangsUp: the server reads a Discover Versions request and closes the connection without a word, every time (an
	// appliance that chokes on the operation, a server that restarts); every other request is answered. The server has
	// advertised nothing then: connecting fails, or - reading the hang-up as "discovery unsupported" - ends on 1.0 if the
	// client's set has it; in no case is a version outside the configured set adopted.
	bHangsUp = "hangs-up-on-discovery"
	// bForeign: a server that also speaks KMIP 2.x (and an ancient 0.9) and lists those versions in front of the common
	// ones, without regard to what the client offered
	bForeign = "lists-versions-outside-1.x"
)

var behaviours = []string{bConformant, bUnsupported, bNotOffered, bUnordered, bEmpty, bLibraryExec, bHangsUp, bForeign, bUnsupportedNoOp}

// bUnsupportedNoOp: discovery unsupported, said by a failed item that names no operation (the Operation field of a response
// item is optional when the request could not be processed; a gateway in front of the server answers like that)
const bUnsupportedNoOp = "discovery-unsupported-operation-not-echoed"

type c13Case struct {
	ClientMask int    `json:"client_set_mask"` // bit i = version 1.i
	ServerMask int    `json:"server_set_mask"`
	Behaviour  string `json:"server_behaviour"`
	Enforced   int    `json:"enforced_minor"` // -1: not enforced
	// PriorMask: (library executor only) another client with this set connects to the same server first
	PriorMask int `json:"prior_client_set_mask,omitempty"`
	// Options: how the client set is handed over: one WithKmipVersions option per inner list (minor numbers, in this order).
	// Empty: a single option listing the set in ascending order.
	Options [][]int `json:"client_options,omitempty"`
	// Cluster: the client is created with DialCluster (one address) instead of Dial
	Cluster bool `json:"dial_cluster,omitempty"`
	// Default (client set = all of 1.0..1.4 only): no WithKmipVersions option at all: the library's default set
	Default bool `json:"default_options,omitempty"`
	// EnforceFirst: the EnforceVersion option is passed before the version-set options instead of after them
	EnforceFirst bool `json:"enforce_option_first,omitempty"`
}

// optionLayouts returns ways of passing the same set through WithKmipVersions (all equivalent per the option's contract:
// the options accumulate into one set).
func optionLayouts(mask int) [][][]int {
	var minors []int
	for i := 0; i < 5; i++ {
		if mask&(1<<i) != 0 {
			minors = append(minors, i)
		}
	}
	n := len(minors)
	desc := make([]int, n)
	for i, m := range minors {
		desc[n-1-i] = m
	}
	out := [][][]int{{desc}}
	if n >= 2 {
		var each [][]int
		for _, m := range minors {
			each = append(each, []int{m})
		}
		out = append(out, each)                                  // one option per version, ascending
		out = append(out, [][]int{minors[:n/2], minors[n/2:]})   // lower half first, then the upper half
		out = append(out, [][]int{desc[:1], desc[1:], desc[:1]}) // highest first, the rest, a duplicate
		rot := append(append([]int{}, minors[1:]...), minors[0])
		out = append(out, [][]int{rot[:1], rot[1:]})
	}
	return out
}

type negServer struct {
	mu        sync.Mutex
	c         c13Case
	set       []kmip.ProtocolVersion
	discovers int
	versions  []kmip.ProtocolVersion // header versions of non-discovery requests
	exec      *kmipserver.BatchExecutor
}

func (s *negServer) advertised(offered []kmip.ProtocolVersion) []kmip.ProtocolVersion {
	desc := append([]kmip.ProtocolVersion{}, s.set...)
	sort.Slice(desc, func(i, j int) bool { return vless(desc[j], desc[i]) })
	var inter []kmip.ProtocolVersion
	for _, v := range desc {
		if len(offered) == 0 || contains(offered, v) {
			inter = append(inter, v)
		}
	}
	switch s.c.Behaviour {
	case bNotOffered:
		return desc
	case bUnordered:
		// ascending, and for >= 3 elements the middle one first
		asc := append([]kmip.ProtocolVersion{}, inter...)
		sort.Slice(asc, func(i, j int) bool { return vless(asc[i], asc[j]) })
		if len(asc) >= 3 {
			asc[0], asc[1] = asc[1], asc[0]
		}
		return asc
	case bEmpty:
		return nil
	case bForeign:
		return append([]kmip.ProtocolVersion{{ProtocolVersionMajor: 2, ProtocolVersionMinor: 1}, {ProtocolVersionMajor: 2, ProtocolVersionMinor: 0}}, append(append([]kmip.ProtocolVersion{}, inter...), kmip.ProtocolVersion{ProtocolVersionMajor: 0, ProtocolVersionMinor: 9})...)
	}
	return inter
}

func (s *negServer) serve(c net.Conn) {
	st := ttlv.NewStream(c, 1<<20)
	for {
		var req kmip.RequestMessage
		if err := st.Recv(&req); err != nil {
			return
		}
		var resp *kmip.ResponseMessage
		isDiscover := len(req.BatchItem) == 1 && req.BatchItem[0].Operation == kmip.OperationDiscoverVersions
		s.mu.Lock()
		if isDiscover {
			s.discovers++
		} else {
			s.versions = append(s.versions, req.Header.ProtocolVersion)
		}
		s.mu.Unlock()
		switch {
		case isDiscover && s.c.Behaviour == bHangsUp:
			_ = c.Close()
			return
		case s.c.Behaviour == bLibraryExec:
			resp = s.exec.HandleRequest(context.Background(), &req)
		case isDiscover && s.c.Behaviour == bUnsupportedNoOp:
			resp = &kmip.ResponseMessage{Header: kmip.ResponseHeader{ProtocolVersion: req.Header.ProtocolVersion, BatchCount: 1, TimeStamp: time.Unix(0, 0)},
				BatchItem: []kmip.ResponseBatchItem{{ResultStatus: kmip.ResultStatusOperationFailed, ResultReason: kmip.ResultReasonOperationNotSupported, ResultMessage: "not supported"}}}
		case isDiscover && s.c.Behaviour == bUnsupported:
			resp = &kmip.ResponseMessage{Header: kmip.ResponseHeader{ProtocolVersion: req.Header.ProtocolVersion, BatchCount: 1, TimeStamp: time.Unix(0, 0)},
				BatchItem: []kmip.ResponseBatchItem{{Operation: kmip.OperationDiscoverVersions, ResultStatus: kmip.ResultStatusOperationFailed, ResultReason: kmip.ResultReasonOperationNotSupported, ResultMessage: "not supported"}}}
		case isDiscover:
			pl := req.BatchItem[0].RequestPayload.(*payloads.DiscoverVersionsRequestPayload)
			resp = &kmip.ResponseMessage{Header: kmip.ResponseHeader{ProtocolVersion: req.Header.ProtocolVersion, BatchCount: 1, TimeStamp: time.Unix(0, 0)},
				BatchItem: []kmip.ResponseBatchItem{{Operation: kmip.OperationDiscoverVersions, ResponsePayload: &payloads.DiscoverVersionsResponsePayload{ProtocolVersion: s.advertised(pl.ProtocolVersion)}}}}
		default:
			resp = &kmip.ResponseMessage{Header: kmip.ResponseHeader{ProtocolVersion: req.Header.ProtocolVersion, BatchCount: 1, TimeStamp: time.Unix(0, 0)},
				BatchItem: []kmip.ResponseBatchItem{{Operation: kmip.OperationActivate, ResponsePayload: &payloads.ActivateResponsePayload{UniqueIdentifier: "x"}}}}
		}
		if err := st.Send(resp); err != nil {
			return
		}
	}
}

func c13Run(c c13Case) (sig string, err error) {
	clientSet, serverSet := subset(c.ClientMask), subset(c.ServerMask)
	srv := &negServer{c: c, set: serverSet}
	if c.Behaviour == bLibraryExec {
		srv.exec = kmipserver.NewBatchExecutor()
		if len(serverSet) > 0 {
			srv.exec.SetSupportedProtocolVersions(append([]kmip.ProtocolVersion{}, serverSet...)...)
		} else {
			// an executor cannot be configured with an empty set (it falls back to the default): outside this behaviour's domain
			return "", nil
		}
		srv.exec.Route(kmip.OperationActivate, kmipserver.HandleFunc(func(ctx context.Context, req *payloads.ActivateRequestPayload) (*payloads.ActivateResponsePayload, error) {
			return &payloads.ActivateResponsePayload{UniqueIdentifier: "x"}, nil
		}))
	}
	var conns []*memnet.Conn
	if c.PriorMask != 0 {
		// an earlier client with another configuration negotiates with the same server; whatever it gets must not
		// influence what the client under test adopts
		if pc, perr := kmipclient.Dial("verif", kmipclient.WithKmipVersions(subset(c.PriorMask)...), kmipclient.WithDialerUnsafe(func(ctx context.Context) (net.Conn, error) {
			a, b := memnet.Pipe()
			conns = append(conns, a, b)
			go srv.serve(b)
			return a, nil
		})); perr == nil {
			_ = pc.Close()
		}
		srv.mu.Lock()
		srv.discovers, srv.versions = 0, nil
		srv.mu.Unlock()
	}
	var opts []kmipclient.Option
	if len(c.Options) == 0 && !c.Default {
		opts = append(opts, kmipclient.WithKmipVersions(append([]kmip.ProtocolVersion{}, clientSet...)...))
	}
	for _, l := range c.Options {
		var vs []kmip.ProtocolVersion
		for _, m := range l {
			vs = append(vs, allVersions[m])
		}
		opts = append(opts, kmipclient.WithKmipVersions(vs...))
	}
	opts = append(opts,
		kmipclient.WithDialerUnsafe(func(ctx context.Context) (net.Conn, error) {
			a, b := memnet.Pipe()
			conns = append(conns, a, b)
			go srv.serve(b)
			return a, nil
		}))
	var enforced *kmip.ProtocolVersion
	if c.Enforced >= 0 {
		v := allVersions[c.Enforced]
		enforced = &v
		if c.EnforceFirst {
			opts = append([]kmipclient.Option{kmipclient.EnforceVersion(v)}, opts...)
		} else {
			opts = append(opts, kmipclient.EnforceVersion(v))
		}
	}
	defer func() {
		for _, x := range conns {
			x.Close()
		}
	}()
	var cl *kmipclient.Client
	var derr error
	if perr := safely(func() error {
		if c.Cluster {
			cl, derr = kmipclient.DialCluster([]string{"verif"}, append(opts, kmipclient.WithRetryTimeout(time.Second))...)
		} else {
			cl, derr = kmipclient.Dial("verif", opts...)
		}
		return nil
	}); perr != nil {
		return "dial-panics", perr
	}
	// expected outcome as a pure function of the configuration
	var want *kmip.ProtocolVersion
	mustFail, mayFail := false, false
	switch {
	case enforced != nil:
		want = enforced
	case c.Behaviour == bUnsupported || c.Behaviour == bUnsupportedNoOp:
		if contains(clientSet, kmip.V1_0) {
			v := kmip.V1_0
			want = &v
		} else {
			mustFail = true
		}
	case c.Behaviour == bHangsUp:
		if contains(clientSet, kmip.V1_0) {
			v := kmip.V1_0
			want, mayFail = &v, true
		} else {
			mustFail = true
		}
	default:
		adv := srv.advertised(clientSet)
		if c.Behaviour == bLibraryExec {
			// the executor answers discovery only if it accepts the discovery message's own version (1.1)
			adv = nil
			for _, v := range serverSet {
				if contains(clientSet, v) {
					adv = append(adv, v)
				}
			}
			if !contains(serverSet, kmip.V1_1) {
				mayFail = true
			}
		}
		var best *kmip.ProtocolVersion
		for _, v := range adv {
			if contains(clientSet, v) && (best == nil || vless(*best, v)) {
				vv := v
				best = &vv
			}
		}
		if best == nil {
			mustFail = true
		} else {
			want = best
		}
	}
	if derr != nil {
		if mustFail || mayFail {
			return "", nil
		}
		return "dial-fails-with-common-version", fmt.Errorf("Dial failed (%v) although version %v is common", derr, *want)
	}
	defer cl.Close()
	got := cl.Version()
	if mustFail {
		return "dial-succeeds-without-common-version", fmt.Errorf("Dial adopted %v although client %v and server (%s, %v) have no common version", got, clientSet, c.Behaviour, serverSet)
	}
	if enforced == nil && !contains(clientSet, got) {
		return "adopted-version-not-in-client-set", fmt.Errorf("adopted %v which is not in the client's set %v (server %s advertised from %v)", got, clientSet, c.Behaviour, serverSet)
	}
	if got != *want {
		return "not-highest-common", fmt.Errorf("adopted %v, highest common version is %v (client %v, server %s %v)", got, *want, clientSet, c.Behaviour, serverSet)
	}
	if enforced != nil && srv.discovers != 0 {
		return "discovery-sent-although-enforced", fmt.Errorf("%d discovery requests sent with an enforced version", srv.discovers)
	}
	// every subsequent request carries it, and so does a clone
	for i := 0; i < 2; i++ {
		_, rerr := cl.Request(context.Background(), &payloads.ActivateRequestPayload{UniqueIdentifier: "x"})
		if rerr != nil && c.Behaviour != bLibraryExec {
			return "followup-fails", rerr
		}
	}
	// also a request that itself contains a Discover Versions item (next to another one): it is a request like any other
	if perr := safely(func() error {
		_, _ = cl.Batch(context.Background(), &payloads.ActivateRequestPayload{UniqueIdentifier: "x"}, &payloads.DiscoverVersionsRequestPayload{})
		return nil
	}); perr != nil {
		return "followup-panics", perr
	}
	var clone *kmipclient.Client
	if perr := safely(func() error { var e error; clone, e = cl.Clone(); return e }); perr != nil {
		return "clone-fails", perr
	}
	defer clone.Close()
	if clone.Version() != got {
		return "clone-version-differs", fmt.Errorf("clone has version %v, original %v", clone.Version(), got)
	}
	_, _ = clone.Request(context.Background(), &payloads.ActivateRequestPayload{UniqueIdentifier: "x"})
	srv.mu.Lock()
	defer srv.mu.Unlock()
	if len(srv.versions) != 4 {
		return "followup-count", fmt.Errorf("server saw %d follow-up requests, want 4", len(srv.versions))
	}
	for _, v := range srv.versions {
		if v != got {
			return "followup-version-differs", fmt.Errorf("a follow-up request carries version %v, adopted %v", v, got)
		}
	}
	return "", nil
}

func TestC13Negotiation(t *testing.T) {
	const name = "TestC13Negotiation"
	rec := evid.New("C13", name, "exhaustive: 31 non-empty client sets x 32 server sets x 9 server behaviours (conformant descending intersection, discovery unsupported (the failed item naming the operation or not), lists versions not offered, unordered list, empty list, hanging up on every discovery request, listing 2.1, 2.0 and 0.9 around the common versions, the library's own BatchExecutor restricted to the set, also after an earlier client with another set has negotiated with the same executor) without enforcement, "+
		"plus the same client set handed over through up to five other option layouts (descending, one WithKmipVersions option per version, two halves, highest first with a duplicate, rotated) against the conformant, unordered and library servers, plus clients with default options (no version option at all) against every server, plus clients created with DialCluster against the conformant, discovery-less and library servers, plus 31 x 32 x 5 enforced versions against the conformant server (the EnforceVersion option before or after the version-set options, also with every option layout); each followed by two requests, a batch containing a Discover Versions item, and a clone; oracle: pure function of the configuration (highest common version / fallback to 1.0 / failure); "+
		"non-trivial = the intersection has >= 2 elements, or the server lists a version outside the client's set, or the list is unordered; distinct by case").Attach(t)
	rec.Exhaustive(true)
	if rp := evid.LoadReplay(name); rp != nil {
		var c c13Case
		if err := json.Unmarshal(rp.Case, &c); err != nil {
			t.Fatal(err)
		}
		if sig, err := c13Run(c); err != nil {
			t.Fatalf("VERIF-FAIL property=C13 test=%s sig=%s replay=: %v", name, sig, err)
		}
		return
	}
	run := func(c c13Case) bool {
		inter := 0
		for i := 0; i < 5; i++ {
			if c.ClientMask&c.ServerMask&(1<<i) != 0 {
				inter++
			}
		}
		nt := inter >= 2 || (c.Behaviour == bNotOffered && c.ServerMask&^c.ClientMask != 0) || c.Behaviour == bUnordered || c.Behaviour == bForeign
		key, _ := json.Marshal(c)
		rec.Case(nt, key, "behaviour="+c.Behaviour)
		if nt && (c.ClientMask*37+c.ServerMask)%997 == 3 {
			rec.Sample(c)
		}
		if sig, err := c13Run(c); err != nil {
			rec.Fail(t, name, sig+":"+c.Behaviour, err, c)
			return false
		}
		return true
	}
	for cm := 1; cm < 32; cm++ {
		for sm := 0; sm < 32; sm++ {
			for _, b := range behaviours {
				if !run(c13Case{ClientMask: cm, ServerMask: sm, Behaviour: b, Enforced: -1}) {
					return
				}
			}
			// the library's executor after an earlier, differently configured client ({1.1,1.2} resp. {1.1,1.3})
			for _, prior := range []int{0b00110, 0b01010} {
				if !run(c13Case{ClientMask: cm, ServerMask: sm, Behaviour: bLibraryExec, Enforced: -1, PriorMask: prior}) {
					return
				}
			}
			if cm == 31 {
				// the default set, not given through any option (clients of one process share nothing)
				for _, b := range behaviours {
					for _, cluster := range []bool{false, true} {
						if !run(c13Case{ClientMask: cm, ServerMask: sm, Behaviour: b, Enforced: -1, Default: true, Cluster: cluster}) {
							return
						}
					}
				}
			}
			// the other constructor: DialCluster negotiates like Dial
			for _, b := range []string{bConformant, bUnsupported, bLibraryExec} {
				if !run(c13Case{ClientMask: cm, ServerMask: sm, Behaviour: b, Enforced: -1, Cluster: true}) {
					return
				}
			}
			// the same client set handed over through other option layouts
			for _, lay := range optionLayouts(cm) {
				for _, b := range []string{bConformant, bUnordered, bLibraryExec} {
					if !run(c13Case{ClientMask: cm, ServerMask: sm, Behaviour: b, Enforced: -1, Options: lay}) {
						return
					}
				}
			}
			for e := 0; e < 5; e++ {
				if !run(c13Case{ClientMask: cm, ServerMask: sm, Behaviour: bConformant, Enforced: e, EnforceFirst: (cm+sm+e)%2 == 1}) {
					return
				}
				if sm == 31 {
					// the enforced version next to every option layout of the client set, in both orders
					for _, lay := range optionLayouts(cm) {
						for _, first := range []bool{false, true} {
							if !run(c13Case{ClientMask: cm, ServerMask: sm, Behaviour: bConformant, Enforced: e, EnforceFirst: first, Options: lay}) {
								return
							}
						}
					}
				}
			}
		}
	}
}
