package client

import (
	"context"
	"crypto/ecdsa"
	"crypto/elliptic"
	"crypto/rand"
	"crypto/tls"
	"crypto/x509"
	"crypto/x509/pkix"
	"encoding/json"
	"errors"
	"fmt"
	"math/big"
	"net"
	"strings"
	"sync"
	"testing"
	"time"

	kmip "github.com/ovh/kmip-go"
	"github.com/ovh/kmip-go/kmipclient"
	"github.com/ovh/kmip-go/kmipserver"
	"github.com/ovh/kmip-go/payloads"
	"pgregory.net/rapid"

	"verif/harness/evid"
)

// The other C11 tests give the client its connections through WithDialerUnsafe. This one uses what applications use:
// the client's own TLS dialer against a real kmipserver on a loopback TCP listener (real time, a few milliseconds per
// step). Faults are connections dropped by the server; the contexts handed to DialContext are released afterwards, as
// the usual `ctx, cancel := context.WithTimeout(...); defer cancel()` does.

type c11TLSCase struct {
	// DialCtx: background | cancelled-after-dial | timeout-expired-after-dial
	DialCtx string `json:"dial_context"`
	// Steps: call | drop (the server closes every connection it holds) | clone-call (a clone makes a call and is closed) | pause |
	// server-down (the server is shut down: connections dropped, port closed) | server-up (a new server listens on the same port)
	Steps    []string `json:"steps"`
	Enforced bool     `json:"enforced_version"`
	// Cluster: the client is made with DialCluster on a one-address list (the pool dialer with its retry time-out) instead
	// of Dial; RetryTimeoutMs = 0: WithRetryTimeout is not given (the documented default applies)
	Cluster        bool `json:"dial_cluster,omitempty"`
	RetryTimeoutMs int  `json:"retry_timeout_ms,omitempty"`
	// DeadFirst (cluster): the address list is [an address nobody listens on, the server]: the first server of the pool is down for good
	DeadFirst bool `json:"first_pool_server_is_down,omitempty"`
}

// recordingListener remembers the connections it accepted so that the test can drop them.
type recordingListener struct {
	net.Listener
	mu    sync.Mutex
	conns []net.Conn
}

func (l *recordingListener) Accept() (net.Conn, error) {
	c, err := l.Listener.Accept()
	if err == nil {
		l.mu.Lock()
		l.conns = append(l.conns, c)
		l.mu.Unlock()
	}
	return c, err
}

func (l *recordingListener) dropAll() {
	l.mu.Lock()
	for _, c := range l.conns {
		_ = c.Close()
	}
	l.conns = nil
	l.mu.Unlock()
}

var (
	c11TLSOnce sync.Once
	c11TLSCfg  *tls.Config
)

func c11ServerTLS() *tls.Config {
	c11TLSOnce.Do(func() {
		key, err := ecdsa.GenerateKey(elliptic.P256(), rand.Reader)
		if err != nil {
			panic(err)
		}
		tpl := &x509.Certificate{SerialNumber: big.NewInt(1), Subject: pkix.Name{CommonName: "verif"}, NotBefore: time.Unix(0, 0), NotAfter: time.Date(2100, 1, 1, 0, 0, 0, 0, time.UTC),
			KeyUsage: x509.KeyUsageDigitalSignature, ExtKeyUsage: []x509.ExtKeyUsage{x509.ExtKeyUsageServerAuth}, IPAddresses: []net.IP{net.ParseIP("127.0.0.1")}}
		der, err := x509.CreateCertificate(rand.Reader, tpl, tpl, &key.PublicKey, key)
		if err != nil {
			panic(err)
		}
		c11TLSCfg = &tls.Config{Certificates: []tls.Certificate{{Certificate: [][]byte{der}, PrivateKey: key}}, MinVersion: tls.VersionTLS12}
	})
	return c11TLSCfg
}

func c11TLSRun(c c11TLSCase) (sig string, err error) {
	tcp, lerr := net.Listen("tcp", "127.0.0.1:0")
	if lerr != nil {
		return "harness-listen", lerr
	}
	addr := tcp.Addr().String()
	ln := &recordingListener{Listener: tls.NewListener(tcp, c11ServerTLS())}
	exec := kmipserver.NewBatchExecutor()
	exec.Route(kmip.OperationActivate, kmipserver.HandleFunc(func(ctx context.Context, req *payloads.ActivateRequestPayload) (*payloads.ActivateResponsePayload, error) {
		return &payloads.ActivateResponsePayload{UniqueIdentifier: req.UniqueIdentifier}, nil
	}))
	srv := kmipserver.NewServer(ln, exec)
	go func() { _ = srv.Serve() }()
	up := true
	defer func() {
		if up {
			ln.dropAll()
			_ = srv.Shutdown()
		}
	}()

	opts := []kmipclient.Option{kmipclient.WithTlsConfig(&tls.Config{InsecureSkipVerify: true, MinVersion: tls.VersionTLS12})}
	if c.Enforced {
		opts = append(opts, kmipclient.EnforceVersion(kmip.V1_4))
	}
	var cl *kmipclient.Client
	var derr error
	// (the dial's own deadline is 300 ms; on a loaded machine a TLS handshake can take longer: then once more with 2 s
	// and 10 s - a dial that does not fit its deadline is not what this test is about)
	for _, budget := range []time.Duration{300 * time.Millisecond, 2 * time.Second, 10 * time.Second} {
		dctx, release := context.Background(), func() {}
		switch c.DialCtx {
		case "cancelled-after-dial":
			dctx, release = context.WithCancel(context.Background())
		case "timeout-expired-after-dial":
			var cancel context.CancelFunc
			dctx, cancel = context.WithTimeout(context.Background(), budget)
			release = func() { <-dctx.Done(); cancel() }
		}
		if c.Cluster {
			copts := opts
			if c.RetryTimeoutMs > 0 {
				copts = append(append([]kmipclient.Option{}, opts...), kmipclient.WithRetryTimeout(time.Duration(c.RetryTimeoutMs)*time.Millisecond))
			}
			addrs := []string{addr}
			if c.DeadFirst {
				// a port that was free a moment ago and on which nobody listens
				if dl, e := net.Listen("tcp", "127.0.0.1:0"); e == nil {
					dead := dl.Addr().String()
					_ = dl.Close()
					addrs = []string{dead, addr}
				}
			}
			if perr := safely(func() error { cl, derr = kmipclient.DialClusterContext(dctx, addrs, copts...); return nil }); perr != nil {
				release()
				return "dial-panics:cluster", fmt.Errorf("DialCluster([1 address]) with retry time-out option %d ms: %w", c.RetryTimeoutMs, perr)
			}
		} else {
			cl, derr = kmipclient.DialContext(dctx, addr, opts...)
		}
		release()
		if derr == nil || c.DialCtx != "timeout-expired-after-dial" || !errors.Is(derr, context.DeadlineExceeded) {
			break
		}
	}
	if derr != nil {
		return "harness-dial", fmt.Errorf("initial dial failed: %w", derr)
	}
	defer cl.Close()
	failedInARow, n := 0, 0
	doCall := func(cc *kmipclient.Client, who string) (string, error) {
		n++
		id := fmt.Sprintf("%s-%d", who, n)
		ctx, cancel := context.WithTimeout(context.Background(), 30*time.Second)
		defer cancel()
		var resp kmip.OperationPayload
		var cerr error
		if perr := safely(func() error { resp, cerr = cc.Request(ctx, &payloads.ActivateRequestPayload{UniqueIdentifier: id}); return nil }); perr != nil {
			return "call-panics:default-dialer", fmt.Errorf("step %d (%s): %w", n, who, perr)
		}
		if !up {
			// nobody listens: nothing to conclude but that the call returned
			failedInARow = 0
			return "", nil
		}
		if cerr != nil && errors.Is(cerr, context.DeadlineExceeded) {
			// real time on a machine that is busy elsewhere: nothing is concluded from a call that met the harness's own
			// 30 s limit (hangs are the business of the fake-time tests)
			return "harness-slow", fmt.Errorf("step %d (%s): the call met the harness's 30 s limit: %w", n, who, cerr)
		}
		if cerr != nil {
			failedInARow++
			if failedInARow >= 2 {
				return "no-recovery:default-dialer", fmt.Errorf("step %d (%s): two calls in a row failed although the server is up and accepting: %v", n, who, cerr)
			}
			return "", nil
		}
		failedInARow = 0
		if ap, ok := resp.(*payloads.ActivateResponsePayload); !ok || ap.UniqueIdentifier != id {
			return "wrong-or-partial-response:default-dialer", fmt.Errorf("step %d: call %s returned %#v", n, id, resp)
		}
		return "", nil
	}
	for _, st := range c.Steps {
		switch st {
		case "call":
			if sig, err := doCall(cl, "call"); err != nil {
				return sig, err
			}
		case "drop":
			ln.dropAll()
			time.Sleep(2 * time.Millisecond)
		case "server-down":
			if up {
				ln.dropAll()
				_ = srv.Shutdown()
				up = false
				time.Sleep(2 * time.Millisecond)
			}
		case "server-up":
			if !up {
				var tcp2 net.Listener
				var lerr2 error
				for try := 0; try < 50; try++ {
					if tcp2, lerr2 = net.Listen("tcp", addr); lerr2 == nil {
						break
					}
					time.Sleep(10 * time.Millisecond)
				}
				if lerr2 != nil {
					return "harness-listen", lerr2
				}
				ln = &recordingListener{Listener: tls.NewListener(tcp2, c11ServerTLS())}
				srv = kmipserver.NewServer(ln, exec)
				go func(s *kmipserver.Server) { _ = s.Serve() }(srv)
				up = true
				failedInARow = 0
			}
		case "pause":
			time.Sleep(5 * time.Millisecond)
		case "clone-call":
			if !up {
				continue
			}
			ctx, cancel := context.WithTimeout(context.Background(), 30*time.Second)
			clone, cerr := cl.CloneCtx(ctx)
			cancel()
			if cerr != nil && errors.Is(cerr, context.DeadlineExceeded) {
				return "harness-slow", fmt.Errorf("Clone met the harness's 30 s limit: %w", cerr)
			}
			if cerr != nil {
				return "clone-fails:default-dialer", fmt.Errorf("Clone failed although the server is up and accepting: %v", cerr)
			}
			// a fresh clone has a fresh connection: its first call succeeds (unless the server dropped it meanwhile, which no step does here)
			before := failedInARow
			failedInARow = 1 // a single failure is already one too many for a fresh connection
			sig, err := doCall(clone, "clone")
			_ = clone.Close()
			if err != nil {
				return strings.Replace(sig, "no-recovery", "clone-unusable", 1), err
			}
			failedInARow = before
		}
	}
	return "", nil
}

func TestC11DefaultDialer(t *testing.T) {
	const name = "TestC11DefaultDialer"
	rec := evid.New("C11", name, "the client's own TLS dialer (no WithDialerUnsafe) against a real kmipserver on a loopback TLS listener, real time: DialContext under a context that is {background, cancelled right after the dial, a 300 ms timeout that has expired after the dial}, "+
		"then 3..8 steps of {call, the server drops every connection it holds, a clone makes a call, pause}, in half of the cases with a restart of the server on the same port spliced in (calls being made while it is down and three more after it is back); one client in three is made with DialCluster on a one-address list or on [a dead address, the server] (retry time-out option absent, 1 ms, 50 ms or 5 s); oracle: no call and no constructor panics, never two failed calls in a row while the server is up, responses echo their own identifier, Clone works, a fresh clone's first call succeeds; "+
		"non-trivial = a drop is followed by a call or a clone; distinct by case").Attach(t)
	if rp := evid.LoadReplay(name); rp != nil {
		var c c11TLSCase
		if err := json.Unmarshal(rp.Case, &c); err != nil {
			t.Fatal(err)
		}
		if sig, err := c11TLSRun(c); err != nil {
			t.Fatalf("VERIF-FAIL property=C11 test=%s sig=%s replay=: %v", name, sig, err)
		}
		return
	}
	c11ServerTLS()
	rapid.Check(t, func(rt *rapid.T) {
		c := c11TLSCase{DialCtx: rapid.SampledFrom([]string{"background", "cancelled-after-dial", "cancelled-after-dial", "timeout-expired-after-dial"}).Draw(rt, "dialctx"),
			Enforced: rapid.Bool().Draw(rt, "enforced"),
			Steps:    rapid.SliceOfN(rapid.SampledFrom([]string{"call", "call", "drop", "clone-call", "pause"}), 3, 8).Draw(rt, "steps")}
		if rapid.IntRange(0, 2).Draw(rt, "cluster") == 0 {
			c.Cluster = true
			c.RetryTimeoutMs = rapid.SampledFrom([]int{0, 1, 50, 5000, 5000}).Draw(rt, "retrytimeout")
			c.DeadFirst = rapid.Bool().Draw(rt, "deadfirst")
		}
		if rapid.IntRange(0, 1).Draw(rt, "restart") == 0 {
			// the server goes down and comes back (same port) somewhere in the script, calls being made meanwhile and afterwards
			at := rapid.IntRange(0, len(c.Steps)).Draw(rt, "downat")
			mid := rapid.SliceOfN(rapid.SampledFrom([]string{"call", "pause"}), 0, 2).Draw(rt, "whiledown")
			tail := append([]string{"server-down"}, mid...)
			tail = append(tail, "server-up", "call", "call", "call")
			c.Steps = append(append(append([]string{}, c.Steps[:at]...), tail...), c.Steps[at:]...)
		}
		nt := false
		for i, s := range c.Steps {
			if (s == "drop" || s == "server-up") && i+1 < len(c.Steps) {
				nt = true
			}
		}
		key, _ := json.Marshal(c)
		rec.Case(nt, key, "dialctx="+c.DialCtx)
		rec.Eval(len(c.Steps))
		if nt && rec.WantSample() {
			rec.Sample(c)
		}
		if sig, err := c11TLSRun(c); err != nil {
			if sig == "harness-slow" || sig == "harness-dial" && errors.Is(err, context.DeadlineExceeded) {
				rec.Label("skipped: machine too slow for real-time steps")
				return
			}
			if strings.HasPrefix(sig, "harness-") {
				rt.Fatalf("VERIF-INCONCLUSIVE %s: %v", sig, err)
			}
			rec.Fail(rt, name, sig, err, c)
		}
	})
}
