package client

import (
	"runtime"
	"context"
	"encoding/json"
	"errors"
	"fmt"
	"io"
	"net"
	"strings"
	"sync"
	"testing"
	"testing/synctest"
	"time"

	kmip "github.com/ovh/kmip-go"
	"github.com/ovh/kmip-go/kmipclient"
	"github.com/ovh/kmip-go/payloads"
	"pgregory.net/rapid"

	"verif/harness/census"
	"verif/harness/evid"
	"verif/harness/memnet"
	"verif/harness/ttlvref"
)

type c11Case struct {
	Enforced  bool   `json:"enforced_version"` // no negotiation exchange at connect time
	Dir       string `json:"fault"`            // read | write | server-close-after-reply | hook-close | none
	At        int    `json:"at"`               // index of the Read/Write call on the first connection, or of the reply, or of the hook hit
	Kind      string `json:"kind"`             // eof | closed | reset | short-write
	Reachable bool   `json:"server_reachable_afterwards"`
	FollowUp  string `json:"follow_up"` // again | twice | close | close-then-call | clone
	// Conn selects which dialled connection carries the fault (0 = the first one)
	Conn int `json:"conn"`
	// CloseMs > 0: closing a connection takes the client's transport this long (a closing handshake, a lingering socket)
	CloseMs int `json:"transport_close_takes_ms,omitempty"`
	// DropCount / IdleClose (fault server-drops-some-connections): the server drops DropCount consecutive connections,
	// starting with the At-th one dialled, in the way Kind says, and serves every other connection normally; with
	// IdleClose it closes a connection after every reply it sent on it (a server with a very short idle time-out), so
	// that every call begins on a connection that is gone
	// DialError (server not reachable afterwards): what the failing dials return: "" = connection refused | eof | closed-pipe |
	// unexpected-eof | reset | net-closed (a peer that hangs up in the middle of a TLS handshake makes the dial fail with
	// an end-of-stream error, not with "refused")
	DialError string `json:"failing_dials_return,omitempty"`
	DropCount int    `json:"drop_count,omitempty"`
	IdleClose bool `json:"server_closes_after_every_reply,omitempty"`
}

func faultErr(kind, op string) error {
	switch kind {
	case "eof":
		return io.EOF
	case "closed":
		return memnet.Closed(op)
	default:
		return memnet.Reset(op)
	}
}

type c11Server struct {
	holdReplies chan struct{} // when set, replies to calls wait until it is closed
	held        chan struct{} // signalled when a reply is being held
	dropFrom    int           // connections with index >= dropFrom are dropped by the server (-1: never)
	dropCount   int           // > 0: only this many connections are dropped, the following ones are served
	idleClose   bool          // close a connection after every (non-discovery) reply
	stallAt     int           // > 0: the stallAt-th request of the first connection is left unread (8-byte window), then the server hangs up
	dropKind    string        // on-accept | after-header | after-request
	mu          sync.Mutex
	counts      map[string]int // transmissions per identifier
	replies     int
	closeAt     int    // close the connection right after the n-th reply (0 = never)
	negFail     string // "" | no-common-version | operation-failed: (negotiation-fails-after-redial) how the discovery fails on the replacement connection
	srvConns    []*memnet.Conn
}

func (s *c11Server) serve(c *memnet.Conn, idx int) {
	if s.negFail != "" {
		raw, err := readFrame(c)
		if err != nil {
			return
		}
		if idx == 0 {
			c.Close() // the discovery request is read, then the connection is gone: a retriable fault
			return
		}
		req, _ := ttlvref.Parse(raw, ttlvref.Lenient)
		reply, _ := ttlvref.Parse(buildDiscover(req), ttlvref.Strict)
		item := reply.Kids[1]
		if s.negFail == "operation-failed" {
			item.Kids = []*ttlvref.Node{item.Kids[0], {Tag: tResultStatus, Type: ttlvref.Enumeration, I: 1}, {Tag: 0x42007E, Type: ttlvref.Enumeration, I: 0x100}}
		} else {
			// only a version the client does not have
			item.Kids[2].Kids = []*ttlvref.Node{{Tag: tProtoVersion, Type: ttlvref.Structure, Kids: []*ttlvref.Node{{Tag: 0x42006A, Type: ttlvref.Integer, I: 9}, {Tag: 0x42006B, Type: ttlvref.Integer, I: 9}}}}
		}
		_, _ = c.Write(ttlvref.Write(reply))
		// the connection stays open: it is the client's to close
		_, _ = readFrame(c)
		return
	}
	if s.dropFrom >= 0 && idx >= s.dropFrom && (s.dropCount == 0 || idx < s.dropFrom+s.dropCount) {
		switch s.dropKind {
		case "on-accept", "on-accept-noticed":
			c.Close()
			return
		case "after-header":
			hdr := make([]byte, 8)
			_, _ = io.ReadFull(c, hdr)
			c.Close()
			return
		default: // after-request: reads the whole request, never answers
			if raw, err := readFrame(c); err == nil {
				if req, perr := ttlvref.Parse(raw, ttlvref.Lenient); perr == nil {
					if idn := find(req, 0x420094); idn != nil {
						s.mu.Lock()
						s.counts[string(idn.B)]++
						s.mu.Unlock()
					}
				}
			}
			c.Close()
			return
		}
	}
	served := 0
	for {
		if s.stallAt > 0 && idx == 0 && served == s.stallAt-1 {
			// the next request is not read: the peer's window is 8 bytes, so the client's write blocks half-way; once
			// everything has come to rest (fake time) the server hangs up in two steps, so that the write fails when the
			// connection has already been torn down from the read side
			c.SetPeerWindow(8)
			time.Sleep(time.Millisecond)
			// first only the server's sending direction ends (the client reads the end of the stream while its own write is
			// still stuck), a moment later the connection is gone altogether and the stuck write fails
			_ = c.CloseWrite()
			time.Sleep(time.Millisecond)
			c.Close()
			return
		}
		raw, err := readFrame(c)
		if err != nil {
			return
		}
		served++
		req, _ := ttlvref.Parse(raw, ttlvref.Lenient)
		var reply []byte
		isDiscovery := false
		if op := find(req, tOperation); op != nil && op.I == 0x1E {
			// discovery: advertise 1.4 .. 1.0
			reply = buildDiscover(req)
			isDiscovery = true
		} else {
			idn := find(req, 0x420094)
			if idn != nil {
				s.mu.Lock()
				s.counts[string(idn.B)]++
				s.mu.Unlock()
			}
			reply = echoResponse(req)
			if s.holdReplies != nil {
				select {
				case s.held <- struct{}{}:
				default:
				}
				<-s.holdReplies
			}
		}
		if _, err := c.Write(reply); err != nil {
			return
		}
		s.mu.Lock()
		s.replies++
		closeNow := s.closeAt != 0 && s.replies == s.closeAt || s.idleClose && !isDiscovery
		s.mu.Unlock()
		if closeNow {
			c.Close()
			return
		}
	}
}

func buildDiscover(req *ttlvref.Node) []byte {
	ver := find(req, tProtoVersion)
	hdr := &ttlvref.Node{Tag: 0x42007A, Type: ttlvref.Structure, Kids: []*ttlvref.Node{ver.Clone(),
		{Tag: 0x420092, Type: ttlvref.DateTime, I: 1700000000}, {Tag: tBatchCount, Type: ttlvref.Integer, I: 1}}}
	pl := &ttlvref.Node{Tag: tResponsePayload, Type: ttlvref.Structure}
	for minor := 4; minor >= 0; minor-- {
		pl.Kids = append(pl.Kids, &ttlvref.Node{Tag: tProtoVersion, Type: ttlvref.Structure, Kids: []*ttlvref.Node{
			{Tag: 0x42006A, Type: ttlvref.Integer, I: 1}, {Tag: 0x42006B, Type: ttlvref.Integer, I: int64(minor)}}})
	}
	item := &ttlvref.Node{Tag: tBatchItem, Type: ttlvref.Structure, Kids: []*ttlvref.Node{{Tag: tOperation, Type: ttlvref.Enumeration, I: 0x1E},
		{Tag: tResultStatus, Type: ttlvref.Enumeration, I: 0}, pl}}
	return ttlvref.Write(&ttlvref.Node{Tag: 0x42007B, Type: ttlvref.Structure, Kids: []*ttlvref.Node{hdr, item}})
}

type c11Result struct {
	sig string
	err error
}

func c11Bubble(c c11Case) c11Result {
	fail := func(sig, format string, a ...any) c11Result { return c11Result{sig, fmt.Errorf(format, a...)} }
	srv := &c11Server{counts: map[string]int{}, dropFrom: -1}
	if c.Dir == "server-close-after-reply" {
		srv.closeAt = c.At
	}
	if c.Dir == "server-drops-connections" {
		srv.dropFrom, srv.dropKind = c.At, c.Kind
	}
	if c.Dir == "negotiation-fails-after-redial" {
		srv.negFail = c.Kind
	}
	if c.Dir == "server-closes-during-write" {
		srv.stallAt = c.At
	}
	if c.Dir == "server-drops-some-connections" {
		srv.dropFrom, srv.dropKind, srv.dropCount, srv.idleClose = c.At, c.Kind, c.DropCount, c.IdleClose
	}
	if c.Dir == "close-during-redial" || c.Dir == "second-caller-during-redial" {
		srv.closeAt = c.At // the server drops the first connection after its At-th reply: the next call has to re-dial
	}
	dials := 0
	runaway := false
	redialStarted, redialRelease := make(chan struct{}), make(chan struct{})
	var cliConns []*memnet.Conn
	dialer := func(ctx context.Context) (net.Conn, error) {
		n := dials
		dials++
		if dials > 60 {
			runaway = true
			return nil, errors.New("memnet: harness cut-off after 60 connections")
		}
		if (c.Dir == "close-during-redial" || c.Dir == "second-caller-during-redial") && n == 1 {
			// the re-dial takes time: the harness closes the client meanwhile, then lets the dial succeed
			close(redialStarted)
			<-redialRelease
		}
		if n > c.Conn && !c.Reachable && c.Dir != "server-drops-connections" {
			switch c.DialError {
			case "eof":
				return nil, fmt.Errorf("memnet: handshake: %w", io.EOF)
			case "closed-pipe":
				return nil, io.ErrClosedPipe
			case "unexpected-eof":
				return nil, io.ErrUnexpectedEOF
			case "reset":
				return nil, memnet.Reset("read")
			case "net-closed":
				return nil, memnet.Closed("read")
			}
			return nil, errors.New("memnet: connection refused")
		}
		a, b := memnet.Pipe()
		a.CloseDelay = time.Duration(c.CloseMs) * time.Millisecond
		if n == c.Conn {
			switch c.Dir {
			case "read":
				a.ReadFault = &memnet.Fault{At: c.At, Err: faultErr(c.Kind, "read"), Sticky: true}
			case "write":
				f := &memnet.Fault{At: c.At, Err: faultErr(c.Kind, "write"), Sticky: true}
				if c.Kind == "short-write" {
					f.Short, f.Err = 5, io.ErrShortWrite
				}
				if c.Kind == "reset-after-delivery" {
					// the request reaches the server (which answers), but the write reports a reset
					f.Delivered, f.Err = true, memnet.Reset("write")
				}
				a.WriteFault = f
			}
		}
		cliConns = append(cliConns, a)
		srv.mu.Lock()
		srv.srvConns = append(srv.srvConns, b)
		srv.mu.Unlock()
		if srv.dropFrom >= 0 && n >= srv.dropFrom && (srv.dropCount == 0 || n < srv.dropFrom+srv.dropCount) && srv.dropKind == "on-accept-noticed" {
			// dropped before the dial returns; together with the yield hook below the client's read loop has seen
			// the EOF before the request is handed to the write loop (with "on-accept" the scheduler decides)
			b.Close()
			return a, nil
		}
		go srv.serve(b, n)
		return a, nil
	}
	if (c.Dir == "server-drops-connections" || c.Dir == "server-drops-some-connections") && c.Kind == "on-accept-noticed" {
		kmipclient.SetVerifYield(func(point string) {
			if point == "kmipclient.conn.send.loaded" {
				time.Sleep(time.Millisecond) // fake time: every other goroutine runs until it blocks
			}
		})
		defer kmipclient.SetVerifYield(nil)
	}
	callN := 0
	var cancelCurrent context.CancelFunc // cancels the call in flight (set by call)
	if c.Dir == "cancel-after-reply" {
		hits := 0
		kmipclient.SetVerifYield(func(point string) {
			if point != "kmipclient.conn.roundtrip.sent" {
				return
			}
			hits++
			if hits == c.At {
				// the request is out, the caller is not yet waiting for the answer: let the server answer and the read loop
				// take the response off the wire (fake time), then abandon the call
				time.Sleep(time.Millisecond)
				if cancelCurrent != nil && callN <= 2 { // one of the two calls that precede the follow-up
					cancelCurrent()
				}
			}
		})
		defer kmipclient.SetVerifYield(nil)
	}
	hookHits := 0
	if c.Dir == "hook-close" {
		kmipclient.SetVerifYield(func(point string) {
			if point != "kmipclient.conn.send.loaded" {
				return
			}
			hookHits++
			if hookHits == c.At {
				// the server goes away exactly when the next request is about to be handed to the write loop
				srv.mu.Lock()
				for _, sc := range srv.srvConns {
					sc.Close()
				}
				srv.mu.Unlock()
				time.Sleep(time.Millisecond)
			}
		})
		defer kmipclient.SetVerifYield(nil)
	}
	opts := []kmipclient.Option{kmipclient.WithDialerUnsafe(dialer)}
	if c.Enforced {
		opts = append(opts, kmipclient.EnforceVersion(kmip.V1_4))
	}
	// every client call runs in its own goroutine so that "did it return" can be observed at quiescence
	type outcome struct {
		done bool
		id   string
		got  string
		err  error
	}
	run := func(f func() (string, error)) (string, error, bool) {
		var o outcome
		var mu sync.Mutex
		go func() {
			var g string
			var e error
			perr := safely(func() error { g, e = f(); return nil })
			mu.Lock()
			o.done, o.got, o.err = true, g, e
			if perr != nil {
				o.err = perr
			}
			mu.Unlock()
		}()
		synctest.Wait()
		mu.Lock()
		defer mu.Unlock()
		if !o.done {
			// nothing can make progress any more and the call has not returned; let fake time run in case a timer is pending
			mu.Unlock()
			// (a transport whose Close takes time is closed once per connection the call gives up: that is not a hang)
			time.Sleep(10*time.Second + 12*time.Duration(c.CloseMs)*time.Millisecond)
			synctest.Wait()
			mu.Lock()
		}
		return o.got, o.err, o.done
	}
	var cl *kmipclient.Client
	_, derr, returned := run(func() (string, error) {
		var e error
		cl, e = kmipclient.Dial("verif", opts...)
		return "", e
	})
	if !returned {
		return fail("dial-hangs", "Dial did not return (no goroutine can make progress)\n%s", census.Dump("kmip-go/kmipclient"))
	}
	if derr != nil && strings.HasPrefix(derr.Error(), "panic:") {
		return fail("dial-panics", "%v", derr)
	}
	finish := func() c11Result {
		if cl != nil {
			if perr := safely(func() error { return cl.Close() }); perr != nil && strings.HasPrefix(perr.Error(), "panic:") {
				return fail("close-panics", "%v", perr)
			}
		}
		if cl != nil {
			// a closed client leaves nothing behind, whatever its peers do (they are all still connected here)
			synctest.Wait()
			time.Sleep(time.Second + time.Duration(c.CloseMs)*time.Millisecond) // (a transport that is closing has finished)
			synctest.Wait()
			for k, v := range census.Count("kmipclient.(*conn).readloop", "kmipclient.(*conn).writeloop") {
				if v != 0 {
					return fail("closed-client-leaves-goroutines:"+k[strings.LastIndexByte(k, '.')+1:], "%d goroutines remain in %s after Close (the peers are still connected)\n%s", v, k, census.Dump(k))
				}
			}
		}
		if cl == nil && derr != nil {
			// Dial failed: there is no client to close, so everything it opened must be gone already (the peers are still connected)
			synctest.Wait()
			time.Sleep(time.Second + time.Duration(c.CloseMs)*time.Millisecond) // (a transport that is closing has finished)
			synctest.Wait()
			for k, v := range census.Count("kmipclient.(*conn).readloop", "kmipclient.(*conn).writeloop") {
				if v != 0 {
					return fail("failed-dial-leaves-goroutines:"+k[strings.LastIndexByte(k, '.')+1:], "Dial returned %q, yet %d goroutines remain in %s (the peers are still connected; %d connections were dialled)\n%s", derr, v, k, dials, census.Dump(k))
				}
			}
			for i, a := range cliConns {
				if !a.IsClosed() {
					return fail("failed-dial-leaves-connection-open", "Dial returned %q, yet connection %d of the %d it dialled was never closed", derr, i, len(cliConns))
				}
			}
		}
		srv.mu.Lock()
		for _, sc := range srv.srvConns {
			sc.Close()
		}
		srv.mu.Unlock()
		synctest.Wait()
		time.Sleep(time.Second + time.Duration(c.CloseMs)*time.Millisecond) // (a transport that is closing has finished)
		synctest.Wait()
		cnt := census.Count("kmipclient.(*conn).readloop", "kmipclient.(*conn).writeloop")
		for k, v := range cnt {
			if v != 0 {
				return fail("goroutines-leaked:"+k[strings.LastIndexByte(k, '.')+1:], "%d goroutines remain in %s after the client was closed and every peer went away\n%s", v, k, census.Dump(k))
			}
		}
		for id, n := range srv.counts {
			if n > 4 {
				return fail("too-many-transmissions", "request %s was transmitted %d times", id, n)
			}
		}
		return c11Result{}
	}
	if derr != nil {
		cl = nil
		return finish()
	}
	call := func(cc *kmipclient.Client) (ok bool, res *c11Result) {
		callN++
		id := fmt.Sprintf("req-%d", callN)
		dialsBefore := dials
		defer func() {
			if res == nil && (runaway || dials-dialsBefore > 6) {
				r := fail("unbounded-reconnects", "call %s dialled %d new connections (a call may transmit at most four times)", id, dials-dialsBefore)
				res = &r
			}
		}()
		ctx, cancel := context.WithCancel(context.Background())
		cancelCurrent = cancel
		defer cancel()
		got, err, returned := run(func() (string, error) {
			resp, err := cc.Request(ctx, &payloads.ActivateRequestPayload{UniqueIdentifier: id})
			if err != nil {
				return "", err
			}
			if ap, isA := resp.(*payloads.ActivateResponsePayload); isA {
				return ap.UniqueIdentifier, nil
			}
			return fmt.Sprintf("%T", resp), nil
		})
		if !returned {
			r := fail("call-hangs", "call %s did not return (no goroutine can make progress)\n%s", id, census.Dump("kmip-go/kmipclient"))
			return false, &r
		}
		if err != nil {
			if strings.HasPrefix(err.Error(), "panic:") {
				r := fail("call-panics", "call %s: %v", id, err)
				return false, &r
			}
			return false, nil
		}
		if got != id {
			r := fail("wrong-or-partial-response", "call %s returned the response %q", id, got)
			return false, &r
		}
		return true, nil
	}
	if c.Dir == "close-during-call" {
		// Close() races with the arrival of the response to a call in flight
		srv.mu.Lock()
		srv.holdReplies, srv.held = make(chan struct{}), make(chan struct{}, 1)
		srv.mu.Unlock()
		res := make(chan error, 1)
		go func() {
			res <- safely(func() error {
				_, _ = cl.Request(context.Background(), &payloads.ActivateRequestPayload{UniqueIdentifier: "req-held"})
				return nil
			})
		}()
		synctest.Wait()
		select {
		case <-srv.held:
		default:
			return fail("call-hangs", "the call neither returned nor reached the server")
		}
		closed := make(chan struct{})
		if c.At%2 == 1 {
			go func() { _ = safely(func() error { return cl.Close() }); close(closed) }()
			close(srv.holdReplies)
		} else {
			close(srv.holdReplies)
			go func() { _ = safely(func() error { return cl.Close() }); close(closed) }()
		}
		synctest.Wait()
		select {
		case perr := <-res:
			if perr != nil {
				return fail("call-panics", "%v", perr)
			}
		default:
			return fail("call-hangs", "the call did not return after Close()")
		}
		<-closed
		return finish()
	}
	if c.Dir == "close-during-redial" {
		for i := 0; i < 4; i++ {
			id := fmt.Sprintf("req-%d", i+1)
			res := make(chan error, 1)
			go func() {
				res <- safely(func() error {
					_, err := cl.Request(context.Background(), &payloads.ActivateRequestPayload{UniqueIdentifier: id})
					if err != nil {
						return nil
					}
					return nil
				})
			}()
			synctest.Wait()
			select {
			case perr := <-res:
				if perr != nil {
					return fail("call-panics", "%v", perr)
				}
				continue
			default:
			}
			select {
			case <-redialStarted:
			default:
				return fail("call-hangs", "call %s neither returned nor is it dialling", id)
			}
			// the call is inside the dialer: close the client now, then let the dial succeed
			if perr := safely(func() error { return cl.Close() }); perr != nil && strings.HasPrefix(perr.Error(), "panic:") {
				return fail("close-panics", "%v", perr)
			}
			synctest.Wait()
			close(redialRelease)
			synctest.Wait()
			select {
			case perr := <-res:
				if perr != nil {
					return fail("call-panics", "%v", perr)
				}
			default:
				return fail("call-hangs", "call %s did not return after the client was closed during its re-dial", id)
			}
			break
		}
		r := finish()
		if r.err != nil {
			return r
		}
		// every connection the client dialled must have been closed by it
		for i, cc := range cliConns {
			if !cc.IsClosed() {
				return fail("abandoned-connection-left-open", "connection %d dialled by the client was never closed although the client is closed", i)
			}
		}
		return r
	}
	if c.Dir == "second-caller-during-redial" {
		// a second goroutine calls while the first one's call is re-dialling (the dial takes a while): both calls get
		// their answers, and the client ends up with one connection, which Close closes - nothing else stays behind
		for i := 0; i < 4; i++ {
			id := fmt.Sprintf("req-%d", i+1)
			res := make(chan error, 2)
			request := func(id string) {
				res <- safely(func() error {
					resp, err := cl.Request(context.Background(), &payloads.ActivateRequestPayload{UniqueIdentifier: id})
					if err != nil {
						return nil
					}
					if ap, isA := resp.(*payloads.ActivateResponsePayload); !isA || ap.UniqueIdentifier != id {
						return fmt.Errorf("panic: wrong response for %s: %#v", id, resp)
					}
					return nil
				})
			}
			go request(id)
			synctest.Wait()
			select {
			case perr := <-res:
				if perr != nil {
					return fail("call-panics", "%v", perr)
				}
				continue
			default:
			}
			select {
			case <-redialStarted:
			default:
				return fail("call-hangs", "call %s neither returned nor is it dialling", id)
			}
			// (a goroutine waiting for a sync.Mutex is not durably blocked: synctest.Wait and the bubble's clock would
			// wait for it for ever, so the second caller is given a moment of real scheduling instead)
			secondStarted := make(chan struct{})
			go func() { close(secondStarted); request(id + "-second-caller") }()
			<-secondStarted
			for k := 0; k < 2000; k++ {
				runtime.Gosched()
			}
			close(redialRelease)
			synctest.Wait()
			for k := 0; k < 2; k++ {
				select {
				case perr := <-res:
					if perr != nil {
						return fail("wrong-or-partial-response", "%v", perr)
					}
				default:
					return fail("call-hangs", "a call did not return although the re-dial has completed (two callers, one of them re-dialling)")
				}
			}
			break
		}
		r := finish()
		if r.err != nil {
			return r
		}
		for i, cc := range cliConns {
			if !cc.IsClosed() {
				return fail("abandoned-connection-left-open", "connection %d dialled by the client was never closed although the client is closed (%d connections dialled)", i, dials)
			}
		}
		return r
	}
	prevFailed := false
	check := func(ok bool) *c11Result {
		if !ok && prevFailed && c.Reachable && c.Dir != "server-drops-connections" {
			r := fail("no-recovery", "two consecutive calls failed although the server is reachable: the client did not recover (dials so far: %d)", dials)
			return &r
		}
		prevFailed = !ok
		return nil
	}
	for i := 0; i < 2; i++ {
		ok, r := call(cl)
		if r != nil {
			return *r
		}
		if r := check(ok); r != nil {
			return *r
		}
	}
	switch c.FollowUp {
	case "again", "twice":
		n := 1
		if c.FollowUp == "twice" {
			n = 2
		}
		for i := 0; i < n; i++ {
			ok, r := call(cl)
			if r != nil {
				return *r
			}
			if r := check(ok); r != nil {
				return *r
			}
		}
		if c.Reachable && prevFailed && c.Dir != "server-drops-connections" {
			// one more: at the latest the call after a failed one succeeds
			ok, r := call(cl)
			if r != nil {
				return *r
			}
			if !ok {
				return fail("no-recovery", "the call after a failed call failed too although the server is reachable (dials: %d)", dials)
			}
		}
	case "close", "close-then-call":
		if perr := safely(func() error { return cl.Close() }); perr != nil && strings.HasPrefix(perr.Error(), "panic:") {
			return fail("close-panics", "%v", perr)
		}
		synctest.Wait()
		if c.FollowUp == "close-then-call" {
			before := dials
			for i := 0; i < 2; i++ {
				ok, r := call(cl)
				if r != nil {
					return *r
				}
				if ok {
					return fail("closed-client-serves-calls", "a call succeeded after Close")
				}
			}
			if dials != before {
				return fail("closed-client-reconnects", "the closed client dialled %d new connections", dials-before)
			}
		}
	case "clone":
		var clone *kmipclient.Client
		cloneConn := dials // index of the connection the clone will dial
		_, cerr, returned := run(func() (string, error) {
			var e error
			clone, e = cl.Clone()
			return "", e
		})
		if !returned {
			return fail("clone-hangs", "Clone did not return")
		}
		if cerr != nil && strings.HasPrefix(cerr.Error(), "panic:") {
			return fail("clone-panics", "%v", cerr)
		}
		if cerr == nil {
			ok, r := call(clone)
			if r != nil {
				return *r
			}
			if !ok && c.Reachable && c.Dir != "hook-close" && c.Dir != "server-drops-connections" && c.Dir != "server-drops-some-connections" && (cloneConn != c.Conn || c.Dir == "none") && (c.Dir != "server-close-after-reply") {
				return fail("clone-unusable", "a fresh clone on a reachable server failed its first call")
			}
			_ = safely(func() error { return clone.Close() })
		}
	}
	return finish()
}

func c11Run(t *testing.T, c c11Case) (string, error) {
	defer evid.DeadlockWatch("C11", "TestC11Faults", c, "kmip-go/kmipclient")()
	var res c11Result
	perr := safely(func() error {
		synctest.Test(t, func(st *testing.T) { res = c11Bubble(c) })
		return nil
	})
	if res.err != nil {
		return res.sig, res.err
	}
	if perr != nil {
		if strings.Contains(perr.Error(), "deadlock") || strings.Contains(perr.Error(), "blocked goroutines") {
			return "goroutines-remain", fmt.Errorf("goroutines remain blocked at the end of the case: %v\n%s", perr, census.Dump("kmip-go/kmipclient"))
		}
		return "bubble-panic", perr
	}
	return "", nil
}

func c11Space() []c11Case {
	var out []c11Case
	followUps := []string{"again", "twice", "close", "close-then-call", "clone"}
	for _, enforced := range []bool{false, true} {
		for _, reachable := range []bool{true, false} {
			for _, fu := range followUps {
				add := func(dir string, at int, kind string) {
					cc := c11Case{Enforced: enforced, Dir: dir, At: at, Kind: kind, Reachable: reachable, FollowUp: fu}
					if !reachable {
						// the dials that fail afterwards fail in turn with each kind of error
						cc.DialError = []string{"", "eof", "closed-pipe", "unexpected-eof", "reset", "net-closed"}[len(out)%6]
					}
					out = append(out, cc)
				}
				add("none", 0, "")
				for at := 1; at <= 7; at++ {
					for _, k := range []string{"eof", "closed", "reset"} {
						add("read", at, k)
					}
				}
				for at := 1; at <= 3; at++ {
					for _, k := range []string{"closed", "reset", "short-write", "reset-after-delivery"} {
						add("write", at, k)
					}
				}
				if reachable && (fu == "again" || fu == "twice" || fu == "clone") {
					// the same faults on a transport whose Close takes half a second: the follow-up is made while the
					// connection that failed is still closing
					for _, dk := range [][2]string{{"write", "reset"}, {"write", "short-write"}, {"write", "closed"}, {"read", "reset"}, {"read", "eof"}} {
						for at := 1; at <= 3; at++ {
							out = append(out, c11Case{Enforced: enforced, Dir: dk[0], At: at, Kind: dk[1], Reachable: true, FollowUp: fu, CloseMs: 500})
						}
					}
				}
				for at := 1; at <= 3; at++ {
					add("server-close-after-reply", at, "")
				}
				for at := 1; at <= 3; at++ {
					// the at-th request is being written (the server does not read, its window is 8 bytes) when the server hangs up
					add("server-closes-during-write", at, "")
					// ... and on a transport whose Close takes 5 ms: the stuck write fails only after everybody else has reacted to the teardown
					out = append(out, c11Case{Enforced: enforced, Dir: "server-closes-during-write", At: at, Reachable: reachable, FollowUp: fu, CloseMs: 5})
				}
				for at := 1; at <= 3; at++ {
					add("hook-close", at, "")
				}
				if reachable {
					// the k-th exchange is abandoned (context cancelled) when its response has already been read off the wire
					for at := 1; at <= 3; at++ {
						add("cancel-after-reply", at, "")
					}
				}
				if reachable && fu == "again" {
					for at := 1; at <= 2; at++ {
						add("close-during-call", at, "")
					}
				}
				if reachable && fu == "again" {
					// Close() lands while a call is re-dialling after the server dropped the connection
					for at := 1; at <= 3; at++ {
						add("close-during-redial", at, "")
						add("second-caller-during-redial", at, "")
					}
				}
				if reachable && !enforced && fu == "again" {
					// the first connection is lost during version negotiation, the negotiation then fails on the replacement
					for _, k := range []string{"no-common-version", "operation-failed"} {
						add("negotiation-fails-after-redial", 0, k)
					}
				}
				if reachable && (fu == "again" || fu == "twice") {
					// a server that drops 1..4 consecutive connections (a call spends up to all of its re-transmissions on them) and
					// serves the others, optionally closing every connection right after the reply
					for at := 1; at <= 2; at++ {
						for n := 1; n <= 4; n++ {
							for _, k := range []string{"on-accept-noticed", "after-header", "after-request"} {
								for _, idle := range []bool{false, true} {
									out = append(out, c11Case{Enforced: enforced, Dir: "server-drops-some-connections", At: at, Kind: k, Reachable: true, FollowUp: fu, DropCount: n, IdleClose: idle})
								}
							}
						}
					}
				}
				if reachable {
					// a server that keeps accepting and dropping connections (from the first, second or third one on)
					for at := 0; at <= 2; at++ {
						for _, k := range []string{"on-accept", "on-accept-noticed", "after-header", "after-request"} {
							add("server-drops-connections", at, k)
						}
					}
				}
			}
		}
	}
	return out
}

func TestC11Faults(t *testing.T) {
	const name = "TestC11Faults"
	rec := evid.New("C11", name, "fault enumeration (single caller, synctest bubble): every Read index 1..7 and Write index 1..3 of the first connection x {EOF, closed, reset, short write, reset reported after the data was delivered} (also on a transport whose Close takes 500 ms, the follow-up being made while the failed connection is still closing), the server closing right after its 1st..3rd reply, the server hanging up while the 1st..3rd request is still being written (its window is full), a server that keeps accepting and dropping every connection (on accept, after 8 bytes, after the whole request) from the 1st/2nd/3rd connection on, a server that drops 1..4 consecutive connections and serves the others (optionally closing every connection right after its reply), Close() landing while a call is re-dialling (the dial then succeeds), the first connection lost during version negotiation and the negotiation failing on the replacement (Dial fails: nothing it opened may remain), the server going away exactly when the k-th request is about to be handed to the write loop, and the k-th call abandoned (context cancelled) between send and receive once its response has been read off the wire (yield-point hooks), "+
		"x {with, without version negotiation} x {server reachable afterwards, not (the failing dials returning connection refused, an end-of-stream, closed-pipe, unexpected-EOF, reset or closed-connection error)} x follow-up {call again, twice, Close, Close then call, Clone}; two calls precede the follow-up; "+
		"oracle: every call and Dial/Close/Clone returns (quiescence = hang verdict), response complete and its own or an error, never two consecutive failed calls on a reachable server, <= 4 transmissions per request and a bounded number of connections per call, a closed client serves nothing and dials nothing, census of client connection goroutines 0 at the end; "+
		"non-trivial = a fault is injected; distinct by case").Attach(t)
	rec.Exhaustive(true)
	if rp := evid.LoadReplay(name); rp != nil {
		var c c11Case
		if err := json.Unmarshal(rp.Case, &c); err != nil {
			t.Fatal(err)
		}
		if sig, err := c11Run(t, c); err != nil {
			t.Fatalf("VERIF-FAIL property=C11 test=%s sig=%s replay=: %v", name, sig, err)
		}
		return
	}
	for i, c := range c11Space() {
		key, _ := json.Marshal(c)
		rec.Case(c.Dir != "none", key, "fault="+c.Dir, "followup="+c.FollowUp)
		if c.Dir != "none" && i%211 == 0 {
			rec.Sample(c)
		}
		evid.Journal("C11", name, c)
		if sig, err := c11Run(t, c); err != nil {
			rec.Fail(t, name, sig+":"+c.Dir+":"+c.Kind, err, c)
			return
		}
	}
}

// TestC11Random: faults on later connections too, drawn by rapid.
func TestC11Random(t *testing.T) {
	const name = "TestC11Random"
	rec := evid.New("C11", name, "rapid: the same fault model with the faulty connection drawn among the first three dialled connections and larger indices; same oracle; non-trivial = a fault is injected; distinct by case").Attach(t)
	if rp := evid.LoadReplay(name); rp != nil {
		var c c11Case
		if err := json.Unmarshal(rp.Case, &c); err != nil {
			t.Fatal(err)
		}
		if sig, err := c11Run(t, c); err != nil {
			t.Fatalf("VERIF-FAIL property=C11 test=%s sig=%s replay=: %v", name, sig, err)
		}
		return
	}
	rapid.Check(t, func(rt *rapid.T) {
		c := c11Case{Enforced: rapid.Bool().Draw(rt, "enforced"), Reachable: rapid.IntRange(0, 3).Draw(rt, "reachable") > 0,
			FollowUp: rapid.SampledFrom([]string{"again", "twice", "close", "close-then-call", "clone"}).Draw(rt, "followup"),
			Dir:      rapid.SampledFrom([]string{"read", "read", "write", "server-close-after-reply", "hook-close", "server-drops-some-connections"}).Draw(rt, "dir"),
			Conn:     rapid.IntRange(0, 2).Draw(rt, "conn")}
		switch c.Dir {
		case "read":
			c.At, c.Kind = rapid.IntRange(1, 12).Draw(rt, "at"), rapid.SampledFrom([]string{"eof", "closed", "reset"}).Draw(rt, "kind")
		case "write":
			c.At, c.Kind = rapid.IntRange(1, 5).Draw(rt, "at"), rapid.SampledFrom([]string{"closed", "reset", "short-write", "reset-after-delivery"}).Draw(rt, "kind")
		case "server-drops-some-connections":
			c.Reachable, c.Conn = true, 0
			c.At, c.DropCount = rapid.IntRange(1, 3).Draw(rt, "at"), rapid.IntRange(1, 5).Draw(rt, "dropcount")
			c.Kind = rapid.SampledFrom([]string{"on-accept-noticed", "after-header", "after-request"}).Draw(rt, "kind")
			c.IdleClose = rapid.Bool().Draw(rt, "idleclose")
		default:
			c.At = rapid.IntRange(1, 5).Draw(rt, "at")
		}
		c.CloseMs = rapid.SampledFrom([]int{0, 0, 0, 1, 500, 4000}).Draw(rt, "closems")
		if !c.Reachable {
			c.DialError = rapid.SampledFrom([]string{"", "eof", "closed-pipe", "unexpected-eof", "reset", "net-closed"}).Draw(rt, "dialerror")
		}
		key, _ := json.Marshal(c)
		rec.Case(true, key, "fault="+c.Dir, fmt.Sprintf("slowclose=%v", c.CloseMs > 0))
		if rec.WantSample() {
			rec.Sample(c)
		}
		evid.Journal("C11", name, c)
		if sig, err := c11Run(t, c); err != nil {
			rec.Fail(rt, name, sig+":"+c.Dir+":"+c.Kind, err, c)
		}
	})
}
