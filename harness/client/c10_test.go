package client

import (
	"bytes"
	"context"
	"encoding/json"
	"errors"
	"fmt"
	"net"
	"runtime"
	"sync"
	"sync/atomic"
	"testing"
	"time"

	kmip "github.com/ovh/kmip-go"
	"github.com/ovh/kmip-go/kmipclient"
	"github.com/ovh/kmip-go/payloads"
	"pgregory.net/rapid"

	"verif/harness/evid"
	"verif/harness/memnet"
	"verif/harness/ttlvref"
)

type callPlan struct {
	ID     string `json:"id"`
	Cancel string `json:"cancel"` // none | pre | during-write | at-write-end | after-received | after-replied | while-waiting | deadline
	// reply | late | never | close | push-reply | reply-push | close-late (the first transmission is read and the connection
	// closed, so that the client re-dials and re-sends inside the call; the retransmission is answered late)
	Server string `json:"server"`
	// Hold: a late answer is released only after this many further calls of the same caller have returned (0: as soon as
	// the call itself has returned); the server answers in order on each connection
	Hold int `json:"hold_late_answer_for_calls,omitempty"`
	// Cause: the call's context is cancelled with a cause of the caller's own (WithCancelCause / WithTimeoutCause)
	Cause bool `json:"cancel_with_cause,omitempty"`
	// Op: "" = Activate through Client.Request (the identifier travels in the payload); query | discover = a Query /
	// Discover Versions request through Client.Roundtrip (the identifier travels as the item's Unique Batch Item ID,
	// which the server sends back): what a call may receive does not depend on what it asks for
	Op string `json:"operation,omitempty"`
}
type c10Case struct {
	Callers [][]callPlan `json:"callers"`
	// Correlation: the client carries kmipclient.CorrelationValueMiddleware (KMIP 1.4 client correlation values, which the
	// server sends back in its response headers): "" (no middleware) | unique (a new value per request) | shared (one
	// value for all requests, a transaction identifier) | alternate (every other request carries the shared value, the
	// others none). Such a value labels a request; it does not identify an exchange.
	Correlation string `json:"client_correlation_values,omitempty"`
	// FreshClone: the callers share a Clone() of the dialled client that nobody has used before they start, and they
	// start together (a worker pool handed a clone)
	FreshClone bool `json:"callers_share_a_fresh_clone,omitempty"`
	// BothClients (with FreshClone): the callers with an even index use the dialled client, the others its clone: two
	// clients of one process, each with a connection of its own, at work at the same time
	BothClients bool `json:"even_callers_use_the_original_client,omitempty"`
	// CloseAfterMs > 0: the client is closed that long after the callers have started, whatever they are doing (one call
	// waiting for an answer that never comes, the others queued behind it): every call then returns, with an error or its
	// own response; HangAfterS is the verdict time for "does not return" in that case (default 30)
	// ReadIdleMs > 0: the transport the dialer hands out gives every Read that many milliseconds (an idle timer, as a
	// proxying or TLS-terminating dialer may set one): a call whose answer takes longer fails with a time-out - and
	// its answer, when it comes, is nobody's
	ReadIdleMs   int `json:"transport_read_idle_timeout_ms,omitempty"`
	CloseAfterMs int `json:"client_closed_after_ms,omitempty"`
	HangAfterS   int `json:"hang_verdict_after_s,omitempty"`
}

// echoResponse builds the response the server produces for a request: it echoes the identifier it read.
func echoResponse(req *ttlvref.Node) []byte {
	ver := find(req, tProtoVersion)
	hdr := &ttlvref.Node{Tag: 0x42007A, Type: ttlvref.Structure}
	if ver != nil {
		hdr.Kids = append(hdr.Kids, ver.Clone())
	}
	hdr.Kids = append(hdr.Kids, &ttlvref.Node{Tag: 0x420092, Type: ttlvref.DateTime, I: 1700000000})
	if ccv := find(req, 0x420105); ccv != nil {
		// a 1.4 server sends the client correlation value back
		hdr.Kids = append(hdr.Kids, ccv.Clone())
	}
	hdr.Kids = append(hdr.Kids, &ttlvref.Node{Tag: tBatchCount, Type: ttlvref.Integer, I: 1})
	id := find(req, 0x420094)
	op := find(req, tOperation)
	item := &ttlvref.Node{Tag: tBatchItem, Type: ttlvref.Structure, Kids: []*ttlvref.Node{op.Clone()}}
	payload := &ttlvref.Node{Tag: tResponsePayload, Type: ttlvref.Structure}
	if bid := find(req, tUniqueBatchID); bid != nil {
		item.Kids = append(item.Kids, bid.Clone())
		switch op.I {
		case 0x18: // Query: the identifier also goes into the Vendor Identification
			payload.Kids = append(payload.Kids, &ttlvref.Node{Tag: 0x42009D, Type: ttlvref.TextString, B: bid.B})
		case 0x1E: // Discover Versions
			payload.Kids = append(payload.Kids, &ttlvref.Node{Tag: 0x420069, Type: ttlvref.Structure, Kids: []*ttlvref.Node{
				{Tag: 0x42006A, Type: ttlvref.Integer, I: 1}, {Tag: 0x42006B, Type: ttlvref.Integer, I: 4}}})
		}
	}
	if id != nil {
		payload.Kids = append(payload.Kids, id.Clone())
	}
	item.Kids = append(item.Kids, &ttlvref.Node{Tag: tResultStatus, Type: ttlvref.Enumeration, I: 0}, payload)
	return ttlvref.Write(&ttlvref.Node{Tag: 0x42007B, Type: ttlvref.Structure, Kids: []*ttlvref.Node{hdr, item}})
}

type c10Server struct {
	mu       sync.Mutex
	plans    map[string]callPlan
	seen     map[string]int
	released map[string]chan struct{}
	gotReq   map[string]chan struct{} // closed when the server has read the request
	gotReq2  map[string]chan struct{} // closed when the server has read the retransmission of the request
	replied  map[string]chan struct{}
	conns    []*memnet.Conn
}

func (s *c10Server) serve(c *memnet.Conn) {
	// answers leave in the order of the requests: each one waits for its predecessor on this connection
	var last chan struct{}
	inOrder := func(f func()) {
		prev, done := last, make(chan struct{})
		last = done
		go func() {
			if prev != nil {
				select {
				case <-prev:
				case <-c.Done():
				}
			}
			f()
			close(done)
		}()
	}
	for {
		raw, err := readFrame(c)
		if err != nil {
			return
		}
		req, _ := ttlvref.Parse(raw, ttlvref.Lenient)
		idn := find(req, 0x420094)
		if idn == nil {
			idn = find(req, tUniqueBatchID)
		}
		if idn == nil {
			return
		}
		id := string(idn.B)
		s.mu.Lock()
		s.seen[id]++
		n := s.seen[id]
		p := s.plans[id]
		rel := s.released[id]
		rep := s.replied[id]
		s.mu.Unlock()
		closeOnce(s.gotReq[id])
		if n == 2 {
			closeOnce(s.gotReq2[id])
		}
		action := p.Server
		if n > 1 {
			action = "reply" // a retransmission after a reconnect is answered
		}
		if p.Server == "close-late" {
			action = map[int]string{1: "close", 2: "late"}[n]
			if action == "" {
				action = "reply"
			}
		}
		switch action {
		case "reply-huge":
			// a legal response of about 5 MB (a non-critical message extension carrying a large vendor blob)
			inOrder(func() {
				resp, _ := ttlvref.Parse(echoResponse(req), ttlvref.Strict)
				item := resp.Kids[len(resp.Kids)-1]
				item.Kids = append(item.Kids, &ttlvref.Node{Tag: 0x420051, Type: ttlvref.Structure, Kids: []*ttlvref.Node{
					{Tag: 0x42009D, Type: ttlvref.TextString, B: []byte("verif")},
					{Tag: 0x420026, Type: ttlvref.Boolean, I: 0},
					{Tag: 0x42009C, Type: ttlvref.Structure, Kids: []*ttlvref.Node{{Tag: 0x540001, Type: ttlvref.ByteString, B: make([]byte, 5<<20)}}}}})
				_, _ = c.Write(ttlvref.Write(resp))
				closeOnce(rep)
			})
		case "reply":
			inOrder(func() {
				_, _ = c.Write(echoResponse(req))
				closeOnce(rep)
			})
		case "push-reply":
			// a server-originated request (which clients are documented to ignore) precedes the response
			inOrder(func() {
				_, _ = c.Write(raw)
				_, _ = c.Write(echoResponse(req))
				closeOnce(rep)
			})
		case "reply-push":
			inOrder(func() {
				_, _ = c.Write(echoResponse(req))
				_, _ = c.Write(raw)
				closeOnce(rep)
			})
		case "late":
			inOrder(func() {
				select {
				case <-rel:
				case <-c.Done():
					return
				}
				_, _ = c.Write(echoResponse(req))
				closeOnce(rep)
			})
		case "never":
		case "close":
			c.Close()
			return
		}
	}
}

// idleConn gives every Read a deadline of its own.
type idleConn struct {
	*memnet.Conn
	idle time.Duration
}

func (c idleConn) Read(p []byte) (int, error) {
	_ = c.Conn.SetReadDeadline(time.Now().Add(c.idle))
	return c.Conn.Read(p)
}

func closeOnce(c chan struct{}) {
	defer func() { _ = recover() }()
	close(c)
}

type heldAnswer struct {
	id   string
	left int
}

type callResult struct {
	Caller, Index int
	ID            string
	Got           string
	Err           string
	Hung          bool
}

func c10Run(c c10Case) (sig string, err error) {
	srv := &c10Server{plans: map[string]callPlan{}, seen: map[string]int{}, released: map[string]chan struct{}{}, replied: map[string]chan struct{}{}, gotReq: map[string]chan struct{}{}, gotReq2: map[string]chan struct{}{}}
	cancels := map[string]context.CancelFunc{}
	var cmu sync.Mutex
	for _, calls := range c.Callers {
		for _, p := range calls {
			srv.plans[p.ID] = p
			srv.released[p.ID] = make(chan struct{})
			srv.replied[p.ID] = make(chan struct{})
			srv.gotReq[p.ID] = make(chan struct{})
			srv.gotReq2[p.ID] = make(chan struct{})
		}
	}
	var ccvN atomic.Int64
	c10opts := []kmipclient.Option{kmipclient.EnforceVersion(kmip.V1_4)}
	if c.Correlation != "" {
		c10opts = append(c10opts, kmipclient.WithMiddlewares(kmipclient.CorrelationValueMiddleware(func() string {
			n := ccvN.Add(1)
			switch c.Correlation {
			case "unique":
				return fmt.Sprintf("ccv-%d", n)
			case "alternate":
				if n%2 == 0 {
					return ""
				}
			}
			return "txn-7"
		})))
	}
	cl, derr := kmipclient.Dial("verif", append(c10opts, kmipclient.WithDialerUnsafe(func(ctx context.Context) (net.Conn, error) {
		a, b := memnet.Pipe()
		srv.mu.Lock()
		srv.conns = append(srv.conns, a, b)
		srv.mu.Unlock()
		// a call whose plan is "during-write" is cancelled when the first half of its request is on the wire
		a.WriteHook = func(p []byte) (int, func()) {
			for id, pl := range srv.plans {
				if pl.Cancel == "at-write-end" && bytes.Contains(p, []byte(id)) {
					id := id
					// cancelled when all but the last byte is written: the write then completes at once, so the caller sees
					// "write completed" and "context cancelled" at the same moment (either may win)
					return len(p) - 1, func() {
						cmu.Lock()
						cf := cancels[id]
						cmu.Unlock()
						if cf != nil {
							cf()
						}
					}
				}
				if pl.Cancel == "during-write" && bytes.Contains(p, []byte(id)) {
					id := id
					return len(p) / 2, func() {
						cmu.Lock()
						cf := cancels[id]
						cmu.Unlock()
						if cf != nil {
							cf()
						}
						// let the caller observe the cancellation while the write is still in progress
						time.Sleep(2 * time.Millisecond)
					}
				}
			}
			return 0, nil
		}
		go srv.serve(b)
		if c.ReadIdleMs > 0 {
			return idleConn{a, time.Duration(c.ReadIdleMs) * time.Millisecond}, nil
		}
		return a, nil
	}))...)
	if derr != nil {
		return "harness-dial", derr
	}
	clientOf := func(ci int) *kmipclient.Client { return cl }
	if c.FreshClone {
		orig := cl
		defer orig.Close()
		clone, cerr := orig.Clone()
		if cerr != nil {
			return "harness-dial", cerr
		}
		cl = clone
		if c.BothClients {
			clientOf = func(ci int) *kmipclient.Client {
				if ci%2 == 0 {
					return orig
				}
				return clone
			}
		}
	}
	// the generator owns the window between send and recv: the hook knows which request was just sent
	var current sync.Map // goroutine id -> identifier of the call it is executing
	hits := map[string]int{}
	acted := map[string]bool{}
	kmipclient.SetVerifYield(func(point string) {
		if point != "kmipclient.conn.roundtrip.sent" {
			return
		}
		// the hook runs on the caller's goroutine: that tells which request was just sent
		v, ok := current.Load(goid())
		if !ok {
			return
		}
		id := v.(string)
		srv.mu.Lock()
		p := srv.plans[id]
		rep := srv.replied[id]
		got := srv.gotReq[id]
		hits[id]++
		first := hits[id] == 1
		if p.Server == "close-late" {
			// the exchange the generator interferes with is the one the server answers late: the second transmission it
			// reads (the client's own count of completed sends can differ: a send may report the server's close although
			// the server has read the request)
			got = srv.gotReq2[id]
			first = !acted[id]
		}
		srv.mu.Unlock()
		if !first {
			return // a retransmission after a reconnect
		}
		if p.Server == "close-late" {
			select {
			case <-got:
			case <-time.After(100 * time.Millisecond):
				return // this transmission is the one whose connection the server closes
			}
			srv.mu.Lock()
			acted[id] = true
			srv.mu.Unlock()
		}
		doCancel := func() {
			cmu.Lock()
			cf := cancels[id]
			cmu.Unlock()
			if cf != nil {
				cf()
			}
		}
		switch p.Cancel {
		case "while-waiting":
			// an explicit cancel (not a deadline) a few milliseconds after the caller has started waiting for the answer
			select {
			case <-got:
			case <-time.After(5 * time.Second):
			}
			time.AfterFunc(3*time.Millisecond, doCancel)
		case "after-received":
			select {
			case <-got:
			case <-time.After(5 * time.Second):
			}
			doCancel()
		case "after-replied":
			if p.Server == "reply" {
				select {
				case <-rep:
				case <-time.After(5 * time.Second):
				}
				// give the client's read loop the chance to pick the response up (either order is a valid schedule)
				time.Sleep(200 * time.Microsecond)
			} else {
				select {
				case <-got:
				case <-time.After(5 * time.Second):
				}
			}
			doCancel()
		}
	})
	defer kmipclient.SetVerifYield(nil)
	results := make(chan callResult, 64)
	hangAfter := 30 * time.Second
	if c.HangAfterS > 0 {
		hangAfter = time.Duration(c.HangAfterS) * time.Second
	}
	var wg sync.WaitGroup
	start := make(chan struct{})
	for ci, calls := range c.Callers {
		wg.Add(1)
		go func(ci int, calls []callPlan) {
			defer wg.Done()
			<-start
			var held []heldAnswer
			defer func() {
				for _, h := range held {
					closeOnce(srv.released[h.id])
				}
			}()
			for i, p := range calls {
				ctx, cancel := context.WithCancel(context.Background())
				if p.Cause {
					// the caller says why it gives up (context.WithCancelCause / WithTimeoutCause): a cancellation like any other
					var cc context.CancelCauseFunc
					ctx, cc = context.WithCancelCause(context.Background())
					cancel = func() { cc(errors.New("caller gave up: " + p.ID)) }
				}
				switch p.Cancel {
				case "pre":
					cancel()
				case "deadline":
					var c2 context.CancelFunc
					if p.Cause {
						ctx, c2 = context.WithTimeoutCause(ctx, 15*time.Millisecond, errors.New("caller's budget is used up: "+p.ID))
					} else {
						ctx, c2 = context.WithTimeout(ctx, 15*time.Millisecond)
					}
					defer c2()
				}
				cmu.Lock()
				cancels[p.ID] = cancel
				cmu.Unlock()
				if (p.Server == "late" || p.Server == "close-late") && (p.Cancel == "none" || p.Cancel == "pre") {
					rel := srv.released[p.ID]
					time.AfterFunc(10*time.Millisecond, func() { closeOnce(rel) })
				}
				if (p.Server == "late" || p.Server == "never" || p.Server == "close-late") && p.Cancel != "none" && p.Cancel != "pre" {
					// the plan is to abandon this call; should the hook miss its moment (a loaded machine), the harness
					// abandons it anyway after 3 s: a cancelled call must return, which the 30 s limit below still checks
					wd := time.AfterFunc(3*time.Second, cancel)
					defer wd.Stop()
				}
				done := make(chan callResult, 1)
				go func() {
					r := callResult{Caller: ci, Index: i, ID: p.ID}
					current.Store(goid(), p.ID)
					defer current.Delete(goid())
					perr := safely(func() error {
						if p.Op != "" {
							var pl kmip.OperationPayload = &payloads.QueryRequestPayload{QueryFunction: []kmip.QueryFunction{kmip.QueryFunctionOperations, kmip.QueryFunctionServerInformation}}
							if p.Op == "discover" {
								pl = &payloads.DiscoverVersionsRequestPayload{}
							}
							msg := kmip.NewRequestMessage(kmip.V1_4, pl)
							msg.BatchItem[0].UniqueBatchItemID = []byte(p.ID)
							resp, err := clientOf(ci).Roundtrip(ctx, &msg)
							switch {
							case err != nil:
								r.Err = err.Error()
							case len(resp.BatchItem) != 1:
								r.Got = fmt.Sprintf("%d items", len(resp.BatchItem))
							default:
								r.Got = string(resp.BatchItem[0].UniqueBatchItemID)
							}
							return nil
						}
						resp, err := clientOf(ci).Request(ctx, &payloads.ActivateRequestPayload{UniqueIdentifier: p.ID})
						if err != nil {
							r.Err = err.Error()
							return nil
						}
						if ap, ok := resp.(*payloads.ActivateResponsePayload); ok {
							r.Got = ap.UniqueIdentifier
						} else {
							r.Got = fmt.Sprintf("%T", resp)
						}
						return nil
					})
					if perr != nil {
						r.Err = perr.Error()
					}
					done <- r
				}()
				select {
				case r := <-done:
					results <- r
				case <-time.After(hangAfter):
					results <- callResult{Caller: ci, Index: i, ID: p.ID, Hung: true}
					cancel()
					return
				}
				// the abandoned call's late response is released only now (or some calls later): it must never reach a later call
				held = append(held, heldAnswer{p.ID, p.Hold})
				var keep []heldAnswer
				for _, h := range held {
					if h.left <= 0 {
						closeOnce(srv.released[h.id])
					} else {
						keep = append(keep, heldAnswer{h.id, h.left - 1})
					}
				}
				held = keep
				cancel()
			}
		}(ci, calls)
	}
	close(start)
	if c.CloseAfterMs > 0 {
		go func() {
			time.Sleep(time.Duration(c.CloseAfterMs) * time.Millisecond)
			_ = safely(func() error { return cl.Close() })
		}()
	}
	wg.Wait()
	close(results)
	_ = cl.Close()
	srv.mu.Lock()
	for _, x := range srv.conns {
		x.Close()
	}
	srv.mu.Unlock()
	for r := range results {
		if r.Hung {
			if c.CloseAfterMs > 0 {
				return "call-hangs-after-close", fmt.Errorf("caller %d call %d (%s) did not return within %s although the client was closed %d ms after the callers started", r.Caller, r.Index, r.ID, hangAfter, c.CloseAfterMs)
			}
			return "call-hangs", fmt.Errorf("caller %d call %d (%s) did not return within 30 s", r.Caller, r.Index, r.ID)
		}
		if r.Err == "" && r.Got != r.ID {
			return "foreign-response", fmt.Errorf("caller %d call %d sent %q and received the response to %q", r.Caller, r.Index, r.ID, r.Got)
		}
		if len(r.Err) > 6 && r.Err[:6] == "panic:" {
			return "call-panics", fmt.Errorf("caller %d call %d: %s", r.Caller, r.Index, r.Err)
		}
		p := srv.plans[r.ID]
		if c.ReadIdleMs > 0 {
			continue // any answer may take longer than such a transport allows (on a busy machine also a prompt one)
		}
		if r.Err != "" && c.CloseAfterMs == 0 && p.Cancel == "none" && (p.Server == "reply" || p.Server == "late" || p.Server == "push-reply" || p.Server == "reply-push" || p.Server == "close-late") {
			// an undisturbed call on a healthy server may only fail if an earlier call of another caller tore the shared connection down;
			// the client retries on a fresh connection, so it must succeed
			return "undisturbed-call-fails", fmt.Errorf("caller %d call %d (%s, server %s, no cancellation) failed: %s", r.Caller, r.Index, r.ID, p.Server, r.Err)
		}
	}
	return "", nil
}

func TestC10OwnResponse(t *testing.T) {
	const name = "TestC10OwnResponse"
	rec := evid.New("C10", name, "1..4 caller goroutines sharing one client, each issuing 1..4 calls with unique identifiers (Activate through Request, or Query / Discover Versions through Roundtrip); per call a cancellation plan (none, context already cancelled, cancelled while the request is half written, cancelled at the moment its last byte is written, cancelled between send and receive once the server has read the request, "+
		"cancelled once the server has written the reply, cancelled explicitly a few milliseconds into the wait for the answer, 15 ms deadline) and a server plan (reply at once, reply late - after the call was abandoned, or only after one or two further calls of that caller, answers leaving each connection in request order -, never reply, close the connection, close the connection after reading the request and answer the retransmission late, send a server-originated request before or after the reply, answer with a legal response of 5 MB followed by five ordinary calls); the client optionally carries the correlation value middleware (a new value per request, one value shared by all requests, or every other request only), the server sending the values back as a 1.4 server does; the send/recv window is owned by the generator through the yield-point hook; real time, event driven; "+
		"oracle: every call returns within 30 s with an error or the response echoing its own identifier, undisturbed calls succeed; non-trivial = a call cancelled mid-exchange is followed by a later call, or >= 2 callers; distinct by case").Attach(t)
	if rp := evid.LoadReplay(name); rp != nil {
		var c c10Case
		if err := json.Unmarshal(rp.Case, &c); err != nil {
			t.Fatal(err)
		}
		for i := 0; i < 20; i++ {
			if sig, err := c10Run(c); err != nil {
				t.Fatalf("VERIF-FAIL property=C10 test=%s sig=%s replay=: %v", name, sig, err)
			}
		}
		return
	}
	rapid.Check(t, func(rt *rapid.T) {
		var c c10Case
		n := rapid.IntRange(1, 4).Draw(rt, "callers")
		k := 0
		nt := n >= 2
		for ci := 0; ci < n; ci++ {
			m := rapid.IntRange(1, 4).Draw(rt, "calls")
			var calls []callPlan
			for i := 0; i < m; i++ {
				k++
				p := callPlan{ID: fmt.Sprintf("call-%d-%d", ci, i)}
				p.Cancel = rapid.SampledFrom([]string{"none", "none", "none", "pre", "after-received", "after-replied", "after-replied", "deadline", "during-write", "at-write-end", "while-waiting", "while-waiting"}).Draw(rt, "cancel")
				switch p.Cancel {
				case "none", "pre":
					p.Server = rapid.SampledFrom([]string{"reply", "reply", "late", "close", "push-reply", "reply-push", "close-late"}).Draw(rt, "server")
				case "while-waiting":
					p.Server = rapid.SampledFrom([]string{"late", "late", "never", "close-late"}).Draw(rt, "server")
				case "after-received":
					p.Server = rapid.SampledFrom([]string{"late", "never", "reply", "close-late"}).Draw(rt, "server")
				case "during-write", "at-write-end":
					p.Server = rapid.SampledFrom([]string{"reply", "reply", "late"}).Draw(rt, "server")
				case "after-replied":
					p.Server = rapid.SampledFrom([]string{"reply", "reply", "late", "close-late"}).Draw(rt, "server")
				default:
					p.Server = rapid.SampledFrom([]string{"late", "never", "reply", "close-late"}).Draw(rt, "server")
				}
				if p.Cancel != "none" {
					p.Cause = rapid.IntRange(0, 2).Draw(rt, "cause") == 0
				}
				p.Op = rapid.SampledFrom([]string{"", "", "", "query", "discover"}).Draw(rt, "op")
				if (p.Server == "late" || p.Server == "close-late") && p.Cancel != "none" && p.Cancel != "pre" {
					p.Hold = rapid.SampledFrom([]int{0, 0, 1, 2}).Draw(rt, "hold")
				}
				if (p.Cancel == "after-received" || p.Cancel == "after-replied" || p.Cancel == "during-write" || p.Cancel == "at-write-end" || p.Cancel == "while-waiting") && i < m-1 {
					nt = true
				}
				calls = append(calls, p)
			}
			c.Callers = append(c.Callers, calls)
		}
		if rapid.IntRange(0, 7).Draw(rt, "hugereply") == 0 {
			// the first caller's first call is answered with a very large (legal) response; five undisturbed calls follow it
			c.Callers[0][0].Server, c.Callers[0][0].Cancel, c.Callers[0][0].Op = "reply-huge", "none", ""
			for i := 0; i < 5; i++ {
				c.Callers[0] = append(c.Callers[0], callPlan{ID: fmt.Sprintf("call-0-%d", len(c.Callers[0])), Cancel: "none", Server: "reply"})
			}
		}
		c.Correlation = rapid.SampledFrom([]string{"", "", "unique", "shared", "alternate"}).Draw(rt, "correlation")
		c.FreshClone = rapid.IntRange(0, 2).Draw(rt, "fresh-clone") == 0
		c.BothClients = c.FreshClone && rapid.Bool().Draw(rt, "both-clients")
		if rapid.IntRange(0, 4).Draw(rt, "read-idle") == 0 {
			c.ReadIdleMs = rapid.SampledFrom([]int{5, 8, 50}).Draw(rt, "read-idle-ms")
		}
		key, _ := json.Marshal(c)
		rec.Case(nt, key, fmt.Sprintf("callers=%d", n), "correlation="+c.Correlation)
		if nt && rec.WantSample() {
			rec.Sample(c)
		}
		evid.Journal("C10", name, c)
		if sig, err := c10Run(c); err != nil {
			rec.Fail(rt, name, sig, err, c)
		}
	})
}

// goid returns the id of the calling goroutine (parsed from its stack header; harness-only use).
func goid() int64 {
	buf := make([]byte, 64)
	n := runtime.Stack(buf, false)
	var id int64
	fmt.Sscanf(string(buf[:n]), "goroutine %d ", &id)
	return id
}
