// Package memnet is an in-memory net.Conn / net.Listener pair for the server and
// client checks. All blocking is done on channels (durably blocking, so it works
// inside testing/synctest bubbles as well as in real time). Each connection end
// can be given a delivery plan (read chunk sizes), a flow-control window (writes
// block while the peer has not read) and a fault plan (the k-th read or write
// fails with a chosen error).
package memnet

import (
	"errors"
	"fmt"
	"io"
	"net"
	"os"
	"sync"
	"sync/atomic"
	"syscall"
	"time"
)

type addr string

func (a addr) Network() string { return "memnet" }
func (a addr) String() string  { return string(a) }

// pipe is one direction of a connection.
type pipe struct {
	mu      sync.Mutex
	buf     []byte
	wclosed bool          // writer closed: reader gets EOF after draining
	rclosed bool          // reader closed: writer gets EPIPE
	wake    chan struct{} // cap 1: data available / state change (reader side)
	drained chan struct{} // cap 1: buffer shrank / state change (writer side)
	window  int           // 0: unbounded; else writers block while len(buf) >= window
}

func newPipe() *pipe {
	return &pipe{wake: make(chan struct{}, 1), drained: make(chan struct{}, 1)}
}

func poke(c chan struct{}) {
	select {
	case c <- struct{}{}:
	default:
	}
}

// Fault describes an injected failure.
type Fault struct {
	// At: the 1-based index of the Read (or Write) call on this end that fails.
	At int
	// Err returned by that call (e.g. io.EOF, net.ErrClosed, ECONNRESET wrapped in *net.OpError).
	Err error
	// Short: for writes, deliver only this many bytes before failing (short write).
	Short int
	// Sticky: every later call on this end fails the same way.
	Sticky bool
	// Delivered: for writes, the data does reach the peer, yet the call reports the error
	// (e.g. a reset noticed right after the last segment was sent).
	Delivered bool
}

// Conn is one end of an in-memory connection.
type Conn struct {
	// CloseDelay: Close blocks for this long before it takes effect (set before the connection is handed out).
	CloseDelay time.Duration
	// CloseErr: Close does its work and then reports this error (a tls.Conn whose close_notify could not be written
	// reports one; the connection is closed all the same)
	CloseErr      error
	rd, wr        *pipe
	local, remote addr
	closeOnce     sync.Once
	done          chan struct{}
	paused        atomic.Bool
	resume        chan struct{}
	// deadlines (as net.Conn documents them): an operation that is blocked, or starts, past its deadline fails with
	// os.ErrDeadlineExceeded; a zero time means none. dlWake wakes blocked operations when a deadline changes.
	dlMu     sync.Mutex
	rdl, wdl time.Time
	dlWakeR  chan struct{}
	dlWakeW  chan struct{}

	mu         sync.Mutex
	reads      int
	writes     int
	ReadFault  *Fault
	WriteFault *Fault
	// ReadPlan: chunk sizes for successive reads (cycled); empty = as much as requested.
	ReadPlan []int
	planIdx  int
	// Counters
	BytesRead    int
	BytesWritten int
	ClosedByUser bool
	// OnClose is called once when Close is called on this end.
	OnClose func()
	// WriteHook, if set, may split a Write in two and run a callback between the halves.
	WriteHook func(p []byte) (split int, mid func())
}

var pipeSeq atomic.Int64

// Pipe returns the two ends of a fresh connection (addresses are unique per pipe).
func Pipe() (*Conn, *Conn) {
	ab, ba := newPipe(), newPipe()
	n := pipeSeq.Add(1)
	ca, cb := addr(fmt.Sprintf("memnet-client-%d", n)), addr(fmt.Sprintf("memnet-server-%d", n))
	a := &Conn{rd: ba, wr: ab, local: ca, remote: cb, done: make(chan struct{}), resume: make(chan struct{}, 1), dlWakeR: make(chan struct{}, 1), dlWakeW: make(chan struct{}, 1)}
	b := &Conn{rd: ab, wr: ba, local: cb, remote: ca, done: make(chan struct{}), resume: make(chan struct{}, 1), dlWakeR: make(chan struct{}, 1), dlWakeW: make(chan struct{}, 1)}
	return a, b
}

// SetWindow bounds how many unread bytes may sit in the direction written by this end.
func (c *Conn) SetWindow(n int) {
	c.wr.mu.Lock()
	c.wr.window = n
	c.wr.mu.Unlock()
}

// Reset is the ECONNRESET error as a real TCP connection would report it.
func Reset(op string) error {
	return &net.OpError{Op: op, Net: "tcp", Err: syscall.ECONNRESET}
}

// Closed is net.ErrClosed wrapped as the net package does.
func Closed(op string) error {
	return &net.OpError{Op: op, Net: "tcp", Err: net.ErrClosed}
}

func (c *Conn) Read(p []byte) (int, error) {
	c.mu.Lock()
	c.reads++
	k := c.reads
	f := c.ReadFault
	limit := 0
	if len(c.ReadPlan) > 0 {
		limit = c.ReadPlan[c.planIdx%len(c.ReadPlan)]
		c.planIdx++
	}
	c.mu.Unlock()
	if f != nil && (k == f.At || (f.Sticky && k > f.At)) {
		return 0, f.Err
	}
	if len(p) == 0 {
		return 0, nil
	}
	for {
		select {
		case <-c.done:
			return 0, Closed("read")
		default:
		}
		if c.expired(false) {
			return 0, &net.OpError{Op: "read", Net: "tcp", Err: os.ErrDeadlineExceeded}
		}
		if c.paused.Load() {
			// the application on this end has stopped reading: block even if data is available
			select {
			case <-c.resume:
				continue
			case <-c.done:
				return 0, Closed("read")
			}
		}
		c.rd.mu.Lock()
		if len(c.rd.buf) > 0 {
			n := len(p)
			if limit > 0 && n > limit {
				n = limit
			}
			if n > len(c.rd.buf) {
				n = len(c.rd.buf)
			}
			copy(p, c.rd.buf[:n])
			c.rd.buf = c.rd.buf[n:]
			c.rd.mu.Unlock()
			poke(c.rd.drained)
			c.mu.Lock()
			c.BytesRead += n
			c.mu.Unlock()
			return n, nil
		}
		if c.rd.wclosed {
			c.rd.mu.Unlock()
			return 0, io.EOF
		}
		c.rd.mu.Unlock()
		timer, stop := c.deadlineTimer(false)
		select {
		case <-c.rd.wake:
		case <-timer:
		case <-c.dlWakeR:
		case <-c.done:
			stop()
			return 0, Closed("read")
		}
		stop()
	}
}

// expired reports whether the read (write) deadline has passed.
func (c *Conn) expired(write bool) bool {
	c.dlMu.Lock()
	defer c.dlMu.Unlock()
	d := c.rdl
	if write {
		d = c.wdl
	}
	return !d.IsZero() && !time.Now().Before(d)
}

// deadlineTimer returns a channel that fires when the read (write) deadline passes (nil channel if none).
func (c *Conn) deadlineTimer(write bool) (<-chan time.Time, func()) {
	c.dlMu.Lock()
	d := c.rdl
	if write {
		d = c.wdl
	}
	c.dlMu.Unlock()
	if d.IsZero() {
		return nil, func() {}
	}
	t := time.NewTimer(time.Until(d))
	return t.C, func() { t.Stop() }
}

func (c *Conn) Write(p []byte) (int, error) {
	c.mu.Lock()
	c.writes++
	k := c.writes
	f := c.WriteFault
	c.mu.Unlock()
	if f != nil && (k == f.At || (f.Sticky && k > f.At)) {
		n := 0
		if f.Delivered && k == f.At {
			n, _ = c.write(p)
			return n, f.Err
		}
		if f.Short > 0 && f.Short < len(p) && k == f.At {
			// the faulty call itself hands over part of the data; a sticky fault lets nothing through afterwards
			n, _ = c.write(p[:f.Short])
		}
		return n, f.Err
	}
	c.mu.Lock()
	hook := c.WriteHook
	c.mu.Unlock()
	if hook != nil {
		if split, mid := hook(p); mid != nil && split > 0 && split < len(p) {
			// the write is "in progress": the first part is on the wire, something happens, then the rest follows
			n1, err := c.write(p[:split])
			if err != nil {
				return n1, err
			}
			mid()
			n2, err := c.write(p[split:])
			return n1 + n2, err
		}
	}
	return c.write(p)
}

func (c *Conn) write(p []byte) (int, error) {
	written := 0
	for written < len(p) {
		select {
		case <-c.done:
			return written, Closed("write")
		default:
		}
		if c.expired(true) {
			return written, &net.OpError{Op: "write", Net: "tcp", Err: os.ErrDeadlineExceeded}
		}
		c.wr.mu.Lock()
		if c.wr.rclosed {
			c.wr.mu.Unlock()
			return written, &net.OpError{Op: "write", Net: "tcp", Err: syscall.EPIPE}
		}
		if c.wr.window > 0 && len(c.wr.buf) >= c.wr.window {
			c.wr.mu.Unlock()
			timer, stop := c.deadlineTimer(true)
			select {
			case <-c.wr.drained:
			case <-timer:
			case <-c.dlWakeW:
			case <-c.done:
				stop()
				return written, Closed("write")
			}
			stop()
			continue
		}
		n := len(p) - written
		if c.wr.window > 0 && n > c.wr.window-len(c.wr.buf) {
			n = c.wr.window - len(c.wr.buf)
		}
		c.wr.buf = append(c.wr.buf, p[written:written+n]...)
		c.wr.mu.Unlock()
		poke(c.wr.wake)
		written += n
	}
	c.mu.Lock()
	c.BytesWritten += written
	c.mu.Unlock()
	return written, nil
}

// CloseWrite half-closes: the peer reads EOF after draining, this end can still read.
func (c *Conn) CloseWrite() error {
	c.wr.mu.Lock()
	c.wr.wclosed = true
	c.wr.mu.Unlock()
	poke(c.wr.wake)
	return nil
}

// Close closes this end: pending and later reads/writes on it fail with net.ErrClosed,
// the peer reads EOF (after draining) and its writes fail with EPIPE.
func (c *Conn) Close() error {
	if d := c.CloseDelay; d > 0 {
		// a transport whose Close takes time (a closing handshake, a lingering socket): the end is usable until it is over
		time.Sleep(d)
	}
	c.closeOnce.Do(func() {
		c.mu.Lock()
		c.ClosedByUser = true
		cb := c.OnClose
		c.mu.Unlock()
		close(c.done)
		c.wr.mu.Lock()
		c.wr.wclosed = true
		c.wr.mu.Unlock()
		poke(c.wr.wake)
		c.rd.mu.Lock()
		c.rd.rclosed = true
		c.rd.mu.Unlock()
		poke(c.rd.drained)
		if cb != nil {
			cb()
		}
	})
	return c.CloseErr
}

// IsClosed reports whether Close was called on this end.
func (c *Conn) IsClosed() bool {
	select {
	case <-c.done:
		return true
	default:
		return false
	}
}

// Done is closed when Close has been called on this end.
func (c *Conn) Done() <-chan struct{} { return c.done }

// Pending returns the number of bytes written by this end that the peer has not read yet.
func (c *Conn) Pending() int {
	c.wr.mu.Lock()
	defer c.wr.mu.Unlock()
	return len(c.wr.buf)
}

// Counts returns the number of Read and Write calls made on this end.
func (c *Conn) Counts() (reads, writes int) {
	c.mu.Lock()
	defer c.mu.Unlock()
	return c.reads, c.writes
}

func (c *Conn) LocalAddr() net.Addr  { return c.local }
func (c *Conn) RemoteAddr() net.Addr { return c.remote }
func (c *Conn) SetDeadline(t time.Time) error {
	c.dlMu.Lock()
	c.rdl, c.wdl = t, t
	c.dlMu.Unlock()
	poke(c.dlWakeR)
	poke(c.dlWakeW)
	return nil
}
func (c *Conn) SetReadDeadline(t time.Time) error {
	c.dlMu.Lock()
	c.rdl = t
	c.dlMu.Unlock()
	poke(c.dlWakeR)
	return nil
}
func (c *Conn) SetWriteDeadline(t time.Time) error {
	c.dlMu.Lock()
	c.wdl = t
	c.dlMu.Unlock()
	poke(c.dlWakeW)
	return nil
}

// Listener hands out connections pushed with Dial.
type Listener struct {
	ch        chan net.Conn
	done      chan struct{}
	closeOnce sync.Once
	// AcceptErr, if set, is returned once by the next Accept instead of a connection.
	mu        sync.Mutex
	acceptErr error
	// ClosedErr selects how Accept reports a closed listener: "" = *net.OpError wrapping net.ErrClosed (as the net
	// package does), "bare" = net.ErrClosed itself, "wrapped" = an error wrapping it with %w (as listeners of other
	// packages do). errors.Is(err, net.ErrClosed) holds for all three.
	ClosedErr string
	// ServerCloseErr is given to the server end of every connection dialled from now on (see Conn.CloseErr).
	ServerCloseErr error
	// CloseErr: Close closes the listener and then reports this error (a socket file that cannot be removed, ...)
	CloseErr error
}

func NewListener() *Listener {
	return &Listener{ch: make(chan net.Conn), done: make(chan struct{})}
}

func (l *Listener) Accept() (net.Conn, error) {
	l.mu.Lock()
	if e := l.acceptErr; e != nil {
		l.acceptErr = nil
		l.mu.Unlock()
		return nil, e
	}
	l.mu.Unlock()
	select {
	case c := <-l.ch:
		return c, nil
	case <-l.done:
		switch l.ClosedErr {
		case "bare":
			return nil, net.ErrClosed
		case "wrapped":
			return nil, fmt.Errorf("memnet: accept: %w", net.ErrClosed)
		}
		return nil, &net.OpError{Op: "accept", Net: "memnet", Err: net.ErrClosed}
	}
}

func (l *Listener) Close() error {
	l.closeOnce.Do(func() { close(l.done) })
	return l.CloseErr
}

func (l *Listener) Addr() net.Addr { return addr("memnet-listener") }

// ErrRefused is returned by Dial once the listener is closed.
var ErrRefused = errors.New("memnet: connection refused (listener closed)")

// Dial creates a connection, hands the server end to Accept and returns the client end.
func (l *Listener) Dial() (*Conn, error) {
	client, server := Pipe()
	server.CloseErr = l.ServerCloseErr
	select {
	case l.ch <- server:
		return client, nil
	case <-l.done:
		return nil, ErrRefused
	}
}

// DialPair is Dial but also returns the server end (for instrumentation).
func (l *Listener) DialPair() (client, server *Conn, err error) {
	client, server = Pipe()
	server.CloseErr = l.ServerCloseErr
	select {
	case l.ch <- server:
		return client, server, nil
	case <-l.done:
		return nil, nil, ErrRefused
	}
}

// SetPeerWindow bounds how many unread bytes may sit in the direction READ by this end
// (i.e. written by the peer): the peer's writes block while this end does not read.
func (c *Conn) SetPeerWindow(n int) {
	c.rd.mu.Lock()
	c.rd.window = n
	c.rd.mu.Unlock()
}

// PauseReads makes Read on this end block (even when data is available) until ResumeReads:
// an application that has stopped reading. A Read already blocked waiting for data is woken up
// so that it observes the pause before consuming anything.
func (c *Conn) PauseReads() {
	c.paused.Store(true)
	poke(c.rd.wake)
}

// ResumeReads ends PauseReads.
func (c *Conn) ResumeReads() {
	c.paused.Store(false)
	poke(c.resume)
	poke(c.rd.wake)
}
